# Builds the code under test (from $(VERIF_REPO), as it stands) and the harness.
#   make -j16 all                      everything (setup_cmd)
#   make -j16 prop-C07                 what check C07 needs
# BUILD holds everything that depends on the repository sources; FWBUILD holds
# harness objects that do not (shared between /repo and scratch copies).

VERIF_REPO ?= /repo
VERIF      := $(dir $(abspath $(lastword $(MAKEFILE_LIST))))
VERIF      := $(VERIF:/=)
FWBUILD    ?= $(VERIF)/build
BUILD      ?= $(VERIF)/build
SRC        := $(VERIF)/src

CC  := clang
CXX := clang++

SAN      := -fsanitize=address,undefined -fno-sanitize-recover=undefined
LIBDEFS  := -DREPROC_MULTITHREADED -I$(VERIF_REPO)/reproc/include -I$(VERIF_REPO)/reproc/src
CFLAGS_san  := -O1 -g -std=c99 $(SAN) $(LIBDEFS)
CFLAGS_rel  := -O1 -g -std=c99 $(SAN) -DNDEBUG $(LIBDEFS)
CFLAGS_tsan := -O1 -g -std=c99 -fsanitize=thread $(LIBDEFS)
CFLAGS_tsanrel := -O1 -g -std=c99 -fsanitize=thread -DNDEBUG $(LIBDEFS)

HCXXFLAGS := -std=gnu++17 -g -O1 $(SAN) -I$(SRC) -I$(VERIF_REPO)/reproc/include -I$(VERIF_REPO)/reproc++/include -Wall -Wno-unused-function
HCFLAGS   := -g -O1 $(SAN) -I$(SRC) -Wall

LIBSRC := $(filter-out %.windows.c,$(wildcard $(VERIF_REPO)/reproc/src/*.c))
LIBNAMES := $(notdir $(LIBSRC:.c=))

FLAVOURS := san rel tsan tsanrel

.SECONDARY:
.PHONY: all clean
.DEFAULT_GOAL := all

# ---------------------------------------------------------------- library ----
define LIB_RULES
$(BUILD)/lib-$(1)/%.o: $(VERIF_REPO)/reproc/src/%.c
	@mkdir -p $$(dir $$@)
	$(CC) $$(CFLAGS_$(1)) -MMD -MP -c $$< -o $$@

# interposable object: boundary functions renamed to vs_*
$(BUILD)/lib-$(1)/libreproc.o: $$(addprefix $(BUILD)/lib-$(1)/,$$(addsuffix .o,$(LIBNAMES))) $(SRC)/vsys/syms.map
	ld -r -o $$@.raw $$(filter %.o,$$^)
	objcopy --redefine-syms=$(SRC)/vsys/syms.map $$@.raw $$@
	@nm -u $$@ | awk '{print $$$$2}' | grep -v -E '^(__asan|__ubsan|__tsan|__sanitizer|vs_|__errno_location|__assert_fail|__xpg_strerror_r|environ|stdin|stdout|stderr|memcpy|memset|memmove|strlen|strcpy|strchr|strcmp|abs|_GLOBAL_OFFSET_TABLE_|__stack_chk_fail)' | sed 's/^/verif: WARNING: library references un-interposed symbol: /' >&2 || true

# plain (not interposed) object for targets that use the real libc directly
$(BUILD)/lib-$(1)/reproc_plain.o: $$(addprefix $(BUILD)/lib-$(1)/,$$(addsuffix .o,$(LIBNAMES)))
	ld -r -o $$@ $$(filter %.o,$$^)

-include $$(wildcard $(BUILD)/lib-$(1)/*.d)
endef
$(foreach f,$(FLAVOURS),$(eval $(call LIB_RULES,$(f))))

# reproc++ (unmodified) for C19 / C16 / C15
$(BUILD)/cxx/reproc.o: $(VERIF_REPO)/reproc++/src/reproc.cpp
	@mkdir -p $(dir $@)
	$(CXX) -std=gnu++11 -g -O1 $(SAN) -I$(VERIF_REPO)/reproc/include -I$(VERIF_REPO)/reproc++/include -MMD -MP -c $< -o $@
-include $(wildcard $(BUILD)/cxx/*.d)

# Windows sources compiled on Linux against stub headers (C18)
WINSRC := process.windows utf.windows handle.windows
$(BUILD)/win/%.o: $(VERIF_REPO)/reproc/src/%.c $(wildcard $(SRC)/winstub/*.h)
	@mkdir -p $(dir $@)
	$(CC) -O1 -g -std=gnu99 $(SAN) -D_WIN32 -DWIN32 -I$(SRC)/winstub -I$(VERIF_REPO)/reproc/include -I$(VERIF_REPO)/reproc/src -Wno-everything -MMD -MP -c $< -o $@
$(BUILD)/win/winstub.o: $(SRC)/winstub/winstub.c $(wildcard $(SRC)/winstub/*.h)
	@mkdir -p $(dir $@)
	$(CC) -O1 -g -std=gnu99 $(SAN) -D_WIN32 -DWIN32 -I$(SRC)/winstub -I$(VERIF_REPO)/reproc/include -I$(VERIF_REPO)/reproc/src -MMD -MP -c $< -o $@
-include $(wildcard $(BUILD)/win/*.d)

# ---------------------------------------------------------------- harness ----
$(FWBUILD)/fw_main.o: $(SRC)/common/fw_main.cpp $(SRC)/common/fw.hpp
	@mkdir -p $(dir $@)
	$(CXX) -std=gnu++17 -g -O1 $(SAN) -I$(SRC) -c $< -o $@

$(FWBUILD)/fw_main_tsan.o: $(SRC)/common/fw_main.cpp $(SRC)/common/fw.hpp
	@mkdir -p $(dir $@)
	$(CXX) -std=gnu++17 -g -O1 -fsanitize=thread -I$(SRC) -c $< -o $@

$(FWBUILD)/vsys.o: $(SRC)/vsys/vsys.c $(SRC)/vsys/vsys.h
	@mkdir -p $(dir $@)
	$(CC) $(HCFLAGS) -c $< -o $@

$(FWBUILD)/puppet: $(SRC)/puppet.c $(SRC)/common/proto.h
	@mkdir -p $(dir $@)
	$(CC) -O1 -g -static -I$(SRC) $< -o $@ 2>/dev/null || $(CC) -O1 -g -I$(SRC) $< -o $@

$(BUILD)/h/%.o: $(SRC)/common/%.cpp $(wildcard $(SRC)/common/*.hpp) $(SRC)/common/proto.h $(SRC)/vsys/vsys.h
	@mkdir -p $(dir $@)
	$(CXX) $(HCXXFLAGS) -c $< -o $@

$(BUILD)/props/%.o: $(SRC)/props/%.cpp $(wildcard $(SRC)/common/*.hpp) $(wildcard $(SRC)/model/*.hpp) $(SRC)/common/proto.h $(SRC)/vsys/vsys.h
	@mkdir -p $(dir $@)
	$(CXX) $(HCXXFLAGS) -MMD -MP -c $< -o $@
-include $(wildcard $(BUILD)/props/*.d)

HARNESS_OBJS := $(BUILD)/h/harness.o

# standard engine (R / V / D): interposed library + vsys + puppet
STD_PROPS := C01 C02 C03 C04 C05 C06 C07 C08 C09 C10 C11 C12 C13 C14 C15 C16 C17
define STD_RULES
$(BUILD)/props/$(1): $(BUILD)/props/$(1).o $(FWBUILD)/fw_main.o $(FWBUILD)/vsys.o $(HARNESS_OBJS) $(BUILD)/lib-san/libreproc.o $(BUILD)/cxx/reproc.o | $(FWBUILD)/puppet
	$(CXX) $(SAN) -o $$@ $$^ -lrapidcheck -lpthread
$(BUILD)/props/$(1).rel: $(BUILD)/props/$(1).o $(FWBUILD)/fw_main.o $(FWBUILD)/vsys.o $(HARNESS_OBJS) $(BUILD)/lib-rel/libreproc.o $(BUILD)/cxx/reproc.o | $(FWBUILD)/puppet
	$(CXX) $(SAN) -o $$@ $$^ -lrapidcheck -lpthread
endef
$(foreach p,$(STD_PROPS),$(eval $(call STD_RULES,$(p))))

# C19: reproc++ against the recording mock of the C API
$(BUILD)/props/C19: $(BUILD)/props/C19.o $(FWBUILD)/fw_main.o $(BUILD)/cxx/reproc.o $(BUILD)/lib-san/error.posix.o
	$(CXX) $(SAN) -o $@ $^ -lrapidcheck -lpthread

# C04 (Windows half) on the same stub
$(BUILD)/props/C04win: $(BUILD)/props/C04win.o $(FWBUILD)/fw_main.o $(addprefix $(BUILD)/win/,$(addsuffix .o,process.windows utf.windows handle.windows)) $(BUILD)/win/winstub.o
	$(CXX) $(SAN) -o $@ $^ -lrapidcheck -lpthread
$(BUILD)/props/C04win.o: HCXXFLAGS += -I$(SRC)/winstub

# C18: Windows sources on stub headers
$(BUILD)/props/C18: $(BUILD)/props/C18.o $(FWBUILD)/fw_main.o $(addprefix $(BUILD)/win/,$(addsuffix .o,$(WINSRC))) $(BUILD)/win/winstub.o
	$(CXX) $(SAN) -o $@ $^ -lrapidcheck -lpthread
$(BUILD)/props/C18.o: HCXXFLAGS += -I$(SRC)/winstub
$(BUILD)/winfuzz/%.o: $(VERIF_REPO)/reproc/src/%.c $(wildcard $(SRC)/winstub/*.h)
	@mkdir -p $(dir $@)
	$(CC) -O1 -g -std=gnu99 -fsanitize=fuzzer-no-link,address,undefined -fno-sanitize-recover=undefined -D_WIN32 -DWIN32 -I$(SRC)/winstub -I$(VERIF_REPO)/reproc/include -I$(VERIF_REPO)/reproc/src -Wno-everything -MMD -MP -c $< -o $@
-include $(wildcard $(BUILD)/winfuzz/*.d)
$(BUILD)/fuzz/C18_fuzz: $(SRC)/fuzz/C18_fuzz.cpp $(SRC)/props/C18_oracle.hpp $(addprefix $(BUILD)/winfuzz/,$(addsuffix .o,$(WINSRC))) $(BUILD)/win/winstub.o
	@mkdir -p $(dir $@)
	$(CXX) -std=gnu++17 -g -O1 -fsanitize=fuzzer,address,undefined -fno-sanitize-recover=undefined -I$(SRC) -I$(SRC)/winstub -I$(SRC)/props -o $@ $(filter %.cpp %.o,$^)

# Engine W2: the whole library in its _WIN32 configuration on the Win32
# simulator (src/winsim). Allocation calls of the library are renamed to the
# simulator's recording allocator; the BSD-style socket names are renamed in the
# combined object so that they do not shadow libc's.
WSIM_LIB := reproc redirect options strv drain run clock.windows error.windows handle.windows init.windows pipe.windows process.windows redirect.windows utf.windows
# (NDEBUG, the flavour that ships: an ASSERT that fires would end the worker in every binary alike and blur which property a change breaks)
WSIM_CFLAGS := -O1 -g -std=gnu99 $(SAN) -DNDEBUG -D_WIN32 -D_WIN64 -DWIN32 -fdeclspec -I$(SRC)/winsim -I$(VERIF_REPO)/reproc/include -I$(VERIF_REPO)/reproc/src
$(BUILD)/wsim/%.o: $(VERIF_REPO)/reproc/src/%.c $(wildcard $(SRC)/winsim/*.h)
	@mkdir -p $(dir $@)
	$(CC) $(WSIM_CFLAGS) -Wno-everything -MMD -MP -c $< -o $@
$(BUILD)/wsim/winsim.o: $(SRC)/winsim/winsim.c $(wildcard $(SRC)/winsim/*.h)
	@mkdir -p $(dir $@)
	$(CC) $(WSIM_CFLAGS) -Wall -MMD -MP -c $< -o $@
$(BUILD)/wsim/wsimlib.o: $(addprefix $(BUILD)/wsim/,$(addsuffix .o,$(WSIM_LIB))) $(BUILD)/wsim/winsim.o $(SRC)/winsim/alloc.map $(SRC)/winsim/sock.map
	ld -r -o $@.lib.raw $(addprefix $(BUILD)/wsim/,$(addsuffix .o,$(WSIM_LIB)))
	objcopy --redefine-syms=$(SRC)/winsim/alloc.map $@.lib.raw $@.lib
	ld -r -o $@.raw $@.lib $(BUILD)/wsim/winsim.o
	objcopy --redefine-syms=$(SRC)/winsim/sock.map $@.raw $@
-include $(wildcard $(BUILD)/wsim/*.d)
WSIM_PROPS := C01win C02win C03win C04w2 C05win C06win C09win C10win C11win C17win
define WSIM_RULES
$(BUILD)/props/$(1).o: $(SRC)/props/Wsim.cpp $(wildcard $(SRC)/common/*.hpp) $(wildcard $(SRC)/winsim/*.h) $(wildcard $(SRC)/props/*.hpp)
	@mkdir -p $$(dir $$@)
	$(CXX) $(HCXXFLAGS) -I$(SRC)/winsim -DWPROP_$(1) -DWPROP_ID='"$(shell echo $(1) | cut -c1-3)"' -MMD -MP -c $$< -o $$@
$(BUILD)/props/$(1): $(BUILD)/props/$(1).o $(FWBUILD)/fw_main.o $(BUILD)/wsim/wsimlib.o
	$(CXX) $(SAN) -o $$@ $$^ -lrapidcheck -lpthread
endef
$(foreach p,$(WSIM_PROPS),$(eval $(call WSIM_RULES,$(p))))

# C20: ThreadSanitizer build, real libc through the thread-safe shim
$(BUILD)/props/C20.o: $(SRC)/props/C20.cpp $(wildcard $(SRC)/common/*.hpp)
	@mkdir -p $(dir $@)
	$(CXX) -std=gnu++17 -g -O1 -fsanitize=thread -I$(SRC) -I$(VERIF_REPO)/reproc/include -I$(VERIF_REPO)/reproc++/include -MMD -MP -c $< -o $@
$(FWBUILD)/vsys_mt.o: $(SRC)/vsys/vsys_mt.c
	@mkdir -p $(dir $@)
	$(CC) -g -O1 -fsanitize=thread -I$(SRC) -c $< -o $@
$(BUILD)/h/harness_tsan.o: $(SRC)/common/harness.cpp $(wildcard $(SRC)/common/*.hpp) $(SRC)/common/proto.h
	@mkdir -p $(dir $@)
	$(CXX) -std=gnu++17 -g -O1 -fsanitize=thread -I$(SRC) -I$(VERIF_REPO)/reproc/include -c $< -o $@
$(BUILD)/props/C20: $(BUILD)/props/C20.o $(FWBUILD)/fw_main_tsan.o $(FWBUILD)/vsys_mt.o $(BUILD)/h/harness_tsan.o $(BUILD)/lib-tsan/libreproc.o | $(FWBUILD)/puppet
	$(CXX) -fsanitize=thread -o $@ $^ -lrapidcheck -lpthread

prop-%: $(BUILD)/props/%
	@true

ALL_PROPS := $(patsubst $(SRC)/props/%.cpp,%,$(wildcard $(SRC)/props/C??.cpp)) $(WSIM_PROPS) C04win C04.rel C05.rel C06.rel C12.rel
all: $(addprefix $(BUILD)/props/,$(ALL_PROPS)) $(FWBUILD)/puppet $(BUILD)/fuzz/C18_fuzz

clean:
	rm -rf $(BUILD) $(FWBUILD)
