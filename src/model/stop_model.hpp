// Reference interpreter of the documented stop contract (reproc.h, reproc_stop
// and the statement of C07), over the same child script the virtual-time engine
// executes. Written from the documentation, not from reproc.c.
#pragma once

#include <cstdint>
#include <string>
#include <vector>

namespace model {

const int64_t T_INF = INT64_MAX;

enum { STOP_NOOP = 0, STOP_WAIT = 1, STOP_TERMINATE = 2, STOP_KILL = 3 };
enum { TO_INFINITE = -1, TO_DEADLINE = -2 };

struct StopAction {
  int action;
  int timeout;
};

struct ChildScript {
  int term_mode = 0;          // 0 dies at once, 1 ignores, 2 dies `term_delay` ms after the first SIGTERM
  int64_t term_delay = 0;
  int64_t self_exit_at = T_INF;  // absolute virtual time of a voluntary exit
  int exit_code = 0;
  // state carried in: the child may already be dead (and how)
  bool dead = false;
  int64_t died_at = 0;
  int status = -1;
};

struct ExpectedSignal {
  int sig;
  int64_t at;
};

struct StopExpect {
  enum Kind { STATUS, TIMEDOUT, EINVAL_, HANG, WAIT_ERROR, INAPPLICABLE } kind = STATUS;
  int error = 0;                    // WAIT_ERROR: the error the failing wait returned
  std::vector<int> statuses;        // acceptable statuses (two at a tie)
  std::vector<ExpectedSignal> signals;
  int64_t end = 0;                  // virtual time at which stop returns (for HANG: when the unbounded wait starts)
  bool reaps = false;               // the child must have been reaped by the call
  std::string trace;                // human readable derivation
};

// `deadline_abs`: absolute virtual deadline of the process, T_INF if none.
// `already_reaped`: a status has been returned before (cached).
// `child_first`: how an exact tie between the child's death and the end of a
// wait window is resolved (both resolutions are acceptable behaviour).
// `fail_wait` >= 0: the wait of the fail_wait-th executed step fails with
// `fail_error` (an interrupted poll, say): the request ends there with that
// error ("the error of a failed action otherwise") - nothing further is sent.
// `fail_at` < 0: the wait fails as it begins. `fail_at` >= 0: it fails at that
// absolute time, which must lie within the wait (begin <= fail_at <= its end);
// when it does not, the result has kind INAPPLICABLE (the caller is trying out
// which wait an observed interruption belongs to).
inline StopExpect interpret_stop(const StopAction in[3], ChildScript c, int64_t t, int64_t deadline_abs, bool already_reaped, int cached_status, bool child_first = true, int fail_wait = -1, int fail_error = 0, int64_t fail_at = -1)
{
  StopExpect e;
  if (already_reaped) {
    // Nothing is sent and nothing is waited for; the first executed step
    // decides: an out-of-range action is still an invalid request.
    e.end = t;
    for (int i = 0; i < 3; i++) {
      if (in[i].action == STOP_NOOP) continue;
      if (in[i].action < 0 || in[i].action > 3) {
        e.kind = StopExpect::EINVAL_;
        e.trace = "status cached, but the first executed action is out of range => EINVAL";
        return e;
      }
      break;
    }
    e.kind = StopExpect::STATUS;
    e.statuses = { cached_status };
    e.trace = "status cached";
    return e;
  }
  StopAction a[3] = { in[0], in[1], in[2] };
  if (a[0].action == STOP_NOOP && a[1].action == STOP_NOOP && a[2].action == STOP_NOOP) {
    a[0] = { STOP_WAIT, TO_DEADLINE };
    a[1] = { STOP_TERMINATE, TO_INFINITE };
    e.trace += "all-noop => wait(deadline), terminate(infinite); ";
  }
  // death of the child: earliest of the voluntary exit and what signals cause
  int64_t death = c.dead ? c.died_at : c.self_exit_at;
  int death_status = c.dead ? c.status : c.exit_code;
  int alt_status = -1;  // second acceptable status at an exact tie
  bool term_seen = false;
  int waits_done = 0;
  bool timed_out = false;
  bool executed_any = false;
  for (int i = 0; i < 3; i++) {
    if (a[i].action == STOP_NOOP) continue;
    if (a[i].action < 0 || a[i].action > 3) {
      e.kind = StopExpect::EINVAL_;
      e.end = t;
      e.trace += "step " + std::to_string(i) + ": out-of-range action => EINVAL; ";
      return e;
    }
    executed_any = true;
    bool alive_now = death > t;
    if (a[i].action == STOP_TERMINATE) {
      e.signals.push_back({ 15, t });
      if (alive_now) {
        if (c.term_mode == 0) {
          if (death == t) alt_status = death_status;
          death = t;
          death_status = 128 + 15;
        } else if (c.term_mode == 2 && !term_seen) {
          int64_t d = t + c.term_delay;
          if (d < death) {
            death = d;
            death_status = 128 + 15;
          } else if (d == death) {
            alt_status = 128 + 15;
          }
        }
        term_seen = true;
      }
      e.trace += "step " + std::to_string(i) + ": SIGTERM at " + std::to_string(t) + "; ";
    } else if (a[i].action == STOP_KILL) {
      e.signals.push_back({ 9, t });
      if (alive_now) {
        death = t;
        death_status = 128 + 9;
      }
      e.trace += "step " + std::to_string(i) + ": SIGKILL at " + std::to_string(t) + "; ";
    }
    // wait up to the action's timeout
    int64_t window;
    if (a[i].timeout == TO_INFINITE) window = T_INF;
    else if (a[i].timeout == TO_DEADLINE) window = deadline_abs == T_INF ? T_INF : (deadline_abs > t ? deadline_abs - t : 0);
    else window = a[i].timeout;
    int64_t until = window == T_INF ? T_INF : t + window;
    if (fail_wait >= 0 && waits_done++ == fail_wait) {
      int64_t wait_end = death != T_INF && death < until ? (death > t ? death : t) : until;
      if (fail_at >= 0 && (fail_at < t || fail_at > wait_end)) {
        e.kind = StopExpect::INAPPLICABLE;
        return e;
      }
      e.kind = StopExpect::WAIT_ERROR;
      e.error = fail_error;
      e.end = fail_at >= 0 ? fail_at : t;
      e.trace += "step " + std::to_string(i) + ": the wait (begun at " + std::to_string(t) + ") fails with " + std::to_string(fail_error) + " at " + std::to_string(e.end) + " => that error; ";
      return e;
    }
    if ((child_first ? death <= until : (death < until || death <= t)) && death != T_INF) {
      if (death > t) t = death;
      e.kind = StopExpect::STATUS;
      e.statuses = { death_status };
      if (alt_status >= 0 && alt_status != death_status) e.statuses.push_back(alt_status);
      e.end = t;
      e.reaps = true;
      e.trace += "child dead at " + std::to_string(death) + " within the wait => status; ";
      return e;
    }
    if (until == T_INF) {
      e.kind = StopExpect::HANG;
      e.end = t;
      e.trace += "unbounded wait for a child that never ends => blocks for ever; ";
      return e;
    }
    t = until;
    timed_out = true;
    e.trace += "step " + std::to_string(i) + ": wait timed out at " + std::to_string(t) + "; ";
  }
  (void) executed_any;
  (void) timed_out;
  e.kind = StopExpect::TIMEDOUT;
  e.end = t;
  return e;
}

}  // namespace model
