// Independent transcription of the option rules documented in reproc.h
// (struct reproc_redirect, reproc_options.redirect.{parent,discard,file,path},
// input, fork) as a decision function. Written from the header text and the
// statement of property C13, not from options.c.
#pragma once

#include <string>

namespace model {

enum Type {
  T_DEFAULT = 0,
  T_PIPE = 1,
  T_PARENT = 2,
  T_DISCARD = 3,
  T_STDOUT = 4,
  T_HANDLE = 5,
  T_FILE = 6,
  T_PATH = 7,
};

struct StreamOpt {
  int type = 0;  // may be out of range
  bool handle = false, file = false, path = false;
  bool is_set() const { return type != 0 || handle || file || path; }
};

struct Opt {
  StreamOpt in, out, err;
  bool parent = false, discard = false, sfile = false, spath = false;
  // input: 0 none, 1 data+size>0, 2 data+size 0, 3 NULL data with size>0
  int input = 0;
  // fork/argv: 0 (fork=0, valid argv), 1 (fork=0, argv NULL), 2 (fork=0, argv={NULL}),
  //            3 (fork=1, argv NULL), 4 (fork=1, valid argv), 5 (fork=1, argv={NULL})
  int forkargv = 0;
};

enum Verdict { VALID, INVALID, UNSPECIFIED };

struct Spec {
  Verdict verdict = VALID;
  std::string why;   // the rule that rejects
  int eff[3] = { 0, 0, 0 };  // effective Type per stream when VALID
  int rules_touched = 0;      // how many independent rules were involved (non-triviality)
};

inline bool in_range(int t) { return t >= 0 && t <= 7; }

// One stream. `stream`: 0 in, 1 out, 2 err.
inline void resolve_stream(const StreamOpt &s, int stream, const Opt &o, Spec &sp)
{
  auto invalid = [&](const char *why) {
    if (sp.verdict != INVALID) {
      sp.verdict = INVALID;
      sp.why = why;
    }
  };
  int nset = (int) s.handle + (int) s.file + (int) s.path;
  if (nset) sp.rules_touched++;
  if (s.type != 0) sp.rules_touched++;
  if (!in_range(s.type)) {
    // the header does not say what an out-of-range type means
    if (sp.verdict == VALID) {
      sp.verdict = UNSPECIFIED;
      sp.why = "redirect type outside the enumeration";
    }
    return;
  }
  if (nset >= 2) {
    invalid("a stream is given two different targets (handle/file/path)");
    return;
  }
  switch (s.type) {
    case T_DEFAULT:
      if (s.handle) sp.eff[stream] = T_HANDLE;
      else if (s.file) sp.eff[stream] = T_FILE;
      else if (s.path) sp.eff[stream] = T_PATH;
      else {
        // nothing set for this stream: shorthands, then defaults
        if (stream != 0 && o.sfile) sp.eff[stream] = T_FILE;
        else if (stream != 0 && o.spath) sp.eff[stream] = T_PATH;
        else if (o.parent) sp.eff[stream] = T_PARENT;
        else if (o.discard) sp.eff[stream] = T_DISCARD;
        else sp.eff[stream] = stream == 2 ? T_PARENT : T_PIPE;
      }
      break;
    case T_HANDLE:
      if (!s.handle) invalid("type HANDLE without a handle");
      sp.eff[stream] = T_HANDLE;
      break;
    case T_FILE:
      if (!s.file) invalid("type FILE without a file");
      sp.eff[stream] = T_FILE;
      break;
    case T_PATH:
      if (!s.path) invalid("type PATH without a path");
      sp.eff[stream] = T_PATH;
      break;
    case T_STDOUT:
      if (stream != 2) invalid("redirect-to-stdout used for a stream other than stderr");
      if (nset) invalid("handle/file/path set although type is neither unset nor the matching type");
      sp.eff[stream] = T_STDOUT;
      break;
    default:  // PIPE, PARENT, DISCARD
      if (nset) invalid("handle/file/path set although type is neither unset nor the matching type");
      sp.eff[stream] = s.type;
      break;
  }
}

inline Spec spec(const Opt &o)
{
  Spec sp;
  auto invalid = [&](const char *why) {
    if (sp.verdict != INVALID) {
      sp.verdict = INVALID;
      sp.why = why;
    }
  };
  resolve_stream(o.in, 0, o, sp);
  resolve_stream(o.out, 1, o, sp);
  resolve_stream(o.err, 2, o, sp);

  int shorthands = (int) o.parent + (int) o.discard + (int) o.sfile + (int) o.spath;
  sp.rules_touched += shorthands;
  // "When this option is set, discard, file and path must be unset" and the
  // symmetric statements: at most one of the four. The property speaks of a
  // shorthand conflicting "with another shorthand it would compete with":
  // parent and discard compete for every stream that is left unset; when all
  // three streams are set explicitly neither has any effect and the two
  // readings (header: reject; property: nothing competes) differ, so that cell
  // is left unspecified.
  if (shorthands >= 2) {
    bool some_unset = !o.in.is_set() || !o.out.is_set() || !o.err.is_set();
    if (o.sfile || o.spath || some_unset) invalid("two shorthands that compete (parent/discard/file/path)");
    else if (sp.verdict == VALID) {
      sp.verdict = UNSPECIFIED;
      sp.why = "parent and discard both set while every stream is set explicitly";
    }
  }
  // "If this option is set, out, err, ... must be unset."
  if ((o.sfile || o.spath) && (o.out.is_set() || o.err.is_set()))
    invalid("file/path shorthand combined with explicit out/err settings");

  if (o.input) sp.rules_touched++;
  if (o.forkargv) sp.rules_touched++;
  // input rules ("If redirect.in is set, this option may not be set"; a size
  // needs data)
  if ((o.input == 1 || o.input == 2) && sp.verdict == VALID && sp.eff[0] != T_PIPE)
    invalid("start-up input combined with a non-pipe stdin");
  // "If redirect.in is set, this option may not be set": an explicit PIPE for
  // stdin together with input is rejected by the header's wording and allowed
  // by the property's ("non-pipe stdin"): unspecified.
  if ((o.input == 1 || o.input == 2) && sp.verdict == VALID && o.in.is_set()) {
    sp.verdict = UNSPECIFIED;
    sp.why = "start-up input with an explicitly set pipe for stdin";
  }
  if (o.input == 3) invalid("input size without data");
  // fork / argv
  if (o.forkargv == 1 || o.forkargv == 2) invalid("no fork mode and no program");
  if (o.forkargv == 4 || o.forkargv == 5) invalid("fork mode with an argv");
  return sp;
}

inline const char *type_name(int t)
{
  static const char *n[] = { "default", "pipe", "parent", "discard", "stdout", "handle", "file", "path" };
  return in_range(t) ? n[t] : "out-of-range";
}

}  // namespace model
