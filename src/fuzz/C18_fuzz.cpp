// libFuzzer target for C18: bytes -> (argv, extra env, parent block) -> real
// process_start on the Win32 stub -> round-trip oracle (C18_oracle.hpp).
#include <fuzzer/FuzzedDataProvider.h>

#include <cstdio>
#include <cstdlib>

#include "C18_oracle.hpp"

static std::string take_string(FuzzedDataProvider &fdp, size_t max)
{
  // structure-aware: bias towards the characters the encoder treats specially
  size_t n = fdp.ConsumeIntegralInRange<size_t>(0, max);
  std::string s;
  static const char special[] = { ' ', '\t', '\n', '\v', '"', '\\', 'a', 'b' };
  for (size_t i = 0; i < n && fdp.remaining_bytes() > 0; i++) {
    uint8_t b = fdp.ConsumeIntegral<uint8_t>();
    if (b < 200) s += special[b % sizeof(special)];
    else if (b < 250) s += (char) ('c' + b % 20);
    else s += (char) fdp.ConsumeIntegralInRange<int>(1, 255);
  }
  return s;
}

extern "C" int LLVMFuzzerTestOneInput(const uint8_t *data, size_t size)
{
  FuzzedDataProvider fdp(data, size);
  c18::Input in;
  in.argv.push_back("prog.exe");
  size_t nargs = fdp.ConsumeIntegralInRange<size_t>(0, 6);
  for (size_t i = 0; i < nargs; i++) in.argv.push_back(take_string(fdp, 24));
  in.extend = fdp.ConsumeBool();
  in.extra_null = fdp.ConsumeBool();
  size_t ne = fdp.ConsumeIntegralInRange<size_t>(0, 4);
  for (size_t i = 0; i < ne; i++) {
    std::string v = take_string(fdp, 12);
    for (auto &c : v) if (c == '\0') c = 'z';
    in.extra.push_back("E" + std::to_string(i) + "=" + v);
  }
  size_t np = fdp.ConsumeIntegralInRange<size_t>(0, 4);
  for (size_t i = 0; i < np; i++) {
    std::string v = take_string(fdp, 12);
    if (!c18::valid_utf8(v)) v = "x";
    in.parent.push_back("P" + std::to_string(i) + "=" + v);
  }
  c18::Outcome o = c18::check(in);
  if (!o.ok) {
    fprintf(stderr, "C18 ORACLE FAILURE sig=%s\n%s\n", o.sig.c_str(), o.msg.c_str());
    for (auto &a : in.argv) fprintf(stderr, "  arg: [%s]\n", a.c_str());
    fflush(stderr);
    __builtin_trap();
  }
  return 0;
}
