// C17 — nonblocking mode never blocks; blocking calls wait only for the child.
// Engine V. The blocking-episode log of the virtual-time scheduler is the
// oracle: with the nonblocking option no read/write may produce an episode and
// the result must match the real pipe state (would-block exactly when
// empty-and-open / full-and-open); start-up input never makes start block;
// without the option a read's episode ends exactly at the child's next
// write/close on that stream and a write's exactly when the child's reads have
// made room - and never by itself (HANG iff the script never provides).
#include "common/fw.hpp"
#include "common/harness.hpp"
#include "common/ledger.hpp"
#include "common/vtime.hpp"

#include <algorithm>

using namespace fw;

namespace {

const uint64_t kCap = 65536;  // default pipe capacity (checked at run time)

struct Case {
  int scenario = 0;        // 0 read, 1 write, 2 start-up input
  bool nonblocking = false;
  int stream = 1;          // read: 1 stdout, 2 stderr
  // read
  uint64_t pending = 0;    // bytes already in the pipe
  int far = 0;             // 0 open, 1 child closed the stream, 2 child exited
  int later = 0;           // 0 nothing, 1 write, 2 close, 3 exit
  int64_t later_after = 0;
  uint64_t later_bytes = 0;
  uint64_t size = 1;       // read/write size
  // write
  uint64_t prefill = 0;    // multiple of 4096
  int reader = 0;          // 0 idle for ever, 1 reads in steps, 2 closes stdin later, 3 already gone
  std::vector<std::pair<int64_t, uint64_t>> reads;  // (after, bytes)
  // input
  uint64_t input_size = 0;
  uint64_t pipe_cap = 0;        // start-up input: capacity the pipes are shrunk to (0: the default 65536)
  int input_reader = 0;    // 0 reads at once, 1 reads late, 2 never reads
};

Case decode(Tape &t)
{
  Case c;
  c.scenario = (int) t.weighted({ 4, 4, 3 });
  c.nonblocking = t.coin();
  c.stream = 1 + (int) t.pick(2);
  static const uint64_t pend[] = { 0, 0, 1, 100, 4096, 65536 };
  c.pending = pend[t.pick(6)];
  c.far = (int) t.weighted({ 6, 2, 2 });
  c.later = (int) t.weighted({ 3, 4, 2, 2 });
  c.later_after = (int64_t) t.range(1, 100000);
  c.later_bytes = (uint64_t) t.range(1, 5000);
  static const uint64_t sizes[] = { 1, 100, 4096, 65536, 1 << 20 };
  c.size = sizes[t.pick(5)];
  if (c.scenario == 1) {
    static const uint64_t pre[] = { 0, 4096, 32768, 61440, 65536 };
    c.prefill = pre[t.weighted({ 2, 1, 2, 2, 4 })];
    static const uint64_t ws[] = { 4096, 8192, 65536, 131072, 1 << 20 };
    c.size = ws[t.pick(5)];
    if (t.chance(1, 6)) c.size = 1;
    c.reader = (int) t.weighted({ 3, 5, 2, 2 });
    size_t nr = (size_t) t.range(1, 8);
    int64_t at = 0;
    for (size_t i = 0; i < nr; i++) {
      at += (int64_t) t.range(1, 20000);
      static const uint64_t rs[] = { 4096, 8192, 16384, 65536, 262144 };
      c.reads.push_back({ at, rs[t.pick(5)] });
    }
  }
  if (c.scenario == 2) {
    static const uint64_t ins[] = { 0, 1, 4096, 65535, 65536, 65537, 1 << 20 };
    c.input_size = ins[t.pick(7)];
    // a machine that hands out small pipes: the same boundary, elsewhere
    if (t.chance(1, 3)) {
      c.pipe_cap = t.coin() ? 4096 : 8192;
      static const int64_t off[] = { -4096, -1, 0, 1, 4096, 20000 };
      int64_t v = (int64_t) c.pipe_cap + off[t.pick(6)];
      c.input_size = (uint64_t) (v < 0 ? 0 : v);
    }
    c.input_reader = (int) t.pick(3);
  }
  return c;
}

// flags (F_GETFL result recorded by the shim) of the read/write calls made
// since trace position `from`
bool all_nonblocking(uint32_t from, int fn)
{
  for (uint32_t i = from; i < vs_sh->nrec && i < VS_MAXREC; i++) {
    const vs_rec &r = vs_sh->rec[i];
    if (r.side == VS_PARENT && r.fn == fn && !(r.a2 & O_NONBLOCK)) return false;
  }
  return true;
}

// The child is gone and its status has been returned, but a descendant still
// holds the stream: a blocking read goes on waiting for that descendant (data or
// end-of-file), a non-blocking one reports would-block - exactly as before the
// status was returned.
CaseResult run_descendant_holds_stream(Tape &t)
{
  CaseResult res;
  vs_init();
  vs_reset();
  vt::World w;
  w.install();
  bool nonblocking = t.chance(1, 3);
  int stream = t.coin() ? 1 : 2;
  bool via_stop = t.coin();
  int64_t exit_after = (int64_t) t.range(0, 3000), write_after = (int64_t) t.range(1, 60000);
  int code = (int) t.pick(256);
  reproc_options opt;
  memset(&opt, 0, sizeof(opt));
  opt.redirect.err.type = REPROC_REDIRECT_PIPE;
  opt.nonblocking = nonblocking;
  opt.stop = { { REPROC_STOP_KILL, 5000 }, { REPROC_STOP_NOOP, 0 }, { REPROC_STOP_NOOP, 0 } };
  res.describe = J().kv("scenario", "a descendant of the exited child still holds the stream").kv("nonblocking", nonblocking).kv("stream", stream).kv("status_obtained_by", via_stop ? "stop(wait)" : "wait")
                     .kv("child_exits_after", (long long) exit_after).kv("descendant_writes_after", (long long) write_after).str();
  res.cls(std::string("descendant-holds-stream") + (nonblocking ? ":nonblocking" : ":blocking"));
  res.nontrivial = true;
  res.hash = mix(mix(0xde5c, (uint64_t) nonblocking * 8 + (uint64_t) stream * 2 + via_stop), (uint64_t) exit_after * 100003 + (uint64_t) write_after);
  vt::VChild ch;
  std::string err = vt::start_puppet(w, fw::case_dir() + "/ctl", opt, ch);
  if (!err.empty() || ch.start_result <= 0) {
    w.uninstall();
    res.inconclusive("start: " + err);
    if (ch.p) reproc_destroy(ch.p);
    return res;
  }
  vt::Kid &k = w.kids[(size_t) ch.kid];
  pup_ack ack;
  if (!k.pup->cmd(PUP_HOLDER, (uint32_t) stream, 0, &ack) || ack.status != 0) {
    w.uninstall();
    res.inconclusive("holder: " + k.pup->error());
    reproc_destroy(ch.p);
    return res;
  }
  pid_t holder = (pid_t) ack.v[0];
  std::string fifo = fw::case_dir() + "/ctl/holder";
  // The descendant opens the FIFO for reading only after it has closed every
  // other descriptor (the library's exit handle among them): once the write side
  // can be opened, it is in place.
  int hold_fd = -1;
  for (int i = 0; hold_fd < 0 && i < 20000; i++) {
    hold_fd = open(fifo.c_str(), O_WRONLY | O_NONBLOCK);
    if (hold_fd < 0) usleep(500);
  }
  if (hold_fd < 0) {
    w.uninstall();
    res.inconclusive("the descendant did not get ready");
    kill(holder, SIGKILL);
    reproc_destroy(ch.p);
    return res;
  }
  auto tell_holder = [&](char what) {
    if (hold_fd < 0) return;
    (void) !write(hold_fd, &what, 1);
    close(hold_fd);
    hold_fd = -1;
    // it acts and exits: wait (real time) until it is gone
    for (int i = 0; i < 20000; i++) {
      int stt = hz::proc_state(holder);
      if (stt == 0 || stt == 'Z' || stt == 'X') break;
      usleep(500);
    }
  };
  int64_t t0 = ch.t_start;
  w.schedule(t0 + exit_after, ch.kid, vt::A_EXIT, (uint32_t) code);
  w.call_begins(exit_after + 100000);
  reproc_stop_actions sa = { { REPROC_STOP_WAIT, REPROC_INFINITE }, { REPROC_STOP_NOOP, 0 }, { REPROC_STOP_NOOP, 0 } };
  int st = via_stop ? reproc_stop(ch.p, sa) : reproc_wait(ch.p, REPROC_INFINITE);
  auto fail = [&](const std::string &sig, const std::string &m) { res.fail(sig, m); };
  if (st != code) fail("wrong-status", "the child exited with " + std::to_string(code) + " but " + (via_stop ? "stop" : "wait") + " returned " + std::to_string(st));
  REPROC_STREAM rs = stream == 1 ? REPROC_STREAM_OUT : REPROC_STREAM_ERR;
  uint8_t buf[64];
  if (res.kind == CaseResult::PASS) {
    int64_t write_at = w.now + write_after;
    bool told = false;
    w.schedule_call(write_at, [&] {
      told = true;
      tell_holder('w');
    });
    int64_t entry = w.now;
    w.call_begins(write_after + 100000);
    int r = reproc_read(ch.p, rs, buf, sizeof(buf));
    if (nonblocking) {
      if (r != REPROC_EWOULDBLOCK || w.now != entry) fail("nonblocking-read-waited", "nothing to read and a descendant still holds the stream: a non-blocking read returned " + std::to_string(r) + " after " + std::to_string(w.now - entry) + " ms");
      // now let the descendant write, then the data must be there
      w.advance_to(write_at);
      r = reproc_read(ch.p, rs, buf, sizeof(buf));
      if (res.kind == CaseResult::PASS && (r != 5 || memcmp(buf, "late\n", 5) != 0)) fail("descendant-data-lost", "the descendant wrote 5 bytes to the stream; the read returned " + std::to_string(r));
    } else {
      if (r == REPROC_EWOULDBLOCK) fail("blocking-read-would-block", "a blocking read, issued after the status of the child had been returned and while a descendant still held the stream, returned the would-block error instead of waiting");
      else if (!told || w.now != write_at) fail("blocking-read-returned-by-itself", "a blocking read with nothing to read returned " + std::to_string(r) + " at +" + std::to_string(w.now - entry) + " ms; the descendant writes at +" + std::to_string(write_after));
      else if (r != 5 || memcmp(buf, "late\n", 5) != 0) fail("descendant-data-lost", "the descendant wrote 5 bytes to the stream; the blocking read returned " + std::to_string(r));
    }
    if (!told) tell_holder('x');
    // the descendant is gone now: end-of-stream
    if (res.kind == CaseResult::PASS) {
      int e = reproc_read(ch.p, rs, buf, sizeof(buf));
      if (e != REPROC_EPIPE) fail("no-eof-after-descendant", "every holder of the stream has exited; the read returned " + std::to_string(e) + " instead of the closed-stream error");
    }
  } else {
    tell_holder('x');
  }
  if (w.hang && res.kind == CaseResult::PASS) fail("blocked-forever", "a call blocked without bound (" + w.hang_what + ")");
  if (!w.trouble.empty()) {
    res.kind = CaseResult::INCONCLUSIVE;
    res.msg = "harness: " + w.trouble;
  }
  w.uninstall();
  if (hz::proc_state(holder) != 0 && hz::proc_state(holder) != 'Z') kill(holder, SIGKILL);
  reproc_destroy(ch.p);
  std::string lsig, lp = hz::ledger_problems(ch.fds_before, lsig);
  if (!lp.empty() && res.kind == CaseResult::PASS) res.fail(lsig, "after destroy: " + lp);
  return res;
}

CaseResult run_case(Tape &t, long)
{
  if (t.chance(1, 12)) return run_descendant_holds_stream(t);
  CaseResult res;
  Case c = decode(t);
  vs_init();
  vs_reset();
  vt::World w;
  w.install();
  static const char *sc[] = { "read", "write", "startup-input" };
  res.describe = J().kv("scenario", sc[c.scenario])
                     .kv("nonblocking", c.nonblocking)
                     .kv("stream", c.stream)
                     .kv("pending", (unsigned long long) c.pending)
                     .kv("far_side", c.far == 0 ? "open" : c.far == 1 ? "closed-by-child" : "child-exited")
                     .kv("later_event", c.later)
                     .kv("later_after", (long long) c.later_after)
                     .kv("size", (unsigned long long) c.size)
                     .kv("prefill", (unsigned long long) c.prefill)
                     .kv("reader", c.reader)
                     .kv("child_reads", (unsigned long) c.reads.size())
                     .kv("input_size", (unsigned long long) c.input_size)
                     .kv("pipe_capacity", (unsigned long long) (c.pipe_cap ? c.pipe_cap : kCap))
                     .kv("input_reader", c.input_reader)
                     .str();
  res.hash = mix(mix((uint64_t) c.scenario | (uint64_t) c.nonblocking << 2 | (uint64_t) c.stream << 3 | (uint64_t) c.far << 5 | (uint64_t) c.later << 7 | (uint64_t) c.reader << 9 | (uint64_t) c.input_reader << 11,
                     c.pending ^ c.size << 20 ^ c.prefill << 40),
                 (uint64_t) c.later_after ^ c.input_size << 24 ^ (uint64_t) c.reads.size() << 48);
  res.cls(std::string(sc[c.scenario]) + (c.nonblocking ? ":nonblocking" : ":blocking"));

  reproc_options opt;
  memset(&opt, 0, sizeof(opt));
  opt.redirect.err.type = REPROC_REDIRECT_PIPE;
  opt.nonblocking = c.nonblocking;
  // read scenarios: in a third of them an EARLIER stream is not a pipe (stdin discarded; when stderr is read, stdout
  // discarded too) - the mode of the stream that is read must not depend on its neighbours
  bool earlier_not_piped = c.scenario == 0 && (c.pending + (uint64_t) c.later_after + (uint64_t) c.stream) % 3 == 0;
  if (earlier_not_piped) {
    opt.redirect.in.type = REPROC_REDIRECT_DISCARD;
    if (c.stream == 2) opt.redirect.out.type = REPROC_REDIRECT_DISCARD;
    res.cls("earlier-stream-not-piped");
  }
  opt.stop = { { REPROC_STOP_KILL, 5000 }, { REPROC_STOP_NOOP, 0 }, { REPROC_STOP_NOOP, 0 } };
  std::vector<uint8_t> input;
  if (c.scenario == 2) {
    input.resize(c.input_size + 1);
    for (uint64_t i = 0; i < c.input_size; i++) input[i] = pup_pattern(0, i);
    opt.input.data = input.data();
    opt.input.size = c.input_size;
  }
  vt::VChild ch;
  size_t ep_start0 = w.episodes.size();
  uint64_t cap = kCap;
  if (c.scenario == 2 && c.pipe_cap) {
    vs_pipe_capacity((int) c.pipe_cap);
    cap = c.pipe_cap;
  }
  std::string err = vt::start_puppet(w, fw::case_dir() + "/ctl", opt, ch);
  vs_pipe_capacity(0);
  auto teardown = [&]() {
    w.uninstall();
    for (auto &kk : w.kids)
      if (kk.alive) {
        kill(kk.pid, SIGKILL);
        hz::wait_dead(kk.pid, 5000);
      }
    if (ch.p) reproc_destroy(ch.p);
  };

  // ---- start-up input -----------------------------------------------------
  if (c.scenario == 2) {
    bool blocked = w.start_blocked;
    for (size_t i = ep_start0; i < w.episodes.size(); i++) blocked = blocked || w.episodes[i].in_start;
    res.nontrivial = c.input_size >= cap;
    if (c.input_size >= cap) res.cls("input-at-or-above-capacity");
    if (c.pipe_cap) res.cls("small-pipes");
    if (blocked) res.fail("start-blocked-on-input", "reproc_start had to wait while writing " + std::to_string(c.input_size) + " bytes of start-up input (nothing can read them before the child exists)");
    else if (ch.start_result > 0 && err.empty()) {
      res.cls("input-delivered");
      vt::Kid &k = w.kids[(size_t) ch.kid];
      if (c.input_reader == 1) w.advance_to(w.now + 5000);
      if (c.input_reader != 2) {
        for (int i = 0; i < 40 && !k.in_eof; i++) w.perform({ ch.kid, vt::A_READ, 0, 1 << 20 });
        if (k.in_read != c.input_size || !k.in_eof || k.in_mismatch != UINT64_MAX)
          res.fail("input-not-delivered", "start succeeded with " + std::to_string(c.input_size) + " bytes of start-up input, but the child read " + std::to_string(k.in_read) + " byte(s), eof=" + std::to_string(k.in_eof) + (k.in_mismatch != UINT64_MAX ? ", content differs at offset " + std::to_string(k.in_mismatch) : ""));
      }
      uint8_t x = 1;
      int wr = reproc_write(ch.p, &x, 1);
      if (wr != REPROC_EPIPE && res.kind == CaseResult::PASS) res.fail("stdin-open-after-input", "after start-up input stdin must be closed in the parent; a write returned " + std::to_string(wr));
      // start-up input must not change how the output streams behave: an empty,
      // open stdout/stderr blocks (until the child writes) without the
      // nonblocking option and reports would-block with it
      if (res.kind == CaseResult::PASS && k.alive) {
        uint32_t s = (uint32_t) c.stream;
        int64_t t0 = w.now, at = t0 + c.later_after;
        w.schedule(at, ch.kid, vt::A_WRITE, s, 9);
        std::vector<uint8_t> rb(64);
        size_t ep0 = w.episodes.size();
        int rr = reproc_read(ch.p, s == 1 ? REPROC_STREAM_OUT : REPROC_STREAM_ERR, rb.data(), rb.size());
        if (c.nonblocking) {
          if (rr != REPROC_EWOULDBLOCK || w.now != t0) res.fail("read-result", "nonblocking read on an empty open stream after start-up input returned " + std::to_string(rr) + " after " + std::to_string(w.now - t0) + " ms");
        } else if (rr == REPROC_EWOULDBLOCK) {
          res.fail("would-block-in-blocking-mode", "without the nonblocking option a read on an empty open stream (after start-up input) returned the would-block error instead of waiting for the child");
        } else if (w.now != at || w.episodes.size() == ep0 || rr < 1 || rr > 9) {
          res.fail("blocking-read-duration", "blocking read after start-up input returned " + std::to_string(rr) + " at +" + std::to_string(w.now - t0) + " ms; the child writes at +" + std::to_string(at - t0) + " ms");
        }
      }
    } else if (ch.start_result < 0) {
      res.cls("input-start-failed");
      // all or nothing: no child left behind, handle not started
      if (vs_live_children(nullptr, 0) != 0) res.fail("input-failed-start-left-child", "start failed on start-up input (" + std::to_string(ch.start_result) + ") but left a child behind");
      if (c.input_size < cap) res.fail("input-small-failed", "start-up input of " + std::to_string(c.input_size) + " bytes (below the pipe capacity of " + std::to_string(cap) + ") made start fail with " + std::to_string(ch.start_result));
    } else {
      res.inconclusive("start: " + err);
    }
    if (!w.trouble.empty()) {
      res.kind = CaseResult::INCONCLUSIVE;
      res.msg = "harness: " + w.trouble;
    }
    teardown();
    return res;
  }
  if (!err.empty() || ch.start_result <= 0) {
    res.inconclusive("start: " + err + " r=" + std::to_string(ch.start_result));
    teardown();
    return res;
  }
  vt::Kid &k = w.kids[(size_t) ch.kid];
  int kid = ch.kid;

  if (c.scenario == 0) {
    // ---- read -----------------------------------------------------------------
    uint32_t s = (uint32_t) c.stream;
    if (c.pending) w.perform({ kid, vt::A_WRITE, s, c.pending });
    uint64_t pending = k.written[s];
    bool far_closed = false;
    if (c.far == 1) {
      w.perform({ kid, vt::A_CLOSE, s, 0 });
      far_closed = true;
    } else if (c.far == 2) {
      w.perform({ kid, vt::A_EXIT, 0, 0 });
      far_closed = true;
    }
    int64_t t0 = w.now;
    int64_t ev_at = -1;
    if (!far_closed && c.later) {
      ev_at = t0 + c.later_after;
      if (c.later == 1) w.schedule(ev_at, kid, vt::A_WRITE, s, c.later_bytes);
      else if (c.later == 2) w.schedule(ev_at, kid, vt::A_CLOSE, s);
      else w.schedule(ev_at, kid, vt::A_EXIT, 0);
    }
    std::vector<uint8_t> buf(c.size);
    size_t ep0 = w.episodes.size();

    int r = reproc_read(ch.p, s == 1 ? REPROC_STREAM_OUT : REPROC_STREAM_ERR, buf.data(), buf.size());
    int64_t t1 = w.now;
    bool episode = w.episodes.size() != ep0;
    bool would_have_blocked = pending == 0 && !far_closed;
    res.nontrivial = would_have_blocked;
    if (would_have_blocked) res.cls("pipe-empty-and-open");
    if (far_closed) res.cls("far-side-closed");
    auto fail = [&](const std::string &sig, const std::string &m) { res.fail(sig, std::string(c.nonblocking ? "nonblocking" : "blocking") + " read of " + std::to_string(c.size) + " on " + (s == 1 ? "stdout" : "stderr") + ": " + m); };
    if (c.nonblocking) {
      if (episode || t1 != t0 || w.hang) fail("nonblocking-read-waited", "the call waited for the child (" + std::to_string(t1 - t0) + " ms of virtual time)");
      else if (pending > 0) {
        if (r < 1 || (uint64_t) r > std::min<uint64_t>(pending, c.size)) fail("read-result", "with " + std::to_string(pending) + " byte(s) pending it returned " + std::to_string(r));
      } else if (far_closed) {
        if (r != REPROC_EPIPE) fail("read-result", "far side closed and nothing pending: expected the closed-pipe error, got " + std::to_string(r));
      } else if (r != REPROC_EWOULDBLOCK) {
        fail("read-result", "pipe empty and open: expected the would-block error, got " + std::to_string(r));
      } else {
        // "would block" is not an end: asking again must give the same answer,
        // and data written afterwards must still arrive
        int r2 = reproc_read(ch.p, s == 1 ? REPROC_STREAM_OUT : REPROC_STREAM_ERR, buf.data(), buf.size());
        if (r2 != REPROC_EWOULDBLOCK) fail("would-block-not-repeatable", "a second read on the still empty, still open pipe returned " + std::to_string(r2));
        else if (k.alive) {
          w.perform({ kid, vt::A_WRITE, s, 3 });
          int r3 = reproc_read(ch.p, s == 1 ? REPROC_STREAM_OUT : REPROC_STREAM_ERR, buf.data(), buf.size());
          if (r3 < 1 || r3 > 3) fail("data-after-would-block-lost", "after a would-block result the child wrote 3 bytes; the next read returned " + std::to_string(r3));
        }
      }
    } else {
      if (!would_have_blocked) {
        if (episode || t1 != t0) fail("blocking-read-waited-needlessly", "data or end-of-file was already there, yet the call waited " + std::to_string(t1 - t0) + " ms");
        else if (pending > 0 && (r < 1 || (uint64_t) r > std::min<uint64_t>(pending, c.size))) fail("read-result", "with " + std::to_string(pending) + " byte(s) pending it returned " + std::to_string(r));
        else if (pending == 0 && r != REPROC_EPIPE) fail("read-result", "far side closed and nothing pending: expected the closed-pipe error, got " + std::to_string(r));
      } else if (ev_at < 0) {
        res.cls("blocks-forever-expected");
        if (!w.hang) fail("blocking-read-returned-by-itself", "nothing will ever be written or closed, yet the call returned " + std::to_string(r));
      } else {
        res.cls("waited-for-child");
        if (w.hang) fail("blocking-read-hung", "the child acts at +" + std::to_string(ev_at - t0) + " ms but the read never returned");
        else if (t1 != ev_at) fail("blocking-read-duration", "returned at +" + std::to_string(t1 - t0) + " ms; the child's next write/close on that stream is at +" + std::to_string(ev_at - t0) + " ms");
        else if (c.later == 1 && (r < 1 || (uint64_t) r > std::min<uint64_t>(c.later_bytes, c.size))) fail("read-result", "after the child wrote " + std::to_string(c.later_bytes) + " byte(s) it returned " + std::to_string(r));
        else if (c.later != 1 && r != REPROC_EPIPE) fail("read-result", "after the child closed the stream it returned " + std::to_string(r));
      }
    }
  } else {
    // ---- write -----------------------------------------------------------------
    uint64_t filled = 0;
    std::vector<uint8_t> page(4096);
    uint64_t off = 0;
    bool setup_ok = true;
    // prefill with page-sized writes while nothing can block (below capacity)
    for (uint64_t i = 0; i < c.prefill / 4096 && setup_ok; i++) {
      for (size_t b = 0; b < page.size(); b++) page[b] = pup_pattern(0, off + b);
      int wr = reproc_write(ch.p, page.data(), page.size());
      if (wr != 4096) setup_ok = false;
      else {
        off += 4096;
        filled += 4096;
      }
    }
    if (!setup_ok) {
      res.inconclusive("prefill failed");
      teardown();
      return res;
    }
    bool reader_gone = false;
    if (c.reader == 3) {
      w.perform({ kid, vt::A_CLOSE, 0, 0 });
      reader_gone = true;
    }
    int64_t t0 = w.now;
    uint64_t free_now = kCap - filled;
    // model of the child's reads: time at which cumulative room >= size
    int64_t done_at = -1;
    int64_t close_at = -1;
    uint64_t room = free_now;
    if (!reader_gone) {
      if (c.reader == 1) {
        uint64_t in_pipe = filled, accepted = 0;  // simulate page-granular blocking write
        uint64_t remaining = c.size;
        // what fits right away
        uint64_t fit = std::min(remaining, kCap - in_pipe);
        in_pipe += fit;
        remaining -= fit;
        accepted += fit;
        if (remaining == 0) done_at = t0;
        for (auto &rd : c.reads) {
          int64_t at = t0 + rd.first;
          w.schedule(at, kid, vt::A_READ, 0, rd.second);
          uint64_t take = std::min(rd.second, in_pipe);
          in_pipe -= take;
          if (done_at < 0) {
            uint64_t f2 = std::min(remaining, kCap - in_pipe);
            in_pipe += f2;
            remaining -= f2;
            if (remaining == 0) done_at = at;
          }
        }
        (void) accepted;
        (void) room;
      } else if (c.reader == 2) {
        close_at = t0 + c.reads[0].first;
        w.schedule(close_at, kid, vt::A_CLOSE, 0);
        if (c.size <= free_now) done_at = t0;
      } else {
        if (c.size <= free_now) done_at = t0;
      }
    }
    std::vector<uint8_t> data(c.size);
    for (uint64_t i = 0; i < c.size; i++) data[i] = pup_pattern(0, off + i);
    size_t ep0 = w.episodes.size();

    int r = reproc_write(ch.p, data.data(), data.size());
    int64_t t1 = w.now;
    bool episode = w.episodes.size() != ep0;
    bool full = free_now == 0 && !reader_gone;
    bool would_have_blocked = !reader_gone && c.size > free_now;
    res.nontrivial = would_have_blocked;
    if (full) res.cls("pipe-full-and-open");
    if (reader_gone) res.cls("far-side-closed");
    if (would_have_blocked) res.cls("write-larger-than-room");
    auto fail = [&](const std::string &sig, const std::string &m) { res.fail(sig, std::string(c.nonblocking ? "nonblocking" : "blocking") + " write of " + std::to_string(c.size) + " with " + std::to_string(free_now) + " bytes free: " + m); };
    if (c.nonblocking) {
      if (episode || t1 != t0 || w.hang) fail("nonblocking-write-waited", "the call waited for the child (" + std::to_string(t1 - t0) + " ms of virtual time)");
      else if (reader_gone) {
        if (r != REPROC_EPIPE) fail("write-result", "reader gone: expected the closed-pipe error, got " + std::to_string(r));
      } else if (full) {
        if (r != REPROC_EWOULDBLOCK) fail("write-result", "pipe full and open: expected the would-block error, got " + std::to_string(r));
      } else if (r < 1 || (uint64_t) r > std::min(c.size, free_now)) {
        fail("write-result", "expected a count between 1 and " + std::to_string(std::min(c.size, free_now)) + ", got " + std::to_string(r));
      }
    } else {
      if (reader_gone) {
        if (r != REPROC_EPIPE || episode) fail("write-result", "reader gone: expected the closed-pipe error at once, got " + std::to_string(r));
      } else if (done_at == t0) {
        if (episode || t1 != t0) fail("blocking-write-waited-needlessly", "there was room for everything, yet the call waited " + std::to_string(t1 - t0) + " ms");
        else if (r != (int) c.size) fail("write-result", "expected " + std::to_string(c.size) + ", got " + std::to_string(r));
      } else if (done_at > t0) {
        res.cls("waited-for-child");
        if (w.hang) fail("blocking-write-hung", "the child makes room by +" + std::to_string(done_at - t0) + " ms but the write never returned");
        else if (t1 != done_at) fail("blocking-write-duration", "returned at +" + std::to_string(t1 - t0) + " ms; the child's reads make room for all bytes at +" + std::to_string(done_at - t0) + " ms");
        else if (r != (int) c.size) fail("write-result", "expected " + std::to_string(c.size) + ", got " + std::to_string(r));
      } else if (close_at >= 0) {
        res.cls("waited-for-child");
        if (w.hang) fail("blocking-write-hung", "the child closes stdin at +" + std::to_string(close_at - t0) + " ms but the write never returned");
        else if (t1 != close_at) fail("blocking-write-duration", "returned at +" + std::to_string(t1 - t0) + " ms; the child closes stdin at +" + std::to_string(close_at - t0) + " ms");
      } else {
        res.cls("blocks-forever-expected");
        if (!w.hang) fail("blocking-write-returned-by-itself", "the child never makes enough room, yet the call returned " + std::to_string(r) + " at +" + std::to_string(t1 - t0) + " ms");
      }
    }
  }
  if (!w.trouble.empty()) {
    res.kind = CaseResult::INCONCLUSIVE;
    res.msg = "harness: " + w.trouble + (res.msg.empty() ? "" : " / " + res.msg);
  }
  teardown();
  std::string lsig, lp = hz::ledger_problems(ch.fds_before, lsig);
  if (!lp.empty() && res.kind == CaseResult::PASS) res.fail(lsig, "after destroy: " + lp);
  return res;
}

}  // namespace

fw::PropertyDef fw::make_property()
{
  PropertyDef p;
  p.id = "C17";
  p.isolate = true;
  p.case_timeout_s = 60;
  p.tape_len = 96;
  p.run = run_case;
  return p;
}
