// C16 — drain and run deliver each stream to its sink with the documented
// protocol. reproc_drain / reproc::drain on the virtual-time engine with a
// scripted child (volumes, chunking, interleaving, early closes, exit before or
// after close), every stderr redirect choice, recording sinks with a failure
// plan, the string sink with NULL / empty / non-empty initial content and an
// allocation failure at a generated growth step, deadlines before / during /
// after the output; reproc_run / reproc_run_ex / reproc::run on the real clock
// with an autonomous child. The oracle works on the recorded sink calls.
#include "common/fw.hpp"
#include "common/harness.hpp"
#include "common/ledger.hpp"
#include "common/vtime.hpp"

#include <reproc++/drain.hpp>
#include <reproc++/run.hpp>
#include <reproc/drain.h>
#include <reproc/run.h>

#include <algorithm>
#include <sstream>

using namespace fw;

namespace {

struct SinkCall {
  int sink;        // 0 = out sink, 1 = err sink
  int tag;         // REPROC_STREAM value
  size_t size;
  int64_t at;      // virtual time
  bool content_ok;
};

struct Recorder {
  std::vector<SinkCall> calls;
  uint64_t got[3] = { 0, 0, 0 };
  int fail_at = -1;  // index of the call that returns `fail_value`
  int fail_value = 0;
  bool merged = false;  // stderr redirected into stdout: content of OUT is a merge, not checked per byte here
};
Recorder *g_rec;

struct SinkCtx {
  int id;
};

int record(int id, int tag, const uint8_t *buffer, size_t size)
{
  Recorder &r = *g_rec;
  bool ok = true;
  if ((tag == 1 || tag == 2) && size > 0 && !r.merged) {
    for (size_t i = 0; i < size; i++)
      if (buffer[i] != pup_pattern(tag, r.got[tag] + i)) {
        ok = false;
        break;
      }
  }
  if (tag >= 0 && tag <= 2) r.got[tag] += size;
  int idx = (int) r.calls.size();
  r.calls.push_back({ id, tag, size, vt::World::current() ? vt::World::current()->now : 0, ok });
  return idx == r.fail_at ? r.fail_value : 0;
}

int c_sink(REPROC_STREAM stream, const uint8_t *buffer, size_t size, void *context) { return record(((SinkCtx *) context)->id, (int) stream, buffer, size); }

struct ScriptStep {
  int64_t after;   // relative to the start of drain
  int kind;        // 0 write, 1 close, 2 exit
  uint32_t stream;
  uint64_t bytes;
};

struct Case {
  int err_mode = 0;      // 0 pipe, 1 to stdout, 2 parent (default), 3 discard
  bool out_piped = true;
  std::vector<ScriptStep> script;
  int sink_kind = 0;     // 0 two recording sinks, 1 same recording sink for both, 2 string sink(s), 3 REPROC_SINK_NULL, 4 NULL function pointer
  int fail_at = -1, fail_value = 0;
  int initial = 0;       // string sink: 0 NULL, 1 "", 2 "seed:"
  int realloc_fault = -1;
  int deadline = 0;
  bool cxx = false;
  bool nonblocking = false;
};

Case decode(Tape &t)
{
  Case c;
  c.err_mode = (int) t.weighted({ 5, 2, 2, 2 });
  c.out_piped = !t.chance(1, 8);
  c.nonblocking = t.coin();
  size_t n = (size_t) t.range(0, 10);
  int64_t at = 0;
  bool closed[3] = { false, false, false };
  for (size_t i = 0; i < n; i++) {
    ScriptStep s;
    at += t.chance(1, 3) ? 0 : (int64_t) t.range(1, 5000);
    s.after = at;
    s.kind = (int) t.weighted({ 7, 2, 1 });
    s.stream = 1 + t.pick(2);
    static const uint64_t sizes[] = { 0, 1, 100, 4095, 4096, 4097, 10000, 70000, 1 << 20 };
    s.bytes = sizes[t.pick(9)];
    if (s.kind == 0 && closed[s.stream]) continue;
    if (s.kind == 1) closed[s.stream] = true;
    c.script.push_back(s);
    if (s.kind == 2) break;
  }
  // the child always ends eventually (drain waits without bound otherwise), unless a deadline is what ends the drain
  c.deadline = t.chance(1, 3) ? (int) t.range(1, at + 3000) : 0;
  if (c.script.empty() || c.script.back().kind != 2) c.script.push_back({ at + (int64_t) t.range(0, 3000), 2, 0, 0 });
  c.sink_kind = (int) t.weighted({ 6, 2, 4, 1, 1 });
  if (t.chance(1, 4)) {
    c.fail_at = (int) t.range(0, 12);
    c.fail_value = t.coin() ? (int) t.range(1, 1000) : -(int) t.range(1, 200);
  }
  c.initial = (int) t.pick(3);
  if (c.sink_kind == 2 && t.chance(1, 3)) c.realloc_fault = (int) t.range(0, 8);
  c.cxx = t.chance(1, 4) && c.sink_kind <= 1;
  return c;
}

// expected content of a string sink fed by both streams is an interleaving; with
// one piped stream it is exact.
CaseResult run_drain(Tape &t)
{
  CaseResult res;
  Case c = decode(t);
  vs_init();
  vs_reset();
  vt::World w;
  w.install();
  Recorder rec;
  g_rec = &rec;
  rec.fail_at = c.fail_at;
  rec.fail_value = c.fail_value;
  rec.merged = c.err_mode == 1;

  reproc_options opt;
  memset(&opt, 0, sizeof(opt));
  opt.redirect.out.type = c.out_piped ? REPROC_REDIRECT_PIPE : REPROC_REDIRECT_DISCARD;
  opt.redirect.err.type = c.err_mode == 0 ? REPROC_REDIRECT_PIPE : c.err_mode == 1 ? REPROC_REDIRECT_STDOUT : c.err_mode == 2 ? REPROC_REDIRECT_DEFAULT : REPROC_REDIRECT_DISCARD;
  opt.redirect.in.type = REPROC_REDIRECT_DISCARD;
  opt.deadline = c.deadline;
  opt.nonblocking = c.nonblocking;
  opt.stop = { { REPROC_STOP_KILL, 5000 }, { REPROC_STOP_NOOP, 0 }, { REPROC_STOP_NOOP, 0 } };
  bool piped[3] = { false, c.out_piped, c.err_mode == 0 };

  vt::VChild ch;
  std::unique_ptr<reproc::process> cxx;
  std::string err;
  if (c.cxx) {
    ch.pup.reset(new hz::Puppet(fw::case_dir() + "/ctl"));
    ch.fds_before = hz::snapshot_self_fds();
    cxx.reset(new reproc::process());
    reproc::options o;
    o.redirect.out.type = (enum reproc::redirect::type) opt.redirect.out.type;
    o.redirect.err.type = (enum reproc::redirect::type) opt.redirect.err.type;
    o.redirect.in.type = reproc::redirect::discard;
    o.deadline = reproc::milliseconds(c.deadline);
    o.nonblocking = c.nonblocking;
    o.stop = { { reproc::stop::kill, reproc::milliseconds(5000) }, { reproc::stop::noop, reproc::milliseconds(0) }, { reproc::stop::noop, reproc::milliseconds(0) } };
    std::vector<std::string> args = { ch.pup->exe(), "v" };
    ch.t_start = w.now;
    w.in_start = true;
    std::error_code ec = cxx->start(args, o);
    w.in_start = false;
    if (ec) err = "reproc++ start: " + ec.message();
    else {
      ch.pid = cxx->pid().first;
      ch.start_result = 1;
      if (!ch.pup->wait_ready(10000, ch.pid)) err = "not ready: " + ch.pup->error();
      else ch.kid = w.add_kid(ch.pup.get(), ch.pid);
    }
  } else {
    err = vt::start_puppet(w, fw::case_dir() + "/ctl", opt, ch);
  }
  {
    std::vector<std::string> js;
    for (auto &s : c.script) js.push_back(jstr("+" + std::to_string(s.after) + (s.kind == 0 ? " write " + std::to_string(s.bytes) + " to " + (s.stream == 1 ? "out" : "err") : s.kind == 1 ? std::string(" close ") + (s.stream == 1 ? "out" : "err") : " exit")));
    static const char *em[] = { "pipe", "to-stdout", "parent(default)", "discard" };
    static const char *sk[] = { "two recording sinks", "one recording sink for both", "string sink", "REPROC_SINK_NULL", "NULL function pointer" };
    res.describe = J().kv("api", c.cxx ? "reproc::drain" : "reproc_drain").kv("stdout_piped", c.out_piped).kv("stderr", em[c.err_mode]).raw("child_script", jarr(js)).kv("sinks", sk[c.sink_kind]).kv("sink_fails_at_call", c.fail_at).kv("sink_fail_value", c.fail_value).kv("string_initial", c.initial).kv("realloc_fault_at_growth", c.realloc_fault).kv("deadline", c.deadline).kv("nonblocking", c.nonblocking).str();
  }
  auto teardown = [&]() {
    w.uninstall();
    for (auto &kk : w.kids)
      if (kk.alive) {
        kill(kk.pid, SIGKILL);
        hz::wait_dead(kk.pid, 5000);
      }
    cxx.reset();
    if (ch.p) reproc_destroy(ch.p);
    g_rec = nullptr;
  };
  if (!err.empty() || ch.start_result <= 0) {
    res.inconclusive("start: " + err);
    teardown();
    return res;
  }
  vt::Kid &k = w.kids[(size_t) ch.kid];
  int64_t t0 = w.now;
  int64_t deadline_abs = c.deadline ? ch.t_start + c.deadline : vt::INF;
  for (auto &s : c.script) {
    if (s.kind == 0) w.schedule(t0 + s.after, ch.kid, vt::A_WRITE, s.stream, s.bytes);
    else if (s.kind == 1) w.schedule(t0 + s.after, ch.kid, vt::A_CLOSE, s.stream);
    else w.schedule(t0 + s.after, ch.kid, vt::A_EXIT, 5);
  }

  // ---- call drain ---------------------------------------------------------------
  SinkCtx octx = { 0 }, ectx = { c.sink_kind == 1 ? 0 : 1 };
  int r = 0;
  std::error_code ec;
  char *str_out = nullptr, *str_err = nullptr;
  const char *initial = c.initial == 0 ? nullptr : c.initial == 1 ? "" : "seed:";
  bool same_string = false;
  if (c.sink_kind == 2) {
    if (initial) {
      str_out = strdup(initial);
      str_err = strdup(initial);
      vs_heap_adopt(str_out, strlen(initial) + 1);
      vs_heap_adopt(str_err, strlen(initial) + 1);
    }
    same_string = t.coin();
    if (c.realloc_fault >= 0) vs_fail_nth(VS_REALLOC, c.realloc_fault);
  }
  if (c.cxx) {
    auto mk = [&](int id) {
      return [id](reproc::stream s, const uint8_t *b, size_t n) -> std::error_code {
        int v = record(id, (int) s, b, n);
        if (v == 0) return {};
        return std::error_code(v < 0 ? -v : v, std::generic_category());
      };
    };
    ec = reproc::drain(*cxx, mk(0), mk(c.sink_kind == 1 ? 0 : 1));
    r = ec ? -ec.value() : 0;
  } else {
    reproc_sink so, se;
    switch (c.sink_kind) {
      case 0:
      case 1:
        so = { c_sink, &octx };
        se = { c_sink, &ectx };
        break;
      case 2:
        so = reproc_sink_string(&str_out);
        se = reproc_sink_string(same_string ? &str_out : &str_err);
        break;
      case 3:
        so = REPROC_SINK_NULL;
        se = REPROC_SINK_NULL;
        break;
      default:
        so = { nullptr, nullptr };
        se = { c_sink, &ectx };
        break;
    }
    r = reproc_drain(ch.p, so, se);
  }
  vs_fail_nth(-1, -1);
  int64_t t1 = w.now;

  // ---- oracle ---------------------------------------------------------------------
  auto fail = [&](const std::string &sig, const std::string &m) { res.fail(sig, m); };
  uint64_t wr[3] = { 0, k.written[1], k.written[2] };
  bool recording = c.sink_kind <= 1;
  bool both_closed_naturally = true;  // by the end of the script every piped stream is closed (the child exits)
  (void) both_closed_naturally;
  if (c.sink_kind == 4) {
    if (r != REPROC_EINVAL) fail("null-sink-accepted", "a sink without a function must be rejected with REPROC_EINVAL, drain returned " + std::to_string(r));
    if (!rec.calls.empty()) fail("null-sink-called", "sinks were called although one of them has no function");
  } else if (recording) {
    const auto &cs = rec.calls;
    // which call stops the drain, if any
    int stopper = c.fail_at >= 0 && c.fail_at < (int) cs.size() ? c.fail_at : -1;
    if (c.fail_at >= 0 && (int) cs.size() > c.fail_at + 1) fail("sink-error-ignored", "a sink returned " + std::to_string(c.fail_value) + " at call " + std::to_string(c.fail_at) + " but " + std::to_string(cs.size() - (size_t) c.fail_at - 1) + " more sink call(s) followed");
    if (stopper >= 0) {
      int want = c.cxx ? -std::abs(c.fail_value) : c.fail_value;
      if (r != want && res.kind == CaseResult::PASS) fail("sink-error-not-returned", "a sink returned " + std::to_string(c.fail_value) + "; drain returned " + std::to_string(r));
    }
    // initial calls
    if (cs.size() >= 1 && !(cs[0].sink == 0 && cs[0].tag == REPROC_STREAM_IN && cs[0].size == 0)) fail("initial-call", "the first sink call must be (out sink, stream IN, size 0); got (sink " + std::to_string(cs[0].sink) + ", tag " + std::to_string(cs[0].tag) + ", size " + std::to_string(cs[0].size) + ")");
    if (cs.size() >= 2 && !(cs[1].sink == ectx.id && cs[1].tag == REPROC_STREAM_IN && cs[1].size == 0)) fail("initial-call", "the second sink call must be (err sink, stream IN, size 0); got (sink " + std::to_string(cs[1].sink) + ", tag " + std::to_string(cs[1].tag) + ", size " + std::to_string(cs[1].size) + ")");
    if (cs.empty()) fail("initial-call", "no sink call at all");
    if (cs.size() == 1 && stopper != 0) fail("initial-call", "only one of the two initial sink calls was made");
    int closing[3] = { 0, 0, 0 };
    bool after_close[3] = { false, false, false };
    for (size_t i = 2; i < cs.size() && res.kind == CaseResult::PASS; i++) {
      const SinkCall &sc = cs[i];
      if (sc.tag != REPROC_STREAM_OUT && sc.tag != REPROC_STREAM_ERR) {
        fail("wrong-tag", "sink call " + std::to_string(i) + " carries stream tag " + std::to_string(sc.tag));
        break;
      }
      int want_sink = sc.tag == REPROC_STREAM_OUT ? 0 : ectx.id;
      if (sc.sink != want_sink) fail("wrong-sink", "a chunk of " + std::string(sc.tag == 1 ? "stdout" : "stderr") + " was passed to the other stream's sink");
      if (!piped[sc.tag]) fail("call-for-unpiped-stream", std::string("a sink call for ") + (sc.tag == 1 ? "stdout" : "stderr") + ", which is not piped");
      if (!sc.content_ok) fail("content", std::string("a chunk of ") + (sc.tag == 1 ? "stdout" : "stderr") + " does not continue the child's output where the previous one ended");
      if (after_close[sc.tag]) fail("call-after-closing-call", std::string("a sink call for ") + (sc.tag == 1 ? "stdout" : "stderr") + " after its closing (size 0) call");
      if (sc.size == 0) {
        closing[sc.tag]++;
        after_close[sc.tag] = true;
      }
      if (deadline_abs != vt::INF && sc.at > deadline_abs) fail("chunk-after-deadline", "a chunk was delivered at +" + std::to_string(sc.at - ch.t_start) + " ms, after the deadline (+" + std::to_string(c.deadline) + ")");
    }
    if (res.kind == CaseResult::PASS && stopper < 0) {
      bool all_closed = true;
      for (int s = 1; s <= 2; s++)
        if (piped[s] && closing[s] != 1) all_closed = false;
      // when did the last piped stream close in the script?
      if (r == 0) {
        for (int s = 1; s <= 2; s++) {
          if (!piped[s]) continue;
          if (closing[s] != 1) fail("closing-call", std::string("drain returned 0 but ") + (s == 1 ? "stdout" : "stderr") + " got " + std::to_string(closing[s]) + " closing (size 0) calls instead of exactly one");
          else if (rec.got[s] != wr[s] && !rec.merged) fail("data-lost", std::string(s == 1 ? "stdout" : "stderr") + ": the sink received " + std::to_string(rec.got[s]) + " of " + std::to_string(wr[s]) + " bytes before the closing call");
        }
        if (rec.merged && rec.got[1] != wr[1] + wr[2]) fail("data-lost", "stdout (with stderr merged in): the sink received " + std::to_string(rec.got[1]) + " of " + std::to_string(wr[1] + wr[2]) + " bytes");
        if (deadline_abs != vt::INF && t1 > deadline_abs) fail("deadline-ignored", "drain returned 0 at +" + std::to_string(t1 - ch.t_start) + " ms, past the deadline at +" + std::to_string(c.deadline) + " ms");
      } else if (r == REPROC_ETIMEDOUT) {
        if (deadline_abs == vt::INF) fail("timeout-without-deadline", "drain returned the timeout error but the process has no deadline");
        else if (t1 != std::max(deadline_abs, t0)) fail("deadline-time", "drain returned the timeout error at +" + std::to_string(t1 - ch.t_start) + " ms; the deadline is at +" + std::to_string(c.deadline) + " ms");
        else if (all_closed && (piped[1] || piped[2])) {
          // both streams had closed before the deadline: 0 was due (a tie at the very millisecond is accepted)
          bool tie = false;
          for (auto &sc2 : cs) tie = tie || sc2.at == deadline_abs;
          if (!tie) fail("timeout-after-close", "every piped stream had been closed before the deadline, yet drain returned the timeout error");
        }
      } else {
        fail("drain-result", "drain returned " + std::to_string(r) + " without any sink failing");
      }
    }
  } else if (c.sink_kind == 2) {
    // string sink
    std::string init = initial ? initial : "";
    bool faulted = c.realloc_fault >= 0;
    auto expect_prefix = [&](const char *got, bool is_err_sink) {
      // what this string must look like: initial ++ bytes of the streams it serves (single stream: exact)
      if (!got) return;
      std::string g = got;
      if (g.compare(0, init.size(), init) != 0) {
        fail("string-sink-initial-lost", "the string no longer starts with its initial content");
        return;
      }
      std::string body = g.substr(init.size());
      bool serves[3] = { false, !is_err_sink && true, is_err_sink || same_string };
      if (same_string) serves[1] = serves[2] = true;
      int nstreams = (int) (serves[1] && piped[1]) + (int) (serves[2] && piped[2]);
      if (nstreams == 1 && !rec.merged) {
        int s = serves[1] && piped[1] ? 1 : 2;
        for (size_t i = 0; i < body.size(); i++)
          if ((uint8_t) body[i] != pup_pattern(s, i)) {
            fail("string-sink-content", "the string differs from the child's output at offset " + std::to_string(i));
            return;
          }
        if (!faulted && r == 0 && body.size() != wr[s]) fail("string-sink-length", "the string holds " + std::to_string(body.size()) + " of " + std::to_string(wr[s]) + " bytes");
        if (body.size() > wr[s]) fail("string-sink-length", "the string holds more bytes than the child wrote");
      } else if (!faulted && r == 0 && !rec.merged) {
        uint64_t want = (serves[1] && piped[1] ? wr[1] : 0) + (serves[2] && piped[2] ? wr[2] : 0);
        if (body.size() != want) fail("string-sink-length", "the string holds " + std::to_string(body.size()) + " of " + std::to_string(want) + " bytes");
      }
    };
    if (r == REPROC_ENOMEM) {
      if (!faulted) fail("enomem-without-fault", "drain returned REPROC_ENOMEM although no allocation failed");
    } else if (r != 0 && r != REPROC_ETIMEDOUT) {
      fail("drain-result", "drain with string sinks returned " + std::to_string(r));
    }
    expect_prefix(str_out, false);
    if (!same_string) expect_prefix(str_err, true);
    if (r == 0 && !faulted && str_out == nullptr) fail("string-sink-null", "drain succeeded but the output string is still NULL (it must at least be an empty, NUL-terminated string)");
  } else {
    if (r != 0 && r != REPROC_ETIMEDOUT) fail("drain-result", "drain with REPROC_SINK_NULL returned " + std::to_string(r));
  }
  if (str_out) reproc_free(str_out);
  if (str_err) reproc_free(str_err);

  bool hit = false;
  if (c.fail_at >= 0 && c.fail_at < (int) rec.calls.size() + 1 && recording) hit = true;
  if (r == REPROC_ENOMEM) hit = true;
  if (r == REPROC_ETIMEDOUT) hit = true;
  bool both = piped[1] && piped[2] && wr[1] > 0 && wr[2] > 0;
  res.nontrivial = both || hit;
  if (both) res.cls("both-streams-piped-and-nonempty");
  if (recording && c.fail_at >= 0 && c.fail_at <= (int) rec.calls.size()) res.cls("sink-failure-hit");
  if (r == REPROC_ENOMEM) res.cls("allocation-failure-hit");
  if (r == REPROC_ETIMEDOUT) res.cls("deadline-hit");
  if (c.cxx) res.cls("via-cxx");
  if (c.sink_kind == 2) res.cls("string-sink");
  if (c.sink_kind == 4) res.cls("null-sink-function");
  if (c.err_mode == 1) res.cls("stderr-to-stdout");
  if (!piped[2] || !piped[1]) res.cls("unpiped-stream");
  res.cls("drain");
  uint64_t h = (uint64_t) c.err_mode | (uint64_t) c.out_piped << 2 | (uint64_t) c.sink_kind << 3 | (uint64_t) c.cxx << 6 | (uint64_t) (c.fail_at + 1) << 7 | (uint64_t) c.initial << 12 | (uint64_t) (c.realloc_fault + 1) << 14 | (uint64_t) (c.deadline != 0) << 19;
  for (auto &s : c.script) h = mix(h, (uint64_t) s.kind | (uint64_t) s.stream << 2 | s.bytes << 4 | (uint64_t) s.after << 30);
  res.hash = h;
  if (!w.trouble.empty()) {
    res.kind = CaseResult::INCONCLUSIVE;
    res.msg = "harness: " + w.trouble + (res.msg.empty() ? "" : " / " + res.msg);
  }
  teardown();
  std::string lsig, lp = hz::ledger_problems(ch.fds_before, lsig);
  if (!lp.empty() && res.kind == CaseResult::PASS) res.fail(lsig, "after destroy: " + lp);
  return res;
}

// ---- run / run_ex / reproc::run on the real clock -----------------------------
CaseResult run_run(Tape &t)
{
  CaseResult res;
  vs_init();
  vs_reset();
  Recorder rec;
  g_rec = &rec;
  hz::Puppet pup(fw::case_dir() + "/ctl");
  uint64_t out_n = (uint64_t[]){ 0, 1, 5000, 70000, 300000 }[t.pick(5)];
  uint64_t err_n = (uint64_t[]){ 0, 1, 5000, 70000 }[t.pick(4)];
  int code = (int) t.pick(256);
  int api = (int) t.weighted({ 4, 3, 3 });   // 0 reproc_run_ex, 1 reproc_run, 2 reproc::run
  int failure = (int) t.weighted({ 6, 1, 1, 1, 1 });  // 0 none, 1 missing program, 2 sink fails, 3 deadline, 4 fork option
  bool err_piped = t.coin();
  // reproc_run_ex with sinks that throw everything away: the output still has to be read for the child to finish
  bool null_sinks = api == 0 && failure != 2 && t.chance(1, 3);
  long sleep_ms = failure == 3 ? 4000 : 0;
  std::string a2 = std::to_string(out_n), a3 = std::to_string(err_n), a6 = std::to_string(code), a7 = std::to_string(sleep_ms);
  std::string prog = failure == 1 ? fw::case_dir() + "/no-such-program" : pup.exe();
  const char *argv[] = { prog.c_str(), "--auto", a2.c_str(), a3.c_str(), "4096", "0", a6.c_str(), a7.c_str(), nullptr };
  reproc_options opt;
  memset(&opt, 0, sizeof(opt));
  opt.redirect.in.type = REPROC_REDIRECT_DISCARD;
  if (err_piped) opt.redirect.err.type = REPROC_REDIRECT_PIPE;
  if (failure == 3) opt.deadline = 150;
  if (failure == 4) opt.fork = true;
  opt.stop = { { REPROC_STOP_WAIT, 3000 }, { REPROC_STOP_KILL, 3000 }, { REPROC_STOP_NOOP, 0 } };
  if (failure == 3) opt.stop = { { REPROC_STOP_KILL, 3000 }, { REPROC_STOP_NOOP, 0 }, { REPROC_STOP_NOOP, 0 } };
  if (failure == 2) {
    rec.fail_at = 2 + (int) t.pick(2);
    rec.fail_value = -77;
    if (out_n == 0) out_n = 1, a2 = "1";
  }
  static const char *an[] = { "reproc_run_ex", "reproc_run", "reproc::run" };
  static const char *fn[] = { "none", "missing program", "sink fails", "deadline expires", "fork option" };
  res.describe = J().kv("api", an[api]).kv("stdout_bytes", (unsigned long long) out_n).kv("stderr_bytes", (unsigned long long) err_n).kv("stderr_piped", err_piped).kv("exit_code", code).kv("failure", fn[failure]).kv("null_sinks", null_sinks).str();
  res.cls("run");
  if (null_sinks) res.cls(out_n + err_n > 65536 ? "run-null-sinks-output-exceeds-pipe" : "run-null-sinks");
  res.cls(std::string("run:") + an[api]);
  res.hash = mix(mix(out_n, err_n * 8 + (uint64_t) api), (uint64_t) code << 8 | (uint64_t) failure << 1 | err_piped | (uint64_t) null_sinks << 20);
  res.nontrivial = failure != 0 || (out_n > 0 && err_n > 0 && err_piped);
  if (failure) res.cls("run-error-path");

  auto fds0 = hz::snapshot_self_fds();
  int r = 0;
  SinkCtx octx = { 0 }, ectx = { 1 };
  if (api == 0) {
    reproc_sink so = { c_sink, &octx }, se = { c_sink, &ectx };
    if (null_sinks) {
      so = REPROC_SINK_NULL;
      se = t.coin() ? REPROC_SINK_NULL : reproc_sink_discard();
    }
    r = reproc_run_ex(argv, opt, so, se);
  } else if (api == 1) {
    // reproc_run: sets the parent redirect unless discard/file/path is set: keep our output off the worker's log
    reproc_options o2 = opt;
    memset(&o2.redirect, 0, sizeof(o2.redirect));
    o2.redirect.discard = true;
    r = reproc_run(argv, o2);
  } else {
    reproc::options o;
    o.redirect.in.type = reproc::redirect::discard;
    if (err_piped) o.redirect.err.type = reproc::redirect::pipe;
    else o.redirect.err.type = reproc::redirect::discard;
    o.deadline = reproc::milliseconds(opt.deadline);
    o.stop = { { (reproc::stop) opt.stop.first.action, reproc::milliseconds(opt.stop.first.timeout) }, { (reproc::stop) opt.stop.second.action, reproc::milliseconds(opt.stop.second.timeout) }, { reproc::stop::noop, reproc::milliseconds(0) } };
    std::vector<std::string> args;
    for (const char *const *a = argv; *a; a++) args.push_back(*a);
    auto mk = [&](int id) {
      return [id](reproc::stream s, const uint8_t *b, size_t n) -> std::error_code {
        int v = record(id, (int) s, b, n);
        if (v == 0) return {};
        return std::error_code(-v, std::generic_category());
      };
    };
    if (failure == 4) {
      r = REPROC_EINVAL;  // reproc::run has no fork form; nothing to do
    } else {
      auto pr = reproc::run(args, o, mk(0), mk(1));
      r = pr.second ? -pr.second.value() : pr.first;
    }
  }
  auto fail = [&](const std::string &sig, const std::string &m) { res.fail(sig, std::string(an[api]) + ": " + m); };
  switch (failure) {
    case 0:
      if (r != code) fail("run-status", "the child exited with " + std::to_string(code) + ", run returned " + std::to_string(r));
      if (api != 1 && !null_sinks && res.kind == CaseResult::PASS) {
        if (rec.got[1] != out_n) fail("run-data", "stdout sink received " + std::to_string(rec.got[1]) + " of " + std::to_string(out_n) + " bytes");
        if (err_piped && rec.got[2] != err_n) fail("run-data", "stderr sink received " + std::to_string(rec.got[2]) + " of " + std::to_string(err_n) + " bytes");
        for (auto &c : rec.calls)
          if (!c.content_ok) fail("content", "a chunk does not continue the child's output");
      }
      break;
    case 1:
      if (r != -ENOENT) fail("run-first-error", "the program does not exist; run returned " + std::to_string(r) + " instead of the start error");
      break;
    case 2:
      if (api == 1) {
        if (r != code) fail("run-status", "run returned " + std::to_string(r));
      } else if (r != -77) fail("run-first-error", "a sink failed with -77; run returned " + std::to_string(r));
      break;
    case 3:
      if (api == 1) {
        // nothing is piped in this form: drain has nothing to wait for, the stop policy (kill) decides
        if (r != 137) fail("run-status", "nothing piped, stop policy kills the lingering child: expected 137, run returned " + std::to_string(r));
      } else if (r != REPROC_ETIMEDOUT) fail("run-first-error", "the deadline expired while the child lingered; run returned " + std::to_string(r) + " instead of the timeout error");
      break;
    default:
      if (r != REPROC_EINVAL) fail("run-fork-accepted", "run with the fork option returned " + std::to_string(r) + " instead of REPROC_EINVAL");
      break;
  }
  g_rec = nullptr;
  // the child must be gone and reaped, and nothing may be left behind
  pid_t live[4];
  int nl = vs_live_children(live, 4);
  if (nl != 0 && res.kind == CaseResult::PASS) fail("run-left-child", "run returned but its child has not been reaped");
  std::string lsig, lp = hz::ledger_problems(fds0, lsig);
  if (!lp.empty() && res.kind == CaseResult::PASS) res.fail(lsig, "after run: " + lp);
  for (int i = 0; i < nl && i < 4; i++) hz::reap_quietly(live[i]);
  return res;
}

CaseResult run_case(Tape &t, long)
{
  if (t.chance(1, 6)) return run_run(t);
  return run_drain(t);
}

}  // namespace

fw::PropertyDef fw::make_property()
{
  PropertyDef p;
  p.id = "C16";
  p.isolate = true;
  p.case_timeout_s = 40;
  p.tape_len = 160;
  p.run = run_case;
  return p;
}
