// C05 — no descriptor, memory or process leak, no foreign or double close, on
// any path. Engine R + FAULT: the fault enumeration of the start scenarios
// (incl. close and allocation failures) with the ledger oracle, plus generated
// call histories ending in destroy with faults injected into the later calls.
#include "common/faultengine.hpp"

using namespace fw;

namespace {

const fe::FaultChoice kLate[] = {
  { VS_FK_ERRNO, ENOMEM, 0, "ENOMEM" }, { VS_FK_ERRNO, EINTR, 0, "EINTR" }, { VS_FK_ERRNO, EIO, 0, "EIO" },
  { VS_FK_ERRNO, EAGAIN, 0, "EAGAIN" }, { VS_FK_ERRNO, ESRCH, 0, "ESRCH" }, { VS_FK_ERRNO, EPERM, 0, "EPERM" },
};

CaseResult judge(const fe::Obs &o, const fe::RunConfig &cfg, const std::string &kind)
{
  CaseResult res;
  res.describe = J().raw("run", fe::obs_json(o)).raw("late_faults", fe::fault_json(cfg.late_faults)).kv("ops", (unsigned long) cfg.ops.size()).str();
  res.cls(kind);
  res.cls(std::string("scenario:") + fe::scenario_name(o.scenario));
  if (!o.setup_error.empty()) {
    res.inconclusive("setup: " + o.setup_error);
    return res;
  }
  uint64_t h = (uint64_t) o.scenario;
  bool any_fault = false;
  for (size_t i = 0; i < o.faults.size(); i++) {
    const fe::FaultSpec &f = o.faults[i];
    h = mix(h, (uint64_t) f.side | (uint64_t) f.index << 1 | (uint64_t) f.fn << 12 | (uint64_t) f.err << 20 | (uint64_t) f.kind << 30);
    if (i < o.fired.size() && o.fired[i]) {
      any_fault = true;
      res.cls(std::string("fault:") + vs_fn_name[f.fn]);
    }
  }
  for (auto &f : cfg.late_faults) h = mix(h, 0x1000 + (uint64_t) f.index * 64 + (uint64_t) f.err);
  for (auto &op : cfg.ops) h = mix(h, (uint64_t) op.kind | (uint64_t) op.a << 8);
  res.hash = h;
  bool user_object = false;
  switch (o.scenario) {
    case fe::S_HANDLE_FILE_HANDLE:
    case fe::S_PARENT_SHORTHAND:
    case fe::S_FILE_SHORTHAND:
    case fe::S_PARENT_ABSENT:
    case fe::S_DEFAULT: user_object = true; break;  // default: stderr = the parent's
    default: break;
  }
  res.nontrivial = o.r < 0 || any_fault || !cfg.late_faults.empty() || user_object;
  if (o.r < 0) res.cls("failed-start");
  if (!cfg.late_faults.empty()) res.cls("late-fault");
  if (!cfg.ops.empty()) res.cls("generated-history");

  std::string ctx = std::string("scenario ") + fe::scenario_name(o.scenario) + ", faults " + fe::fault_json(o.faults) + (cfg.late_faults.empty() ? "" : ", later " + fe::fault_json(cfg.late_faults)) + ": ";
  if (o.r < 0 && o.own_fds_after_start != 0)
    res.fail("fd-leak-after-failed-start", ctx + "reproc_start failed (" + std::to_string(o.r) + ") and left " + std::to_string(o.own_fds_after_start) + " descriptor(s) it created open");
  if (o.r < 0)
    for (size_t i = 0; i < o.live_after_start.size(); i++)
      res.fail("child-after-failed-start", ctx + "reproc_start failed (" + std::to_string(o.r) + ") and left child " + std::to_string(o.live_after_start[i]) + " unreaped");
  if (!o.user_objects.empty()) res.fail(o.user_sig, ctx + o.user_objects);
  if (!o.ledger.empty()) res.fail(o.ledger_sig, ctx + "after destroy: " + o.ledger);
  return res;
}

CaseResult run_case(Tape &t, long sweep)
{
  fe::RunConfig cfg;
  std::string kind;
  fe::SweepTable &tb = fe::table();
  if (!tb.ok) {
    CaseResult r;
    r.inconclusive("fault table: " + tb.error);
    return r;
  }
  if (sweep >= 0) {
    if (!fe::decode_sweep(sweep, t, cfg, fw::case_dir(), kind)) {
      CaseResult r;
      r.cls("beyond-last-fault-point");
      return r;
    }
  } else {
    fe::decode_random(t, cfg, kind);
    // generated history with faults in the later calls
    size_t n = (size_t) t.range(1, 14);
    for (size_t i = 0; i < n; i++) cfg.ops.push_back(fe::gen_op(t));
    int nl = (int) t.weighted({ 2, 4, 2 });
    for (int i = 0; i < nl; i++) {
      fe::FaultSpec f;
      const fe::FaultChoice &c = kLate[t.pick(6)];
      f.side = VS_PARENT;
      f.index = (int) t.range(0, 60);
      f.kind = c.kind;
      f.err = c.err;
      f.name = c.name;
      cfg.late_faults.push_back(f);
    }
  }
  cfg.parent_signals = fe::ParentSignals();
  fe::Obs o = fe::run(cfg, fw::case_dir());
  return judge(o, cfg, kind);
}

}  // namespace

fw::PropertyDef fw::make_property()
{
  PropertyDef p;
  p.id = "C05";
  p.isolate = true;
  p.case_timeout_s = 60;
  p.tape_len = 200;
  p.run = run_case;
  p.sweep_count = [](const std::string &) { return fe::sweep_total(); };
  p.setup = [] { fe::table(); };
  return p;
}
