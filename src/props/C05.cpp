// C05 — no descriptor, memory or process leak, no foreign or double close, on
// any path. Engine R + FAULT: the fault enumeration of the start scenarios
// (incl. close and allocation failures) with the ledger oracle, plus generated
// call histories ending in destroy with faults injected into the later calls.
#include "common/faultengine.hpp"

#include <reproc/drain.h>
#include <reproc/run.h>

using namespace fw;

namespace {

const fe::FaultChoice kLate[] = {
  { VS_FK_ERRNO, ENOMEM, 0, "ENOMEM" }, { VS_FK_ERRNO, EINTR, 0, "EINTR" }, { VS_FK_ERRNO, EIO, 0, "EIO" },
  { VS_FK_ERRNO, EAGAIN, 0, "EAGAIN" }, { VS_FK_ERRNO, ESRCH, 0, "ESRCH" }, { VS_FK_ERRNO, EPERM, 0, "EPERM" },
};

CaseResult judge(const fe::Obs &o, const fe::RunConfig &cfg, const std::string &kind)
{
  CaseResult res;
  res.describe = J().raw("run", fe::obs_json(o)).raw("late_faults", fe::fault_json(cfg.late_faults)).kv("ops", (unsigned long) cfg.ops.size()).str();
  res.cls(kind);
  res.cls(std::string("scenario:") + fe::scenario_name(o.scenario));
  if (!o.setup_error.empty()) {
    res.inconclusive("setup: " + o.setup_error);
    return res;
  }
  uint64_t h = (uint64_t) o.scenario;
  bool any_fault = false;
  for (size_t i = 0; i < o.faults.size(); i++) {
    const fe::FaultSpec &f = o.faults[i];
    h = mix(h, (uint64_t) f.side | (uint64_t) f.index << 1 | (uint64_t) f.fn << 12 | (uint64_t) f.err << 20 | (uint64_t) f.kind << 30);
    if (i < o.fired.size() && o.fired[i]) {
      any_fault = true;
      res.cls(std::string("fault:") + vs_fn_name[f.fn]);
    }
  }
  for (auto &f : cfg.late_faults) h = mix(h, 0x1000 + (uint64_t) f.index * 64 + (uint64_t) f.err);
  for (auto &op : cfg.ops) h = mix(h, (uint64_t) op.kind | (uint64_t) op.a << 8);
  res.hash = h;
  bool user_object = false;
  switch (o.scenario) {
    case fe::S_HANDLE_FILE_HANDLE:
    case fe::S_PARENT_SHORTHAND:
    case fe::S_FILE_SHORTHAND:
    case fe::S_PARENT_ABSENT:
    case fe::S_DEFAULT: user_object = true; break;  // default: stderr = the parent's
    default: break;
  }
  res.nontrivial = o.r < 0 || any_fault || !cfg.late_faults.empty() || user_object;
  if (o.r < 0) res.cls("failed-start");
  if (!cfg.late_faults.empty()) res.cls("late-fault");
  if (!cfg.ops.empty()) res.cls("generated-history");

  std::string ctx = std::string("scenario ") + fe::scenario_name(o.scenario) + ", faults " + fe::fault_json(o.faults) + (cfg.late_faults.empty() ? "" : ", later " + fe::fault_json(cfg.late_faults)) + ": ";
  if (o.r < 0 && o.own_fds_after_start != 0)
    res.fail("fd-leak-after-failed-start", ctx + "reproc_start failed (" + std::to_string(o.r) + ") and left " + std::to_string(o.own_fds_after_start) + " descriptor(s) it created open");
  if (o.r < 0)
    for (size_t i = 0; i < o.live_after_start.size(); i++)
      res.fail("child-after-failed-start", ctx + "reproc_start failed (" + std::to_string(o.r) + ") and left child " + std::to_string(o.live_after_start[i]) + " unreaped");
  if (!o.user_objects.empty()) res.fail(o.user_sig, ctx + o.user_objects);
  if (!o.ledger.empty()) res.fail(o.ledger_sig, ctx + "after destroy: " + o.ledger);
  return res;
}

// The one-call API: reproc_run / reproc_run_ex create, start, drain, wait, stop and destroy inside one call. Options
// valid and invalid, a program that is there or not, output beyond a pipe's capacity, and up to two failures injected
// into the parent's libc calls by ordinal; whatever the call returns, afterwards the descriptor table is the one from
// before, every block the library allocated is released, nothing foreign was closed, and a call that returned an exit
// status left no child behind.
struct ApiFault { int fn, err; const char *name; };
const ApiFault kApiFaults[] = {
  { VS_MALLOC, ENOMEM, "malloc" },   { VS_CALLOC, ENOMEM, "calloc" },     { VS_REALLOC, ENOMEM, "realloc" }, { VS_STRDUP, ENOMEM, "strdup" },
  { VS_PIPE, EMFILE, "pipe" },       { VS_FCNTL, EINVAL, "fcntl" },       { VS_FORK, EAGAIN, "fork" },       { VS_READ, EINTR, "read:EINTR" },
  { VS_READ, EIO, "read:EIO" },      { VS_POLL, EINTR, "poll:EINTR" },    { VS_POLL, ENOMEM, "poll:ENOMEM" }, { VS_WAITPID, EINTR, "waitpid" },
  { VS_CLOSE, EINTR, "close:EINTR" }, { VS_CLOSE, EIO, "close:EIO" },     { VS_OPEN, EMFILE, "open" },       { VS_SIGMASK, EINVAL, "sigmask" },
  { VS_KILL, EPERM, "kill" },        { VS_SIGACTION, EFAULT, "sigaction" }, { VS_GETCWD, EACCES, "getcwd" },
};

int counting_sink(REPROC_STREAM, const uint8_t *, size_t size, void *context)
{
  *(uint64_t *) context += size;
  return 0;
}

CaseResult run_api(Tape &t)
{
  CaseResult res;
  vs_init();
  vs_reset();
  hz::Puppet pup(fw::case_dir() + "/ctl");
  uint64_t out_n = (uint64_t[]){ 0, 1, 5000, 70000, 200000 }[t.pick(5)];
  uint64_t err_n = (uint64_t[]){ 0, 1, 5000, 70000 }[t.pick(4)];
  int code = (int) t.pick(256);
  // 0 fine, 1 missing program, 2 fork option, 3 contradicting redirect options, 4 deadline expires, 5 missing working directory,
  // 6 stdout to a path, 7 an action that does not exist in the stop policy
  int shape = (int) t.weighted({ 8, 2, 2, 2, 1, 1, 1, 1 });
  int api = (int) t.weighted({ 3, 2, 2, 2 });  // 0 run_ex with counting sinks, 1 run_ex with string sinks, 2 run_ex with null sinks, 3 reproc_run
  bool err_piped = t.coin();
  int nfaults = (int) t.weighted({ 3, 5, 2 });
  std::string a2 = std::to_string(out_n), a3 = std::to_string(err_n), a6 = std::to_string(code), a7 = shape == 4 ? "3000" : "0";
  std::string prog = shape == 1 ? fw::case_dir() + "/no-such-program" : pup.exe();
  const char *argv[] = { prog.c_str(), "--auto", a2.c_str(), a3.c_str(), "4096", "0", a6.c_str(), a7.c_str(), nullptr };
  reproc_options opt;
  memset(&opt, 0, sizeof(opt));
  opt.redirect.in.type = REPROC_REDIRECT_DISCARD;
  if (err_piped) opt.redirect.err.type = REPROC_REDIRECT_PIPE;
  opt.stop = { { REPROC_STOP_WAIT, 300 }, { REPROC_STOP_KILL, 3000 }, { REPROC_STOP_NOOP, 0 } };
  std::string wd = fw::case_dir() + "/no-such-directory", outpath = fw::case_dir() + "/run-out";
  switch (shape) {
    case 2: opt.fork = true; break;
    case 3:
      if (t.coin()) {
        memset(&opt.redirect, 0, sizeof(opt.redirect));
        opt.redirect.discard = true;
        opt.redirect.parent = true;
      } else opt.redirect.out.handle = 1;  // a handle next to the default type of another kind is fine or not: the library decides, nothing may leak
      break;
    case 4: opt.deadline = 100; break;
    case 5: opt.working_directory = wd.c_str(); break;
    case 6: opt.redirect.out.path = outpath.c_str(); break;
    case 7: opt.stop.first.action = (REPROC_STOP) 9; break;
    default: break;
  }
  if (api == 3 && shape != 3 && shape != 6) {
    memset(&opt.redirect, 0, sizeof(opt.redirect));
    opt.redirect.discard = true;  // keeps the child's output off the worker's log
  }
  std::vector<std::string> jf;
  for (int i = 0; i < nfaults; i++) {
    const ApiFault &f = kApiFaults[t.pick(sizeof(kApiFaults) / sizeof(kApiFaults[0]))];
    int nth = (int) t.range(0, f.fn == VS_CLOSE || f.fn == VS_FCNTL || f.fn == VS_MALLOC || f.fn == VS_CALLOC ? 12 : 4);
    struct vs_fault vf;
    memset(&vf, 0, sizeof(vf));
    vf.side = VS_PARENT;
    vf.index = -1 - nth;
    vf.fn = f.fn;
    vf.kind = VS_FK_ERRNO;
    vf.err = f.err;
    vs_add_fault(vf);
    jf.push_back(J().kv("call", f.name).kv("nth", nth).str());
    res.cls(std::string("run-api-fault:") + f.name);
  }
  static const char *an[] = { "reproc_run_ex, counting sinks", "reproc_run_ex, string sinks", "reproc_run_ex, null sinks", "reproc_run" };
  static const char *sn[] = { "fine", "missing program", "fork option", "contradicting redirect options", "deadline expires", "missing working directory", "stdout to a path", "stop action out of range" };
  res.describe = J().kv("scenario", "the one-call API").kv("api", an[api]).kv("shape", sn[shape]).kv("stdout_bytes", (unsigned long long) out_n).kv("stderr_bytes", (unsigned long long) err_n).kv("stderr_piped", err_piped).kv("exit_code", code).raw("faults", jarr(jf)).str();
  res.cls("run-api");
  res.cls(std::string("run-api:") + sn[shape]);
  res.hash = mix(mix(0x5a11, out_n * 8 + err_n), (uint64_t) code | (uint64_t) shape << 8 | (uint64_t) api << 12 | (uint64_t) err_piped << 15);
  for (auto &f : jf) res.hash = mix(res.hash, std::hash<std::string>()(f));
  res.nontrivial = shape != 0 || nfaults > 0 || out_n + err_n > 65536;

  auto fds0 = hz::snapshot_self_fds();
  uint64_t got_out = 0, got_err = 0;
  char *sout = nullptr, *serr = nullptr;
  int r;
  switch (api) {
    case 0: r = reproc_run_ex(argv, opt, (reproc_sink){ counting_sink, &got_out }, (reproc_sink){ counting_sink, &got_err }); break;
    case 1: r = reproc_run_ex(argv, opt, reproc_sink_string(&sout), reproc_sink_string(&serr)); break;
    case 2: r = reproc_run_ex(argv, opt, REPROC_SINK_NULL, REPROC_SINK_NULL); break;
    default: r = reproc_run(argv, opt); break;
  }
  int fired = 0;
  for (unsigned i = 0; i < vs_sh->nfaults; i++) fired += vs_sh->faults[i].fired;
  vs_clear_faults();
  // what a string sink handed out belongs to the caller
  if (sout) reproc_free(sout);
  if (serr) reproc_free(serr);
  if (fired) res.cls("run-api:fault-fired");
  if (r < 0) res.cls("run-api:failed");
  std::string ctx = std::string(an[api]) + " (" + sn[shape] + ", injected " + jarr(jf) + ", returned " + std::to_string(r) + "): ";
  pid_t live[4];
  int nl = vs_live_children(live, 4);
  if (nl != 0 && r >= 0) res.fail("child-after-run", ctx + "returned an exit status but left child " + std::to_string(live[0]) + " unreaped");
  std::string lsig, lp = hz::ledger_problems(fds0, lsig);
  if (!lp.empty() && res.kind == CaseResult::PASS) res.fail(lsig, ctx + lp);
  for (int i = 0; i < nl && i < 4; i++) {
    kill(live[i], SIGKILL);
    hz::reap_quietly(live[i]);
  }
  return res;
}

CaseResult run_case(Tape &t, long sweep)
{
  if (sweep < 0 && t.chance(1, 8)) return run_api(t);
  fe::RunConfig cfg;
  std::string kind;
  fe::SweepTable &tb = fe::table();
  if (!tb.ok) {
    CaseResult r;
    r.inconclusive("fault table: " + tb.error);
    return r;
  }
  if (sweep >= 0) {
    if (!fe::decode_sweep(sweep, t, cfg, fw::case_dir(), kind)) {
      CaseResult r;
      r.cls("beyond-last-fault-point");
      return r;
    }
  } else {
    fe::decode_random(t, cfg, kind);
    // generated history with faults in the later calls
    size_t n = (size_t) t.range(1, 14);
    for (size_t i = 0; i < n; i++) cfg.ops.push_back(fe::gen_op(t));
    int nl = (int) t.weighted({ 2, 4, 2 });
    for (int i = 0; i < nl; i++) {
      fe::FaultSpec f;
      const fe::FaultChoice &c = kLate[t.pick(6)];
      f.side = VS_PARENT;
      f.index = (int) t.range(0, 60);
      f.kind = c.kind;
      f.err = c.err;
      f.name = c.name;
      cfg.late_faults.push_back(f);
    }
  }
  cfg.parent_signals = fe::ParentSignals();
  fe::Obs o = fe::run(cfg, fw::case_dir());
  return judge(o, cfg, kind);
}

}  // namespace

fw::PropertyDef fw::make_property()
{
  PropertyDef p;
  p.id = "C05";
  p.isolate = true;
  p.case_timeout_s = 60;
  p.tape_len = 200;
  p.run = run_case;
  p.sweep_count = [](const std::string &) { return fe::sweep_total(); };
  p.setup = [] { fe::table(); };
  return p;
}
