// C01 — exit status is reported exactly, stays stable, and the child is reaped
// once. Engine V: every exit code 0..255 and every terminating signal is swept;
// histories of wait / stop / terminate / kill before and after the ending are
// generated; the ending itself is commanded by the harness (or caused by the
// library's own signal), so the expected status never comes from the library.
#include "common/fw.hpp"

#include <dirent.h>
#include "common/harness.hpp"
#include "common/ledger.hpp"
#include "common/vtime.hpp"
#include "model/stop_model.hpp"

#include <algorithm>

using namespace fw;

namespace {

const int kTermSignals[23] = { 1, 2, 3, 4, 5, 6, 7, 8, 9, 10, 11, 12, 13, 14, 15, 16, 24, 25, 26, 27, 29, 30, 31 };

enum OpKind { O_WAIT, O_STOP, O_TERMINATE, O_KILL };

struct Op {
  int kind;
  int64_t gap;             // virtual ms that pass before the call
  int timeout;             // wait
  model::StopAction act[3];
};

struct Case {
  int ending_kind = 0;     // 0 exit(code), 1 signal, 2 none (only the library's signals end it)
  int code = 0, sig = 0;
  bool core = false;       // the signal's default action dumps core and the child is allowed to (status flag set)
  int64_t ending_after = 0;  // relative to start
  int term_mode = 0;       // 0 dies on TERM, 1 ignores TERM
  int deadline = 0;
  std::vector<Op> ops;
  int64_t epoch = 1000000;
};

int gen_timeout(Tape &t, bool allow_deadline)
{
  switch (t.weighted({ 3, 4, 2, 1 })) {
    case 0: return 0;
    case 1: return (int) t.range(1, 30000);
    case 2: return model::TO_INFINITE;
    default: return allow_deadline ? model::TO_DEADLINE : 0;
  }
}

Case decode(Tape &t, long sweep)
{
  Case c;
  if (sweep >= 0 && sweep < 256) {
    c.ending_kind = 0;
    c.code = (int) sweep;
  } else if (sweep >= 256) {
    c.ending_kind = 1;
    c.sig = kTermSignals[(sweep - 256) % 23];
    c.core = ((sweep - 256) / 23) % 2 == 1;
  } else {
    c.ending_kind = (int) t.weighted({ 4, 3, 3 });
    c.code = (int) t.pick(256);
    c.sig = kTermSignals[t.pick(23)];
    c.core = t.chance(1, 2);
  }
  c.ending_after = (int64_t) t.range(0, 20000);
  c.term_mode = t.chance(1, 4) ? 1 : 0;
  c.deadline = t.chance(1, 3) ? (int) t.range(1, 40000) : 0;
  size_t n = (size_t) t.range(1, fw::tier() == "thorough" ? 30 : 12);
  for (size_t i = 0; i < n; i++) {
    Op o;
    o.kind = (int) t.weighted({ 6, 3, 2, 2 });
    o.gap = t.chance(1, 2) ? 0 : (int64_t) t.range(1, 8000);
    o.timeout = gen_timeout(t, true);
    for (int k = 0; k < 3; k++) {
      o.act[k].action = (int) t.pick(4);
      o.act[k].timeout = gen_timeout(t, true);
    }
    if (sweep >= 0) {
      // the sweep is about the child's own ending: nothing in the history may end it first
      if (o.kind == O_TERMINATE || o.kind == O_KILL) o.kind = O_WAIT;
      for (int k = 0; k < 3; k++) o.act[k].action &= 1;  // noop / wait only
      if (!o.act[0].action && !o.act[1].action && !o.act[2].action) o.act[0].action = model::STOP_WAIT;  // all-noop means wait, then terminate
    }
    c.ops.push_back(o);
  }
  static const int64_t epochs[] = { 1000000, 1700000000000LL, 2147483000LL, 4102444800000LL };
  c.epoch = epochs[t.pick(4)];
  return c;
}

std::string to_name(int timeout) { return timeout == model::TO_INFINITE ? "INF" : timeout == model::TO_DEADLINE ? "DEADLINE" : std::to_string(timeout); }

// A child that closes every descriptor it does not know (closefrom-style) takes
// the library's means of noticing its end away while it keeps running. Whatever
// the library then does with its timeouts, it must not hand out a status before
// the child has really ended, and the status must be the true one.
CaseResult run_closed_exit_handle(Tape &t)
{
  CaseResult res;
  vs_init();
  vs_reset();
  vt::World w;
  w.install();
  reproc_options opt;
  memset(&opt, 0, sizeof(opt));
  opt.redirect.discard = true;
  opt.stop = { { REPROC_STOP_KILL, 5000 }, { REPROC_STOP_NOOP, 0 }, { REPROC_STOP_NOOP, 0 } };
  vt::VChild ch;
  std::string err = vt::start_puppet(w, fw::case_dir() + "/ctl", opt, ch);
  int64_t close_after = (int64_t) t.range(0, 3000), die_after = close_after + (int64_t) t.range(1, 20000), call_after = close_after + (int64_t) t.range(0, (uint32_t) (die_after - close_after - 1));
  bool by_signal = t.chance(1, 3);
  int code = (int) t.pick(256), sig = kTermSignals[t.pick(23)];
  int form = (int) t.pick(4);  // wait(0), wait(finite), stop({wait,0}), stop({wait, finite})
  int finite = (int) t.range(1, 30000);
  res.describe = J().kv("scenario", "child closes every unknown descriptor, then keeps running")
                     .kv("closes_after", (long long) close_after).kv("ends_after", (long long) die_after).kv("ending", by_signal ? "signal " + std::to_string(sig) : "exit(" + std::to_string(code) + ")")
                     .kv("call_after", (long long) call_after).kv("call", form == 0 ? "wait(0)" : form == 1 ? "wait(" + std::to_string(finite) + ")" : form == 2 ? "stop(wait/0)" : "stop(wait/" + std::to_string(finite) + ")").str();
  res.cls("child-closed-its-exit-handle");
  res.nontrivial = true;
  res.hash = mix(mix(0xc1e, (uint64_t) form * 4 + by_signal), (uint64_t) close_after * 31 + (uint64_t) die_after);
  if (!err.empty() || ch.start_result <= 0) {
    w.uninstall();
    res.inconclusive("start: " + err);
    if (ch.p) reproc_destroy(ch.p);
    return res;
  }
  vt::Kid &k = w.kids[(size_t) ch.kid];
  int64_t t0 = ch.t_start;
  int want = by_signal ? 128 + sig : code;
  w.schedule(t0 + die_after, ch.kid, by_signal ? vt::A_RAISE : vt::A_EXIT, (uint32_t) (by_signal ? sig : code), 0);
  w.advance_to(t0 + close_after);
  if (!k.pup->cmd(PUP_CLOSE, 9)) {
    w.uninstall();
    res.inconclusive("close command: " + k.pup->error());
    reproc_destroy(ch.p);
    return res;
  }
  // half of these children are also stopped from outside (SIGSTOP, as a shell's ^Z or a
  // debugger would) before the call and continued later, before their scheduled end
  bool stopped = t.coin();
  if (stopped) {
    res.cls("child-stopped-by-sigstop");
    kill(ch.pid, SIGSTOP);
    for (int i = 0; i < 20000 && hz::proc_state(ch.pid) != 'T'; i++) usleep(200);
    int64_t cont_at = t0 + call_after + (die_after - call_after) / 2;
    pid_t cpid = ch.pid;
    w.schedule_call(cont_at, [cpid] {
      kill(cpid, SIGCONT);
      for (int i = 0; i < 20000 && hz::proc_state(cpid) == 'T'; i++) usleep(200);
    });
  }
  w.advance_to(t0 + call_after);
  int64_t death = t0 + die_after;
  reproc_stop_actions sa = { { REPROC_STOP_WAIT, form == 2 ? 0 : finite }, { REPROC_STOP_NOOP, 0 }, { REPROC_STOP_NOOP, 0 } };
  w.call_begins(die_after + 100000);
  int r = form == 0 ? reproc_wait(ch.p, 0) : form == 1 ? reproc_wait(ch.p, finite) : reproc_stop(ch.p, sa);
  int64_t ret_at = w.now;
  bool got_status = false;
  if (r >= 0) {
    got_status = true;
    if (ret_at < death || k.alive) res.fail("status-while-running", "returned status " + std::to_string(r) + " at +" + std::to_string(ret_at - t0) + " ms while the child (which had closed its inherited descriptors at +" + std::to_string(close_after) + ") kept running until +" + std::to_string(die_after));
    else if (r != want) res.fail("wrong-status", "returned " + std::to_string(r) + ", the child ended with " + std::to_string(want));
  } else if (r != REPROC_ETIMEDOUT) {
    res.fail("wait-error", "returned " + std::to_string(r));
  }
  // afterwards: the true status, once, and the same again
  if (res.kind == CaseResult::PASS) {
    w.advance_to(death + 1);
    w.call_begins(100000);
    int r2 = reproc_wait(ch.p, REPROC_INFINITE);
    if (r2 != want) res.fail(got_status ? "status-changed" : "wrong-status", "a wait after the child's end returned " + std::to_string(r2) + ", the child ended with " + std::to_string(want) + (got_status ? " and " + std::to_string(r) + " had been returned before" : ""));
    int r3 = reproc_wait(ch.p, 0);
    if (res.kind == CaseResult::PASS && r3 != r2) res.fail("status-changed", "a further wait returned " + std::to_string(r3));
    if (res.kind == CaseResult::PASS && vs_is_live(ch.pid)) res.fail("status-without-reap", "a status was returned but the child has not been reaped");
  }
  if (!w.trouble.empty()) {
    res.kind = CaseResult::INCONCLUSIVE;
    res.msg = "harness: " + w.trouble;
  }
  w.uninstall();
  for (auto &kk : w.kids)
    if (kk.alive) {
      kill(kk.pid, SIGKILL);
      hz::wait_dead(kk.pid, 5000);
    }
  reproc_destroy(ch.p);
  std::string lsig, lp = hz::ledger_problems(ch.fds_before, lsig);
  if (!lp.empty() && res.kind == CaseResult::PASS) res.fail(lsig, "after destroy: " + lp);
  return res;
}

// Somebody else collected the child (the caller ignores SIGCHLD, or its own waitpid(-1) loop was quicker): the
// library's waitpid fails with ECHILD. It cannot know the status then - and must not make one up.
CaseResult run_foreign_reaper(Tape &t)
{
  CaseResult res;
  vs_init();
  vs_reset();
  vt::World w;
  w.install();
  reproc_options opt;
  memset(&opt, 0, sizeof(opt));
  opt.redirect.discard = true;
  opt.stop = { { REPROC_STOP_KILL, 5000 }, { REPROC_STOP_NOOP, 0 }, { REPROC_STOP_NOOP, 0 } };
  vt::VChild ch;
  std::string err = vt::start_puppet(w, fw::case_dir() + "/ctl", opt, ch);
  int code = 1 + (int) t.pick(255);
  bool by_signal = t.chance(1, 3);
  int sig = kTermSignals[t.pick(23)];
  int form = (int) t.pick(3);  // wait(INFINITE), wait(0), stop({wait, 100})
  res.describe = J().kv("scenario", "the child is collected by someone else: the library's waitpid fails with ECHILD").kv("ending", by_signal ? "signal " + std::to_string(sig) : "exit(" + std::to_string(code) + ")").kv("call", form == 0 ? "wait(INFINITE)" : form == 1 ? "wait(0)" : "stop(wait/100)").str();
  res.cls("child-collected-by-someone-else");
  res.nontrivial = true;
  res.hash = mix(0xec41d, (uint64_t) code * 8 + (uint64_t) form * 2 + by_signal);
  if (!err.empty() || ch.start_result <= 0) {
    w.uninstall();
    res.inconclusive("start: " + err);
    if (ch.p) reproc_destroy(ch.p);
    return res;
  }
  w.schedule(ch.t_start + 100, ch.kid, by_signal ? vt::A_RAISE : vt::A_EXIT, (uint32_t) (by_signal ? sig : code), 0);
  w.advance_to(ch.t_start + 200);
  reproc_stop_actions sa = { { REPROC_STOP_WAIT, 100 }, { REPROC_STOP_NOOP, 0 }, { REPROC_STOP_NOOP, 0 } };
  for (int round = 0; round < 2 && res.kind == CaseResult::PASS; round++) {
    if (round == 0) vs_fail_nth_err(VS_WAITPID, 0, ECHILD);
    w.call_begins(100000);
    int r = form == 0 ? reproc_wait(ch.p, REPROC_INFINITE) : form == 1 ? reproc_wait(ch.p, 0) : reproc_stop(ch.p, sa);
    vs_fail_nth(-1, -1);
    if (r >= 0) res.fail("status-invented", std::string(round == 0 ? "" : "a later call: ") + "waitpid failed with ECHILD (the child, which ended with " + std::to_string(by_signal ? 128 + sig : code) + ", was collected by someone else) but the library returned status " + std::to_string(r));
  }
  if (!w.trouble.empty()) {
    res.kind = CaseResult::INCONCLUSIVE;
    res.msg = "harness: " + w.trouble;
  }
  w.uninstall();
  reproc_destroy(ch.p);
  return res;
}

CaseResult run_case(Tape &t, long sweep)
{
  if (sweep < 0 && t.chance(1, 12)) return t.chance(1, 4) ? run_foreign_reaper(t) : run_closed_exit_handle(t);
  CaseResult res;
  Case c = decode(t, sweep);
  vs_init();
  vs_reset();
  vt::World w;
  w.now = c.epoch;
  w.install();
  reproc_options opt;
  memset(&opt, 0, sizeof(opt));
  opt.redirect.discard = true;
  opt.deadline = c.deadline;
  opt.stop = { { REPROC_STOP_KILL, 5000 }, { REPROC_STOP_NOOP, 0 }, { REPROC_STOP_NOOP, 0 } };
  vt::VChild ch;
  std::string err = vt::start_puppet(w, fw::case_dir() + "/ctl", opt, ch);
  {
    std::vector<std::string> jo;
    for (auto &o : c.ops) {
      static const char *an[] = { "noop", "wait", "terminate", "kill" };
      std::string d;
      if (o.kind == O_WAIT) d = "wait(" + to_name(o.timeout) + ")";
      else if (o.kind == O_STOP) d = std::string("stop(") + an[o.act[0].action] + "/" + to_name(o.act[0].timeout) + "," + an[o.act[1].action] + "/" + to_name(o.act[1].timeout) + "," + an[o.act[2].action] + "/" + to_name(o.act[2].timeout) + ")";
      else d = o.kind == O_TERMINATE ? "terminate" : "kill";
      jo.push_back(jstr("+" + std::to_string(o.gap) + " " + d));
    }
    res.describe = J().kv("ending", c.ending_kind == 0 ? "exit(" + std::to_string(c.code) + ")" : c.ending_kind == 1 ? "signal " + std::to_string(c.sig) + (c.core ? " (core dump allowed)" : "") : "only by the library's signals")
                       .kv("ending_after", (long long) c.ending_after)
                       .kv("ignores_TERM", c.term_mode == 1)
                       .kv("deadline", c.deadline)
                       .raw("history", jarr(jo))
                       .str();
  }
  if (!err.empty() || ch.start_result <= 0) {
    w.uninstall();
    res.inconclusive("start: " + err);
    if (ch.p) reproc_destroy(ch.p);
    return res;
  }
  int64_t t_start = ch.t_start;
  w.set_term_mode(ch.kid, c.term_mode == 0 ? vt::TERM_DIE : vt::TERM_IGNORE, 0);
  int64_t self_at = model::T_INF;
  int self_status = -1;
  if (c.ending_kind == 0) {
    self_at = t_start + c.ending_after;
    self_status = c.code;
    w.schedule(self_at, ch.kid, vt::A_EXIT, (uint32_t) c.code);
  } else if (c.ending_kind == 1) {
    self_at = t_start + c.ending_after;
    self_status = 128 + c.sig;
    w.schedule(self_at, ch.kid, vt::A_RAISE, (uint32_t) c.sig, c.core ? 1 : 0);
  }
  int64_t deadline_abs = c.deadline ? t_start + c.deadline : model::T_INF;
  vt::Kid &k = w.kids[(size_t) ch.kid];

  bool have_status = false;
  int status = -1;
  int statuses_returned = 0, calls_after_status = 0, interrupted_calls = 0;
  bool nonzero_ending = false;
  uint64_t h = 0;

  for (size_t oi = 0; oi < c.ops.size() && res.kind == CaseResult::PASS && !w.hang; oi++) {
    Op o = c.ops[oi];
    w.advance_to(w.now + o.gap);
    int64_t entry = w.now;
    bool reaped = !vs_is_live(ch.pid);
    // current knowledge about the child's end
    int64_t death = k.alive ? (self_at >= entry ? self_at : model::T_INF) : k.died_at;
    if (k.alive && self_at < entry) death = model::T_INF;  // (cannot happen: scheduled actions up to `entry` have run)
    int death_status = k.alive ? self_status : k.expected_status;
    auto fail = [&](const std::string &sig, const std::string &m) { res.fail(sig, "op " + std::to_string(oi) + ": " + m); };
    uint32_t waitpid0 = vs_counts.calls[VS_WAITPID], kill0 = vs_counts.calls[VS_KILL];
    size_t ep0 = w.episodes.size();
    h = mix(h, (uint64_t) o.kind * 8 + (uint64_t) (have_status ? 1 : 0) + (uint64_t) (k.alive ? 2 : 0));

    // one call in eight has its poll or its waitpid interrupted (EINTR): the
    // call may fail with that error but the handle must be none the worse
    bool armed = !have_status && t.chance(1, 8) && (o.kind == O_WAIT || o.kind == O_STOP);
    unsigned fired0 = vs_nth_fired();
    if (armed) vs_fail_nth(t.coin() ? VS_POLL : VS_WAITPID, 0);
    auto was_interrupted = [&]() {
      vs_fail_nth(-1, -1);
      return vs_nth_fired() != fired0;
    };
    if (o.kind == O_WAIT) {
      int to = o.timeout;
      int64_t end;
      if (to == model::TO_INFINITE) end = model::T_INF;
      else if (to == model::TO_DEADLINE) end = deadline_abs == model::T_INF ? model::T_INF : std::max(deadline_abs, entry);
      else end = entry + to;
      if (!reaped && end == model::T_INF && death == model::T_INF) {
        to = 1000;  // an unbounded wait for a child that never ends is not what this property is about
        end = entry + to;
      }
      int r = reproc_wait(ch.p, to);
      int64_t ret_at = w.now;
      if (was_interrupted() && r == -EINTR) {
        interrupted_calls++;
        if (!vs_is_live(ch.pid)) fail("reaped-but-error", "wait returned -EINTR although the child was reaped by it");
        continue;
      }
      if (have_status) {
        calls_after_status++;
        if (r != status) fail("status-changed", "wait returned " + std::to_string(r) + " after the status " + std::to_string(status) + " had been returned");
        else if (ret_at != entry || vs_counts.calls[VS_WAITPID] != waitpid0) fail("cached-status-not-immediate", "a wait after the status was returned tried to reap again or took time");
      } else if (death != model::T_INF && (death < end || (death == end && r >= 0))) {
        if (r < 0) fail("wait-missed-exit", "the child ended within the window but wait returned " + std::to_string(r));
        else if (r != death_status) fail("wrong-status", "wait returned " + std::to_string(r) + ", the child ended with " + std::to_string(death_status));
      } else {
        if (r >= 0) fail("status-while-running", "wait returned status " + std::to_string(r) + " although the child had not ended by the end of the window");
        else if (r != REPROC_ETIMEDOUT) fail("wait-wrong-error", "wait returned " + std::to_string(r) + ", expected the timeout error");
      }
      if (r >= 0 && !have_status) {
        have_status = true;
        status = r;
        statuses_returned++;
        if (k.alive) fail("status-while-running", "a status was returned while the child was still running");
      }
    } else if (o.kind == O_STOP) {
      model::ChildScript cs;
      cs.term_mode = c.term_mode;
      cs.self_exit_at = k.alive ? (self_at >= entry ? self_at : model::T_INF) : model::T_INF;
      cs.exit_code = self_status;
      if (!k.alive) {
        cs.dead = true;
        cs.died_at = k.died_at;
        cs.status = k.expected_status;
      }
      model::StopExpect e0 = model::interpret_stop(o.act, cs, entry, deadline_abs, have_status, status, true);
      if (e0.kind == model::StopExpect::HANG) {
        // keep the history finite: bound the unbounded step
        for (int i = 0; i < 3; i++)
          if (o.act[i].timeout == model::TO_INFINITE || (o.act[i].timeout == model::TO_DEADLINE && deadline_abs == model::T_INF)) o.act[i].timeout = 500;
        bool all_noop = o.act[0].action == 0 && o.act[1].action == 0 && o.act[2].action == 0;
        if (all_noop) o.act[0] = { model::STOP_WAIT, 500 };
        e0 = model::interpret_stop(o.act, cs, entry, deadline_abs, have_status, status, true);
      }
      model::StopExpect e1 = model::interpret_stop(o.act, cs, entry, deadline_abs, have_status, status, false);
      reproc_stop_actions sa = { { (REPROC_STOP) o.act[0].action, o.act[0].timeout }, { (REPROC_STOP) o.act[1].action, o.act[1].timeout }, { (REPROC_STOP) o.act[2].action, o.act[2].timeout } };
      int r = reproc_stop(ch.p, sa);
      int64_t ret_at = w.now;
      if (was_interrupted()) {
        // C07 judges what an interrupted stop must do; here only the aftermath matters
        interrupted_calls++;
        if (r >= 0 && !vs_is_live(ch.pid)) {
          have_status = true;
          status = r;
          statuses_returned++;
          if (r != k.expected_status) fail("wrong-status", "stop returned " + std::to_string(r) + ", the child ended with " + std::to_string(k.expected_status));
        } else if (r >= 0) {
          fail("status-while-running", "stop returned status " + std::to_string(r) + " although the child had not been reaped");
        }
        continue;
      }
      if (have_status) {
        calls_after_status++;
        if (r != status) fail("status-changed", "stop returned " + std::to_string(r) + " after the status " + std::to_string(status) + " had been returned");
        else if (ret_at != entry || vs_counts.calls[VS_WAITPID] != waitpid0 || vs_counts.calls[VS_KILL] != kill0) fail("cached-status-not-immediate", "a stop after the status was returned tried to reap or signal again, or took time");
      } else {
        bool ok = false;
        for (const model::StopExpect *e : { &e0, &e1 }) {
          if (e->kind == model::StopExpect::STATUS) {
            for (int s : e->statuses) ok = ok || r == s;
          } else if (e->kind == model::StopExpect::TIMEDOUT) {
            ok = ok || r == REPROC_ETIMEDOUT;
          } else if (e->kind == model::StopExpect::HANG) {
            ok = true;
          }
        }
        if (!ok) {
          std::string sig = r >= 0 ? (k.alive ? "status-while-running" : "wrong-status") : "stop-wrong-result";
          fail(sig, "stop returned " + std::to_string(r) + "; the contract gives " + (e0.kind == model::StopExpect::STATUS ? "status " + std::to_string(e0.statuses[0]) : "the timeout error") + " (" + e0.trace + ")");
        }
      }
      if (r >= 0 && !have_status) {
        have_status = true;
        status = r;
        statuses_returned++;
        if (k.alive) fail("status-while-running", "stop returned a status while the child was still running");
      }
    } else {
      int r = o.kind == O_TERMINATE ? reproc_terminate(ch.p) : reproc_kill(ch.p);
      if (have_status) {
        calls_after_status++;
        if (r != 0 || vs_counts.calls[VS_KILL] != kill0) fail("signal-after-reap", std::string(o.kind == O_TERMINATE ? "terminate" : "kill") + " after the status was returned: result " + std::to_string(r) + ", signals sent " + std::to_string(vs_counts.calls[VS_KILL] - kill0));
      } else if (r != 0) {
        fail("signal-failed", std::string(o.kind == O_TERMINATE ? "terminate" : "kill") + " on a started, unreaped child returned " + std::to_string(r));
      }
    }
    for (size_t e = ep0; e < w.episodes.size(); e++)
      if (std::string(w.episodes[e].what) == "waitpid") fail("blocking-reap-of-running-child", "the library called a blocking waitpid on a child that was still running");
  }

  // make sure a status gets returned at least once when the child does end
  if (res.kind == CaseResult::PASS && !have_status && !w.hang) {
    if (k.alive && self_at == model::T_INF) reproc_kill(ch.p);
    int expect = k.alive ? self_status : k.expected_status;
    int r = reproc_wait(ch.p, REPROC_INFINITE);
    if (!k.alive) expect = k.expected_status;
    if (r != expect) res.fail(r >= 0 ? "wrong-status" : "final-wait-failed", "final wait(INFINITE) returned " + std::to_string(r) + ", the child ended with " + std::to_string(expect));
    else {
      have_status = true;
      status = r;
      int r2 = reproc_wait(ch.p, 0);
      calls_after_status++;
      if (r2 != r) res.fail("status-changed", "a second wait returned " + std::to_string(r2) + " after " + std::to_string(r));
    }
  }
  if (have_status && status != 0) nonzero_ending = true;

  // exactly one successful reap, no zombie, no second reap attempt
  if (res.kind == CaseResult::PASS && have_status) {
    if (vs_reaps(ch.pid) != 1) res.fail("reap-count", "the child was reaped " + std::to_string(vs_reaps(ch.pid)) + " times");
    char st = hz::proc_state(ch.pid);
    if (st == 'Z') res.fail("zombie", "a status was returned but the child is still a zombie");
  }
  for (int i = 0; i < vs_nviol() && res.kind == CaseResult::PASS; i++) {
    std::string v = vs_viol(i);
    if (v.find("second reap") != std::string::npos) res.fail("second-reap", v);
    else if (v.find("kill(") != std::string::npos) res.fail("signal-after-reap", v);
  }

  res.nontrivial = calls_after_status > 0 || nonzero_ending;
  res.hash = mix(h, (uint64_t) c.ending_kind | (uint64_t) c.code << 2 | (uint64_t) c.sig << 10 | (uint64_t) c.term_mode << 16 | (uint64_t) (c.deadline != 0) << 17 | (uint64_t) c.core << 18);
  if (calls_after_status > 0) res.cls("call-after-status");
  if (interrupted_calls > 0) res.cls("interrupted-call");
  if (nonzero_ending) res.cls("nonzero-status");
  if (have_status && status > 128 && c.ending_kind == 1) res.cls("ended-by-own-signal");
  if (have_status && c.ending_kind == 1 && c.core && (c.sig == 3 || c.sig == 4 || c.sig == 5 || c.sig == 6 || c.sig == 7 || c.sig == 8 || c.sig == 11 || c.sig == 24 || c.sig == 25 || c.sig == 31)) {
    res.cls("ended-by-core-dumping-signal");
    // did the kernel really write one (depends on the machine's core_pattern and hard limit)?
    std::string dir = fw::case_dir() + "/ctl";
    if (DIR *d = opendir(dir.c_str())) {
      while (struct dirent *e = readdir(d))
        if (!strncmp(e->d_name, "core", 4)) {
          res.cls("core-file-written");
          break;
        }
      closedir(d);
    }
  }
  if (have_status && (status == 143 || status == 137) && c.ending_kind != 1) res.cls("ended-by-library-signal");
  if (sweep >= 0) {
    res.cls(sweep < 256 ? "sweep-exit-code" : "sweep-signal");
    if (res.kind == CaseResult::PASS && (!have_status || status != self_status))
      res.fail("sweep-status-not-observed", "the swept ending " + std::to_string(self_status) + " was not the status reported (" + std::to_string(status) + ")");
  }
  if (!w.trouble.empty()) {
    res.kind = CaseResult::INCONCLUSIVE;
    res.msg = "harness: " + w.trouble + (res.msg.empty() ? "" : " / " + res.msg);
  }
  w.uninstall();
  for (auto &kk : w.kids)
    if (kk.alive) {
      kill(kk.pid, SIGKILL);
      hz::wait_dead(kk.pid, 5000);
    }
  reproc_destroy(ch.p);
  std::string lsig, lp = hz::ledger_problems(ch.fds_before, lsig);
  if (!lp.empty() && res.kind == CaseResult::PASS) res.fail(lsig, "after destroy: " + lp);
  return res;
}

}  // namespace

fw::PropertyDef fw::make_property()
{
  PropertyDef p;
  p.id = "C01";
  p.isolate = true;
  p.case_timeout_s = 60;
  p.tape_len = 200;
  p.run = run_case;
  p.sweep_count = [](const std::string &tier) { return tier == "thorough" ? 256L + 23 * 20 : 256L + 23 * 2; };
  return p;
}
