// C18 oracle: independent splitters implementing the documented Microsoft
// command-line parsing rules, UTF helpers and the round-trip check through the
// real process_start (process.windows.c compiled on stub headers). Shared by
// the rapidcheck/sweep target and the libFuzzer target.
#pragma once

#include <string>
#include <vector>

#include "winstub/winstub.h"

namespace c18 {

// UTF-16 code units (held in wchar_t) -> UTF-8
inline std::string to_utf8(const wchar_t *w, size_t units)
{
  std::string o;
  for (size_t i = 0; i < units; i++) {
    uint32_t c = (uint32_t) w[i];
    if (c >= 0xD800 && c <= 0xDBFF && i + 1 < units && (uint32_t) w[i + 1] >= 0xDC00 && (uint32_t) w[i + 1] <= 0xDFFF) {
      c = 0x10000 + ((c - 0xD800) << 10) + ((uint32_t) w[i + 1] - 0xDC00);
      i++;
    }
    if (c < 0x80) o += (char) c;
    else if (c < 0x800) {
      o += (char) (0xC0 | (c >> 6));
      o += (char) (0x80 | (c & 0x3F));
    } else if (c < 0x10000) {
      o += (char) (0xE0 | (c >> 12));
      o += (char) (0x80 | ((c >> 6) & 0x3F));
      o += (char) (0x80 | (c & 0x3F));
    } else {
      o += (char) (0xF0 | (c >> 18));
      o += (char) (0x80 | ((c >> 12) & 0x3F));
      o += (char) (0x80 | ((c >> 6) & 0x3F));
      o += (char) (0x80 | (c & 0x3F));
    }
  }
  return o;
}

inline bool valid_utf8(const std::string &s)
{
  size_t i = 0, n = s.size();
  while (i < n) {
    unsigned char c = (unsigned char) s[i];
    size_t len;
    uint32_t cp;
    if (c < 0x80) { i++; continue; }
    else if (c >= 0xC2 && c <= 0xDF) { len = 2; cp = c & 0x1F; }
    else if (c >= 0xE0 && c <= 0xEF) { len = 3; cp = c & 0x0F; }
    else if (c >= 0xF0 && c <= 0xF4) { len = 4; cp = c & 0x07; }
    else return false;
    if (i + len > n) return false;
    for (size_t k = 1; k < len; k++) {
      if (((unsigned char) s[i + k] & 0xC0) != 0x80) return false;
      cp = (cp << 6) | ((unsigned char) s[i + k] & 0x3F);
    }
    if (len == 3 && (cp < 0x800 || (cp >= 0xD800 && cp <= 0xDFFF))) return false;
    if (len == 4 && (cp < 0x10000 || cp > 0x10FFFF)) return false;
    i += len;
  }
  return true;
}

// Splits a command line by the documented rules ("Parsing C++ command-line
// arguments", CommandLineToArgvW remarks):
//  * the program name (first token) ends at the first whitespace, or, if it
//    starts with a quote, at the next quote; backslashes are not special in it;
//  * arguments are separated by spaces/tabs outside quotes;
//  * 2n backslashes followed by a quote -> n backslashes, the quote toggles
//    quoted mode; 2n+1 backslashes followed by a quote -> n backslashes and a
//    literal quote; backslashes not followed by a quote are literal;
//  * inside quotes a pair "" is a literal quote; `stay_in_quotes` selects the
//    post-2008 CRT behaviour (remain quoted) or the older / CommandLineToArgvW
//    behaviour (leave quoted mode).
inline std::vector<std::string> split(const std::string &cl, bool stay_in_quotes)
{
  std::vector<std::string> out;
  size_t i = 0, n = cl.size();
  // program name
  std::string prog;
  if (i < n && cl[i] == '"') {
    i++;
    while (i < n && cl[i] != '"') prog += cl[i++];
    if (i < n) i++;
    // anything glued to the closing quote up to whitespace still belongs to it
    while (i < n && cl[i] != ' ' && cl[i] != '\t') prog += cl[i++];
  } else {
    while (i < n && cl[i] != ' ' && cl[i] != '\t') prog += cl[i++];
  }
  out.push_back(prog);
  for (;;) {
    while (i < n && (cl[i] == ' ' || cl[i] == '\t')) i++;
    if (i >= n) break;
    std::string arg;
    bool quoted = false;
    for (;;) {
      size_t bs = 0;
      while (i < n && cl[i] == '\\') {
        bs++;
        i++;
      }
      if (i < n && cl[i] == '"') {
        arg.append(bs / 2, '\\');
        if (bs % 2 == 1) {
          arg += '"';
          i++;
        } else {
          if (quoted && i + 1 < n && cl[i + 1] == '"') {
            arg += '"';
            i += 2;
            if (!stay_in_quotes) quoted = false;
          } else {
            quoted = !quoted;
            i++;
          }
        }
        continue;
      }
      arg.append(bs, '\\');
      if (i >= n) break;
      if (!quoted && (cl[i] == ' ' || cl[i] == '\t')) break;
      arg += cl[i++];
    }
    out.push_back(arg);
  }
  return out;
}

struct Input {
  std::vector<std::string> argv;       // argv[0] = program token
  bool extend = true;                  // REPROC_ENV_EXTEND
  bool extra_null = false;
  std::vector<std::string> extra;      // UTF-8 NAME=VALUE
  std::vector<std::string> parent;     // UTF-8 entries of the parent block
  int fail_alloc = -1;
};

struct Outcome {
  bool ok = true;
  std::string sig, msg;
  bool started = false;
  int r = 0;
  std::string cmdline;
  void fail(const std::string &s, const std::string &m)
  {
    if (ok) {
      ok = false;
      sig = s;
      msg = m;
    }
  }
};

inline std::wstring widen(const std::string &utf8)
{
  // only used for the parent block: decode to UTF-16 units
  std::wstring w;
  size_t i = 0, n = utf8.size();
  while (i < n) {
    unsigned char c = (unsigned char) utf8[i];
    uint32_t cp;
    size_t len;
    if (c < 0x80) { cp = c; len = 1; }
    else if (c < 0xE0) { cp = c & 0x1F; len = 2; }
    else if (c < 0xF0) { cp = c & 0x0F; len = 3; }
    else { cp = c & 0x07; len = 4; }
    for (size_t k = 1; k < len && i + k < n; k++) cp = (cp << 6) | ((unsigned char) utf8[i + k] & 0x3F);
    i += len;
    if (cp >= 0x10000) {
      cp -= 0x10000;
      w += (wchar_t) (0xD800 + (cp >> 10));
      w += (wchar_t) (0xDC00 + (cp & 0x3FF));
    } else {
      w += (wchar_t) cp;
    }
  }
  return w;
}

// Runs the real process_start on the stub and checks the property.
inline Outcome check(const Input &in)
{
  Outcome o;
  ws_reset();
  std::wstring pblock;
  for (auto &e : in.parent) {
    pblock += widen(e);
    pblock += L'\0';
  }
  pblock += L'\0';
  if (in.parent.empty()) pblock += L'\0';
  ws_set_parent_env(pblock.data(), pblock.size());
  ws_fail_alloc(in.fail_alloc);

  std::vector<const char *> argv;
  for (auto &a : in.argv) argv.push_back(a.c_str());
  argv.push_back(nullptr);
  std::vector<const char *> extra;
  for (auto &e : in.extra) extra.push_back(e.c_str());
  extra.push_back(nullptr);

  o.r = ws_process_start(argv.data(), in.extend ? 0 : 1, in.extra_null ? nullptr : extra.data(), nullptr);
  ws_capture cap = ws_get();

  bool all_valid = true;
  for (auto &a : in.argv) all_valid = all_valid && valid_utf8(a);
  if (!in.extra_null)
    for (auto &e : in.extra) all_valid = all_valid && valid_utf8(e);

  // Injected allocation failures are outside the property's quantifier: those
  // cases only have to stay memory-safe (ASan) and, if a process was created
  // after all, still satisfy the encoding clauses below.
  bool faulted = in.fail_alloc >= 0;
  if (!faulted && cap.live_allocs != 0)
    o.fail("leak", "process_start returned with " + std::to_string(cap.live_allocs) + " of its allocations not released");
  if (!faulted && in.extend && cap.freed_env_strings != 1 && o.r > 0)
    o.fail("env-strings-not-freed", "the block from GetEnvironmentStringsW was not released exactly once");

  if (o.r < 0) {
    // clean rejection is fine when the input cannot be converted
    if (all_valid && !faulted)
      o.fail("spurious-failure", "process_start failed with " + std::to_string(o.r) + " on valid UTF-8 input");
    if (cap.created && !faulted) o.fail("failed-but-created", "process_start reported failure after CreateProcessW succeeded");
    return o;
  }
  if (!cap.created) {
    if (!faulted) o.fail("success-without-create", "process_start reported success without calling CreateProcessW");
    return o;
  }
  o.started = true;
  if (!all_valid) {
    o.fail("invalid-utf8-accepted", "invalid UTF-8 was converted instead of rejected");
    return o;
  }

  // ---- command line round trip -------------------------------------------
  std::string cl = to_utf8(cap.cmdline, cap.cmdline_units - 1);
  o.cmdline = cl;
  for (int variant = 0; variant < 2; variant++) {
    std::vector<std::string> got = split(cl, variant == 0);
    if (got != in.argv) {
      std::string detail = "command line [" + cl + "] splits into " + std::to_string(got.size()) + " tokens, expected " + std::to_string(in.argv.size());
      size_t k = 0;
      while (k < got.size() && k < in.argv.size() && got[k] == in.argv[k]) k++;
      detail += "; first difference at index " + std::to_string(k);
      std::string sig = "roundtrip";
      if (got.size() < in.argv.size()) {
        bool has_empty = false;
        for (size_t j = 1; j < in.argv.size(); j++) has_empty = has_empty || in.argv[j].empty();
        if (has_empty) sig = "roundtrip:empty-argument-lost";
      }
      o.fail(sig, detail);
      break;
    }
  }
  if (cap.cmdline_alloc != 0 && cap.cmdline_alloc != cap.cmdline_units * sizeof(wchar_t))
    o.fail("cmdline-buffer-size", "wide command line buffer: requested " + std::to_string(cap.cmdline_alloc) + " bytes, uses " + std::to_string(cap.cmdline_units * sizeof(wchar_t)));
  // the narrow joined buffer: the freed block whose content is exactly the
  // UTF-8 command line
  for (size_t i = 0; i < cap.nfreed; i++) {
    size_t n = ws_freed_size(i);
    const unsigned char *c = ws_freed_content(i);
    if (n >= cl.size() + 1 && memcmp(c, cl.data(), cl.size()) == 0 && c[cl.size()] == 0 && cl.size() > 0) {
      if (n != cl.size() + 1)
        o.fail("joined-buffer-size", "joined command line buffer: requested " + std::to_string(n) + " bytes, uses " + std::to_string(cl.size() + 1));
      break;
    }
  }

  // ---- environment block ---------------------------------------------------
  if (cap.env_null) {
    o.fail("env-null", "no environment block was passed to CreateProcessW");
    return o;
  }
  std::vector<std::string> want;
  if (in.extend) want = in.parent;
  if (!in.extra_null)
    for (auto &e : in.extra) want.push_back(e);
  std::vector<std::string> gotenv;
  {
    size_t u = 0;
    while (cap.env[u] != L'\0') {
      size_t len = wcslen(cap.env + u);
      gotenv.push_back(to_utf8(cap.env + u, len));
      u += len + 1;
    }
  }
  // an empty entry cannot be represented in a block (it terminates it);
  // generators never produce one.
  if (gotenv != want) {
    std::string d = "environment block has " + std::to_string(gotenv.size()) + " entries, expected " + std::to_string(want.size());
    size_t k = 0;
    while (k < gotenv.size() && k < want.size() && gotenv[k] == want[k]) k++;
    d += "; first difference at entry " + std::to_string(k);
    o.fail("env-block", d);
  }
  if (cap.env_alloc != 0 && cap.env_alloc != cap.env_units * sizeof(wchar_t))
    o.fail("env-buffer-size", "environment block buffer: requested " + std::to_string(cap.env_alloc) + " bytes, uses " + std::to_string(cap.env_units * sizeof(wchar_t)));
  if (!(cap.flags & 0x400)) o.fail("env-not-unicode", "CREATE_UNICODE_ENVIRONMENT not set for a wide environment block");
  return o;
}

}  // namespace c18
