// C03 — launch fidelity: argv, environment, working directory, program
// resolution. Engine R (real clock): every case starts the puppet through the
// real reproc_start and compares the puppet's entry snapshot with what was
// requested.
#include "common/fw.hpp"
#include "common/harness.hpp"
#include "common/ledger.hpp"
#include "vsys/vsys.h"

#include <reproc/reproc.h>

#include <cerrno>
#include <climits>
#include <cstring>
#include <fcntl.h>
#include <sys/stat.h>
#include <unistd.h>

extern char **environ;

using namespace fw;
using namespace hz;

namespace {

std::string gen_bytes(Tape &t, size_t n, int style)
{
  static const char odd[] = " \t\"'\\=\n$;*?~#%&|<>(){}[]`!\r\x01\x7f";
  std::string s;
  s.reserve(n);
  // short strings are drawn word by word (shrinks well); longer ones from a
  // generator seeded by two tape words (still a pure function of the tape)
  uint64_t x = 0;
  bool seeded = n > 8;
  if (seeded) x = ((uint64_t) t.next() << 32 | t.next()) + 0x9E3779B97F4A7C15ull;
  for (size_t i = 0; i < n; i++) {
    uint32_t r;
    if (seeded) {
      x ^= x << 13;
      x ^= x >> 7;
      x ^= x << 17;
      r = (uint32_t) (x >> 20);
    } else {
      r = t.next();
    }
    if (style == 0) s += (char) ('a' + r % 26);
    else if (style == 1) s += (r % 3 == 0) ? odd[(r >> 8) % (sizeof(odd) - 1)] : (char) ('a' + (r >> 8) % 26);
    else s += (char) (1 + (r >> 4) % 255);  // any byte except NUL
  }
  return s;
}

std::string gen_arg(Tape &t, size_t &budget)
{
  size_t n;
  switch (t.weighted({ 3, 10, 4, 1 })) {
    case 0: n = 0; break;
    case 1: n = (size_t) t.range(1, 10); break;
    case 2: n = (size_t) t.range(11, 300); break;
    default: n = (size_t) t.range(1000, 100000); break;
  }
  if (n > budget) n = budget;
  budget -= n;
  if (n > 2000) {
    // long strings: cheap construction, content still varied
    std::string unit = gen_bytes(t, 37, (int) t.pick(3));
    if (unit.empty()) unit = "x";
    std::string s;
    while (s.size() < n) s += unit;
    s.resize(n);
    return s;
  }
  return gen_bytes(t, n, (int) t.pick(3));
}

std::string gen_env_entry(Tape &t, size_t i, size_t &budget)
{
  std::string name;
  switch (t.pick(4)) {
    case 0: name = "VAR" + std::to_string(i); break;
    case 1: name = "HOME"; break;  // may duplicate a parent name
    case 2: name = "X" + gen_bytes(t, (size_t) t.range(1, 6), 0); break;
    default: name = "K" + std::to_string(i % 3); break;  // duplicates among the extras
  }
  size_t cut = name.find('=');
  if (cut != std::string::npos) name = name.substr(0, cut);
  size_t budget_before = budget;
  std::string val = t.chance(1, 5) ? "" : gen_arg(t, budget);
  (void) budget_before;
  if (t.chance(1, 6)) val += "=a=b";
  return name + "=" + val;
}

// Makes one extra entry set a variable whose name equals, or is a proper prefix
// of, the name of a parent entry: the child must still get every parent entry
// followed by every extra entry.
void collide_names(Tape &t, const std::vector<std::string> &parent_env, std::vector<std::string> &extra)
{
  if (parent_env.empty() || extra.empty()) return;
  size_t k = t.pick((uint32_t) extra.size());
  const std::string &pe = parent_env[t.pick((uint32_t) parent_env.size())];
  std::string pname = pe.substr(0, pe.find('='));
  if (pname.empty()) return;
  size_t cut = t.coin() ? pname.size() : 1 + t.pick((uint32_t) pname.size());
  size_t eq = extra[k].find('=');
  extra[k] = pname.substr(0, cut) + (eq == std::string::npos ? "=" : extra[k].substr(eq));
}

bool odd_arg(const std::string &a)
{
  if (a.empty()) return true;
  for (unsigned char c : a)
    if (c <= ' ' || c == '"' || c == '\'' || c == '\\' || c == '=' || c >= 0x80) return true;
  return false;
}

// mkdir + chdir, step by step, until the cwd is `levels` deep below `root`.
bool descend(const std::string &name, int levels)
{
  for (int i = 0; i < levels; i++) {
    if (mkdir(name.c_str(), 0755) != 0 && errno != EEXIST) return false;
    if (chdir(name.c_str()) != 0) return false;
  }
  return true;
}

// One launch. Up to two run in the same process with independently generated
// arguments, environment and directories: nothing remembered from an earlier
// start (a cached environment or working directory, say) may leak into a later
// one.
CaseResult one_round(Tape &t, int round)
{
  CaseResult res;
  vs_reset();
  const std::string root = fw::case_dir() + "/r" + std::to_string(round);
  mkdir(root.c_str(), 0755);
  Puppet pup(root + "/ctl");
  if (!pup.error().empty()) {
    res.inconclusive("puppet setup: " + pup.error());
    return res;
  }

  // ---- generate ---------------------------------------------------------
  size_t budget = 600000;  // bytes for argv + env, well below ARG_MAX
  std::vector<std::string> args;
  size_t nargs = 0;
  switch (t.weighted({ 2, 10, 3, 1 })) {
    case 0: nargs = 0; break;
    case 1: nargs = (size_t) t.range(1, 6); break;
    case 2: nargs = (size_t) t.range(7, 40); break;
    default: nargs = (size_t) t.range(100, 300); break;
  }
  for (size_t i = 0; i < nargs; i++) args.push_back(gen_arg(t, budget));

  bool env_empty = t.chance(1, 3);
  int extra_kind = (int) t.weighted({ 3, 2, 8, 1 });  // NULL, empty list, some, many
  std::vector<std::string> extra;
  size_t nextra = extra_kind <= 1 ? 0 : extra_kind == 2 ? (size_t) t.range(1, 8) : (size_t) t.range(50, 300);
  for (size_t i = 0; i < nextra; i++) extra.push_back(gen_env_entry(t, i, budget));

  std::vector<std::string> parent_env;
  size_t nparent = t.weighted({ 1, 8, 1 }) == 0 ? 0 : (size_t) t.range(1, 12);
  if (t.chance(1, 15)) nparent = (size_t) t.range(50, 200);
  for (size_t i = 0; i < nparent; i++) {
    std::string e = "P" + gen_env_entry(t, i, budget);
    parent_env.push_back(e);
  }
  bool collide = t.chance(1, 3) && !parent_env.empty() && !extra.empty();
  if (collide) collide_names(t, parent_env, extra);

  // program naming: 0 absolute, 1 ./name, 2 sub/dir/name, 3 ../x/name, 4 bare via PATH
  int prog_kind = (int) t.weighted({ 5, 3, 3, 2, 3 });
  // working directory: 0 none, 1 absolute existing, 2 relative existing, 3 deep (long but valid)
  int wd_kind = (int) t.weighted({ 5, 4, 3, 1 });
  // parent cwd depth: 0 shallow, 1 medium (~1000 bytes), 2 near limit (~3900), 3 beyond PATH_MAX
  int depth_kind = (int) t.weighted({ 8, 3, 1, 2 });

  // the bare name needs PATH in the child's environment: the library sets the
  // child's environment before the search, so PATH must be among the
  // inherited entries (extend mode) and not overridden by extras.
  if (prog_kind == 4) {
    env_empty = false;
    for (auto &e : extra)
      if (e.compare(0, 5, "PATH=") == 0) e[0] = 'Q';
  }

  // ---- arrange directories ------------------------------------------------
  std::string base = root + "/w";
  mkdir(base.c_str(), 0755);
  if (chdir(base.c_str()) != 0) {
    res.inconclusive("chdir base");
    return res;
  }
  std::string seg(200, 'd');
  int levels = depth_kind == 0 ? 0 : depth_kind == 1 ? 5 : depth_kind == 2 ? 18 : 24;
  // leave room so that "near limit" stays below PATH_MAX with the program name
  if (!descend(seg, levels)) {
    res.inconclusive("descend");
    return res;
  }
  bool beyond = depth_kind == 3;
  // From here on the parent's cwd is fixed; everything else is relative to it
  // or absolute under `root`.
  struct stat parent_cwd_st;
  stat(".", &parent_cwd_st);

  // program placement
  std::string prog_arg;       // what goes into argv[0]
  std::string expect_exe;     // expected image ("" = do not check the path text)
  std::string decoy_dir;      // where a second puppet with the same relative name is planted
  std::string wd_arg;         // working_directory option
  struct stat wd_st;
  memset(&wd_st, 0, sizeof(wd_st));
  bool have_wd = wd_kind != 0;

  // working directory target
  std::string wd_abs = root + "/wd";
  mkdir(wd_abs.c_str(), 0755);
  if (wd_kind == 3) {
    // deep but valid: go down below wd with relative steps from a forked helper cwd
    int fd = open(".", O_RDONLY | O_DIRECTORY);
    if (chdir(wd_abs.c_str()) == 0 && descend(std::string(120, 'w'), 8)) {
      char buf[PATH_MAX];
      if (getcwd(buf, sizeof(buf))) wd_abs = buf;
    }
    if (fd >= 0) {
      if (fchdir(fd) != 0) {
        res.inconclusive("fchdir back");
        return res;
      }
      close(fd);
    }
  }
  if (wd_kind == 2) {
    // relative to the parent's cwd
    mkdir("relwd", 0755);
    mkdir("relwd/inner", 0755);
    wd_arg = t.coin() ? "relwd/inner" : "./relwd";
    stat(wd_arg.c_str(), &wd_st);
  } else if (have_wd) {
    wd_arg = wd_abs;
    stat(wd_arg.c_str(), &wd_st);
  }

  auto mk_rel_dirs = [&](const std::string &under) {
    mkdir((under + "/sub").c_str(), 0755);
    mkdir((under + "/sub/dir").c_str(), 0755);
  };

  switch (prog_kind) {
    case 0:
      prog_arg = pup.exe();
      expect_exe = pup.exe();
      break;
    case 1:
    case 2:
    case 3: {
      std::string rel = prog_kind == 1 ? "./prog-x" : prog_kind == 2 ? "sub/dir/prog-x" : "../" + std::string(beyond || levels > 0 ? seg : "w") + "/sub/prog-x";
      mk_rel_dirs(".");
      std::string name = "prog-x";
      std::string where = prog_kind == 1 ? "." : prog_kind == 2 ? "sub/dir" : "sub";
      std::string planted = pup.plant(where, name);
      if (planted.empty()) {
        res.inconclusive("plant: " + pup.error());
        return res;
      }
      prog_arg = rel;
      // decoy with the same relative name below the child's working directory
      if (have_wd && wd_kind != 3) {
        std::string wdreal = wd_kind == 2 ? wd_arg : wd_abs;
        mk_rel_dirs(wdreal);
        std::string dwhere = wdreal + (prog_kind == 1 ? "" : prog_kind == 2 ? "/sub/dir" : "/sub");
        if (prog_kind == 3) {
          // ../<seg or w>/sub/prog-x relative to wd: make it resolvable there too
          std::string up = wdreal + "/../" + std::string(beyond || levels > 0 ? seg : "w");
          mkdir(up.c_str(), 0755);
          mkdir((up + "/sub").c_str(), 0755);
          dwhere = up + "/sub";
        }
        // the decoy is a *different file* (a copy, not a link) so that its
        // identity differs
        std::string data = slurp(pup.exe());
        int fd = open((dwhere + "/prog-x").c_str(), O_WRONLY | O_CREAT | O_TRUNC, 0755);
        if (fd >= 0) {
          write_all(fd, data.data(), data.size());
          close(fd);
          if (symlink(pup.dir().c_str(), (dwhere + "/ctl").c_str()) != 0) {
          }
          decoy_dir = dwhere;
        }
      }
      break;
    }
    default: {
      std::string bindir = root + "/bin dir";
      mkdir(bindir.c_str(), 0755);
      std::string planted = pup.plant(bindir, "prog-bare");
      if (planted.empty()) {
        res.inconclusive("plant: " + pup.error());
        return res;
      }
      prog_arg = "prog-bare";
      expect_exe = planted;
      parent_env.insert(parent_env.begin() + (long) t.pick((uint32_t) parent_env.size() + 1), "PATH=/nonexistent-verif:" + bindir);
      break;
    }
  }
  struct stat prog_st;
  memset(&prog_st, 0, sizeof(prog_st));
  bool have_prog_st = stat(prog_kind == 4 ? expect_exe.c_str() : prog_arg.c_str(), &prog_st) == 0;

  // ---- build arguments ------------------------------------------------------
  std::vector<const char *> argv;
  argv.push_back(prog_arg.c_str());
  for (auto &a : args) argv.push_back(a.c_str());
  argv.push_back(nullptr);
  std::vector<const char *> extrav;
  for (auto &e : extra) extrav.push_back(e.c_str());
  extrav.push_back(nullptr);
  std::vector<char *> envv;
  for (auto &e : parent_env) envv.push_back(const_cast<char *>(e.c_str()));
  envv.push_back(nullptr);

  reproc_options opt;
  memset(&opt, 0, sizeof(opt));
  opt.env.behavior = env_empty ? REPROC_ENV_EMPTY : REPROC_ENV_EXTEND;
  opt.env.extra = extra_kind == 0 ? nullptr : extrav.data();
  opt.working_directory = have_wd ? wd_arg.c_str() : nullptr;
  // a short deadline-free default stop policy would wait forever if the puppet
  // misbehaves; give destroy an escape hatch
  opt.stop.first = { REPROC_STOP_WAIT, 2000 };
  opt.stop.second = { REPROC_STOP_KILL, 2000 };

  char **saved_environ = environ;
  environ = envv.data();
  auto fds_before = snapshot_self_fds();
  reproc_t *p = reproc_new();
  int r = reproc_start(p, argv.data(), opt);
  environ = saved_environ;

  // ---- describe ---------------------------------------------------------------
  {
    std::vector<std::string> ja;
    for (size_t i = 0; i < args.size() && i < 6; i++) ja.push_back(jbytes(args[i], 40));
    std::vector<std::string> je;
    for (size_t i = 0; i < extra.size() && i < 4; i++) je.push_back(jbytes(extra[i], 40));
    res.describe = J().kv("prog_kind", prog_kind)
                       .kv("argv0", prog_arg.size() > 80 ? "..." + prog_arg.substr(prog_arg.size() - 60) : prog_arg)
                       .kv("nargs", (unsigned long) args.size())
                       .raw("args_head", jarr(ja))
                       .kv("env_empty", env_empty)
                       .kv("extra_kind", extra_kind)
                       .kv("nextra", (unsigned long) extra.size())
                       .raw("extra_head", jarr(je))
                       .kv("parent_env_entries", (unsigned long) parent_env.size())
                       .kv("wd_kind", wd_kind)
                       .kv("cwd_depth_kind", depth_kind)
                       .kv("decoy", !decoy_dir.empty())
                       .kv("start_result", r)
                       .str();
  }
  bool any_odd = false;
  for (auto &a : args) any_odd = any_odd || odd_arg(a);
  bool rel_with_wd = prog_kind >= 1 && prog_kind <= 3 && have_wd;
  res.nontrivial = any_odd || (!env_empty && !extra.empty()) || rel_with_wd || beyond;
  uint64_t h = 0;
  for (auto &a : args) h = mix(h, fnv(a));
  for (auto &e : extra) h = mix(h, fnv(e));
  h = mix(h, (uint64_t) prog_kind | (uint64_t) wd_kind << 4 | (uint64_t) depth_kind << 8 | (uint64_t) env_empty << 12 | (uint64_t) extra_kind << 13 | (uint64_t) parent_env.size() << 16);
  res.hash = h;
  if (any_odd) res.cls("odd-argument");
  if (!env_empty && !extra.empty()) res.cls("extend-with-extras");
  if (env_empty) res.cls("env-empty");
  if (collide && !env_empty) res.cls("extra-name-collides-with-parent-name");
  if (rel_with_wd) res.cls("relative-program+working-directory");
  if (!decoy_dir.empty()) res.cls("decoy-planted");
  if (beyond) res.cls("cwd-beyond-PATH_MAX");
  if (prog_kind == 4) res.cls("PATH-search");
  if (nargs >= 100) res.cls("many-arguments");

  // ---- judge ---------------------------------------------------------------------
  if (r < 0) {
    if (beyond || (wd_kind == 3) || (depth_kind == 2 && prog_kind != 0)) {
      // beyond (or at) the path-length limit a clean failure is all that is required
      res.cls("clean-failure-long-path");
    } else {
      res.fail("start-failed", std::string("reproc_start failed with ") + std::to_string(r) + " (" + strerror(-r) + ") for a launch that is valid");
    }
    reproc_destroy(p);
  } else {
    if (!pup.wait_ready(10000, reproc_pid(p))) {
      if (beyond && prog_kind != 0 && prog_kind != 4) {
        // started from a path longer than PATH_MAX the image cannot locate its
        // control directory (readlink of /proc/self/exe is truncated): the
        // launch happened, nothing more can be observed.
        res.cls("beyond-PATH_MAX:ran-unobservable");
      } else {
        res.fail("no-hello", "reproc_start reported success but the program did not come up: " + pup.error());
      }
    } else {
      const Hello &hl = pup.hello();
      // argv
      std::vector<std::string> want_argv;
      want_argv.push_back(prog_arg);
      for (auto &a : args) want_argv.push_back(a);
      if (hl.argv != want_argv) {
        size_t k = 0;
        while (k < hl.argv.size() && k < want_argv.size() && hl.argv[k] == want_argv[k]) k++;
        res.fail("argv", "child argv differs: got " + std::to_string(hl.argv.size()) + " strings, want " + std::to_string(want_argv.size()) + ", first difference at index " + std::to_string(k));
      }
      // environment
      std::vector<std::string> want_env;
      if (!env_empty) want_env = parent_env;
      if (extra_kind != 0)
        for (auto &e : extra) want_env.push_back(e);
      if (hl.envp != want_env) {
        size_t k = 0;
        while (k < hl.envp.size() && k < want_env.size() && hl.envp[k] == want_env[k]) k++;
        std::string sig = "env";
        if (!env_empty && hl.envp.size() == want_env.size()) sig = "env:order";
        res.fail(sig, "child environment differs: got " + std::to_string(hl.envp.size()) + " entries, want " + std::to_string(want_env.size()) + " (parent " + std::to_string(env_empty ? 0 : parent_env.size()) + " ++ extra " + std::to_string(extra_kind == 0 ? 0 : extra.size()) + "), first difference at entry " + std::to_string(k));
      }
      // working directory
      const struct stat &want_cwd = have_wd ? wd_st : parent_cwd_st;
      if (hl.cwd_dev != (uint64_t) want_cwd.st_dev || hl.cwd_ino != (uint64_t) want_cwd.st_ino)
        res.fail("cwd", std::string("child runs in a different directory than ") + (have_wd ? "the requested working directory" : "the parent's") + ": " + hl.cwd);
      // which image
      if (have_prog_st) {
        struct stat est;
        if (stat(hl.exe.c_str(), &est) == 0) {
          if (est.st_dev != prog_st.st_dev || est.st_ino != prog_st.st_ino)
            res.fail("program-resolution", "executed image " + hl.exe + " is not the file the program name denotes from the parent's working directory");
        } else if (!beyond) {
          res.inconclusive("cannot stat reported image " + hl.exe);
        }
      }
      if (!decoy_dir.empty() && hl.exe.compare(0, decoy_dir.size(), decoy_dir) == 0)
        res.fail("program-resolution", "the relative program name was resolved against the child's working directory (decoy executed)");
    }
    if (pup.ready()) pup.send(PUP_EXIT, 0);
    else reproc_kill(p);
    int w = reproc_wait(p, 5000);
    if (pup.ready() && w != 0 && res.kind == CaseResult::PASS)
      res.fail("wait", "puppet told to exit(0); reproc_wait returned " + std::to_string(w));
    reproc_destroy(p);
  }
  std::string sig;
  std::string lp = ledger_problems(fds_before, sig);
  if (!lp.empty()) res.fail(sig, "after destroy: " + lp);
  return res;
}

// Fork mode: the child is this very process continuing after reproc_start
// returned 0. Its environment and working directory are what the options say,
// checked by the child itself (it is instrumented like the parent, so a vector
// that was freed or never installed is seen at once).
CaseResult fork_round(Tape &t)
{
  CaseResult res;
  vs_reset();
  const std::string root = fw::case_dir() + "/fork";
  mkdir(root.c_str(), 0755);
  size_t budget = 200000;
  bool env_empty = t.chance(1, 3);
  int extra_kind = (int) t.weighted({ 2, 2, 8 });  // NULL, empty list, some
  std::vector<std::string> extra, parent_env;
  size_t nextra = extra_kind <= 1 ? 0 : (size_t) t.range(1, 8);
  for (size_t i = 0; i < nextra; i++) extra.push_back(gen_env_entry(t, i, budget));
  size_t nparent = (size_t) t.range(0, 12);
  for (size_t i = 0; i < nparent; i++) parent_env.push_back("P" + gen_env_entry(t, i, budget));
  if (t.chance(1, 3)) collide_names(t, parent_env, extra);
  bool have_wd = t.coin();
  std::string wd = root + "/wd";
  mkdir(wd.c_str(), 0755);
  std::vector<const char *> extrav;
  for (auto &e : extra) extrav.push_back(e.c_str());
  extrav.push_back(nullptr);
  std::vector<char *> envv;
  for (auto &e : parent_env) envv.push_back(const_cast<char *>(e.c_str()));
  envv.push_back(nullptr);
  std::vector<std::string> want;
  if (!env_empty) want = parent_env;
  for (auto &e : extra) want.push_back(e);
  reproc_options opt;
  memset(&opt, 0, sizeof(opt));
  opt.fork = true;
  opt.env.behavior = env_empty ? REPROC_ENV_EMPTY : REPROC_ENV_EXTEND;
  opt.env.extra = extra_kind == 0 ? nullptr : extrav.data();
  opt.working_directory = have_wd ? wd.c_str() : nullptr;
  opt.redirect.parent = true;
  opt.stop.first = { REPROC_STOP_WAIT, 5000 };
  opt.stop.second = { REPROC_STOP_KILL, 2000 };
  std::string report = root + "/report";
  struct stat wd_st, cwd_st;
  memset(&wd_st, 0, sizeof(wd_st));
  stat(have_wd ? wd.c_str() : ".", &wd_st);
  char **saved_environ = environ;
  environ = envv.data();
  reproc_t *p = reproc_new();
  fflush(nullptr);
  int r = reproc_start(p, nullptr, opt);
  if (r == 0) {
    // ---- child ----
    std::string bad;
    size_t n = 0;
    for (char **e = environ; e && *e; e++, n++) {
      if (n >= want.size()) {
        bad += "extra entry \"" + std::string(*e).substr(0, 60) + "\"; ";
        break;
      }
      if (want[n] != *e) {
        bad += "entry " + std::to_string(n) + " is \"" + std::string(*e).substr(0, 60) + "\", expected \"" + want[n].substr(0, 60) + "\"; ";
        break;
      }
    }
    if (bad.empty() && n != want.size()) bad += std::to_string(n) + " entries, expected " + std::to_string(want.size()) + "; ";
    // getenv must work on it too
    if (bad.empty() && !want.empty()) {
      std::string name = want.back().substr(0, want.back().find('='));
      bool shadowed = false;
      for (size_t i = 0; i + 1 < want.size(); i++) shadowed = shadowed || want[i].compare(0, name.size() + 1, name + "=") == 0;
      const char *v = getenv(name.c_str());
      if (!shadowed && (!v || want.back().substr(name.size() + 1) != v)) bad += "getenv(\"" + name.substr(0, 40) + "\") does not return the value given; ";
    }
    if (stat(".", &cwd_st) != 0 || cwd_st.st_dev != wd_st.st_dev || cwd_st.st_ino != wd_st.st_ino) bad += have_wd ? "not in the requested working directory; " : "not in the parent's working directory; ";
    reproc_destroy(p);
    int fd = open(report.c_str(), O_WRONLY | O_CREAT | O_TRUNC, 0644);
    if (fd >= 0) {
      std::string line = bad.empty() ? "ok\n" : bad + "\n";
      write_all(fd, line.data(), line.size());
      close(fd);
    }
    _exit(0);
  }
  environ = saved_environ;
  res.describe = J().kv("fork_mode", true).kv("env_empty", env_empty).kv("extra_kind", extra_kind).kv("nextra", (unsigned long) extra.size()).kv("parent_env_entries", (unsigned long) parent_env.size()).kv("working_directory", have_wd).kv("start_result", r).str();
  res.nontrivial = true;
  res.hash = mix(mix(0x666f726b, (uint64_t) env_empty | (uint64_t) extra_kind << 1 | (uint64_t) have_wd << 3), (uint64_t) extra.size() * 100 + parent_env.size());
  res.cls("fork-mode");
  if (r < 0) {
    res.fail("fork-start-failed", "fork-mode start returned " + std::to_string(r));
    reproc_destroy(p);
    return res;
  }
  int st = reproc_wait(p, 20000);
  std::string rep = slurp(report);
  if (st != 0 || rep.empty()) res.fail("fork-child-crashed", "the forked child ended with status " + std::to_string(st) + " without reporting (it reads its environment and working directory first)");
  else if (rep != "ok\n") res.fail(rep.find("working directory") != std::string::npos ? "fork-wrong-working-directory" : "fork-environment-differs", "fork mode (" + std::string(env_empty ? "empty" : "extend") + ", " + std::to_string(extra.size()) + " extras): the child's own view: " + rep);
  reproc_destroy(p);
  return res;
}

CaseResult run_case(Tape &t, long)
{
  vs_init();
  int rounds = t.chance(1, 3) ? 2 : 1;
  CaseResult all;
  std::vector<std::string> descs;
  uint64_t h = 0;
  for (int r = 0; r < rounds; r++) {
    CaseResult one = one_round(t, r);
    descs.push_back(one.describe);
    h = mix(h, one.hash);
    all.nontrivial = all.nontrivial || one.nontrivial;
    for (auto &c : one.classes) all.classes.push_back(c);
    if (one.kind == CaseResult::FAIL) {
      all.fail(one.sig, "launch #" + std::to_string(r + 1) + " of " + std::to_string(rounds) + " in this process: " + one.msg);
      break;
    }
    if (one.kind == CaseResult::INCONCLUSIVE && all.kind == CaseResult::PASS) all.inconclusive(one.msg);
  }
  if (all.kind == CaseResult::PASS && t.chance(1, 5)) {
    CaseResult f = fork_round(t);
    descs.push_back(f.describe);
    h = mix(h, f.hash);
    for (auto &c : f.classes) all.classes.push_back(c);
    all.nontrivial = true;
    if (f.kind == CaseResult::FAIL) all.fail(f.sig, f.msg);
  }
  if (rounds > 1) all.cls("two-launches-in-one-process");
  all.hash = mix(h, (uint64_t) rounds);
  all.describe = J().kv("launches", rounds).raw("rounds", jarr(descs)).str();
  return all;
}

}  // namespace

fw::PropertyDef fw::make_property()
{
  PropertyDef p;
  p.id = "C03";
  p.isolate = true;
  p.case_timeout_s = 40;
  p.tape_len = 2600;
  p.run = run_case;
  return p;
}
