// Engine W2: the Windows build of the whole library (reproc.c + every
// *.windows.c, compiled unmodified with -D_WIN32) running on the in-memory
// Win32 simulator of src/winsim. No real process exists: the test plays the
// child. One source, several binaries: each reports only the verdicts that
// belong to its property, so that a failure is attributed to the right one.
//
//   C10win  each standard stream of the child is the requested object
//           (CreateProcessW's STARTUPINFO against the redirect settings)
//   C11win  the child inherits exactly its three streams and the exit handle
//           (handle list, inherit flags, parent's ends not inheritable)
//   C04w2   start under every single allocation / Win32 / Winsock failure: the
//           injected cause is what start returns, no process is left behind,
//           the handle can be started again; success means a process exists
//   C05win  handles and memory: everything the library creates is closed/freed
//           exactly once by destroy, nothing of the caller's is ever closed -
//           on the same failure paths and after every kind of ending
//   C01win  wait returns the child's exit code (137 after kill, 143 after the
//           console break), the same value ever after
//   C06win  terminate / kill address the child's own process group / handle,
//           exactly once, and nothing is sent once a status has been returned
//   C03win  the command line splits back (documented rules) into exactly the
//           arguments given, the environment block is parent entries then
//           extras, the working directory is the one requested
//   C09win  reported events are within the interests, the count is right, an
//           event means the read does not block, nothing left -> closed-pipe error
//   C17win  non-blocking reads / writes never wait, blocking ones wait only for
//           the child, start-up input is delivered completely or start fails
//   C02win  bytes written by the child arrive exactly once and in order, the
//           closed-stream error only after all data, also across the child's
//           exit (the Windows-only "keep the child's ends open" logic)
#include "common/fw.hpp"

#include "winsim.h"
#include "props/C18_oracle.hpp"

#include <algorithm>
#include <set>

#define _WIN32 1
#include <reproc/drain.h>
#include <reproc/reproc.h>
#undef _WIN32

using namespace fw;

namespace {

enum Cat { CAT_WIRING, CAT_INHERIT, CAT_LEDGER, CAT_IO, CAT_STATUS, CAT_SIGNAL, CAT_START, CAT_LAUNCH, CAT_POLL, CAT_BLOCK };
#if defined(WPROP_C10win)
const Cat kMine = CAT_WIRING;
#elif defined(WPROP_C11win)
const Cat kMine = CAT_INHERIT;
#elif defined(WPROP_C05win)
const Cat kMine = CAT_LEDGER;
#elif defined(WPROP_C04w2)
const Cat kMine = CAT_START;
#elif defined(WPROP_C03win)
const Cat kMine = CAT_LAUNCH;
#elif defined(WPROP_C09win)
const Cat kMine = CAT_POLL;
#elif defined(WPROP_C17win)
const Cat kMine = CAT_BLOCK;
#elif defined(WPROP_C01win)
const Cat kMine = CAT_STATUS;
#elif defined(WPROP_C06win)
const Cat kMine = CAT_SIGNAL;
#else
const Cat kMine = CAT_IO;
#endif

const uint32_t GENERIC_READ_ = 0x80000000u, GENERIC_WRITE_ = 0x40000000u;

enum StdKind { STD_USER, STD_ABSENT, STD_BROKEN };

struct Plan {
  int type[3];          // REPROC_REDIRECT per stream as given (DEFAULT allowed)
  bool sh_parent = false, sh_discard = false;
  bool nonblocking = false;
  int input = -1;       // start-up input size (-1 none)
  int stdk[3];          // what GetStdHandle yields in the parent
  bool std_out_err_same = false;  // stdout and stderr of the parent are one console handle
  bool wd = false;
  int env = 0;          // 0 extend, 1 empty
  int extra_kind = 2;   // 0 NULL, 1 empty list, 2 two entries
  bool closes_extras = false;  // the child closes every inherited handle that is not one of its streams, keeps running, exits later
  // fault
  int fault_kind = 0;   // 0 none, 1 allocation, 2 api
  int alloc_n = 0, api = 0, nth = 0;
  uint32_t error = 0;
  // afterwards
  int out_bytes = 0, err_bytes = 0;
  bool exit_before_read = false;
  uint32_t exit_code = 0;
  int ending = 0;       // 0 child exits by itself, 1 terminate, 2 kill, 3 destroy while running
  std::vector<std::string> args;  // argv[1..]
  bool probe_blocking = false;    // exercise the (non-)blocking behaviour of read / write before the child says anything
};

const uint32_t kErrors[] = { 5, 87, 1450, 10024 /* WSAEMFILE */, 10055 /* WSAENOBUFS */, 10036 /* WSAEINPROGRESS */, 10004 /* WSAEINTR */, 10050 /* WSAENETDOWN */, 8 };
// APIs that reproc_start can reach
const int kStartApis[] = { WA_WSAStartup, WA_WSASocketW, WA_bind, WA_listen, WA_getsockname, WA_getsockopt, WA_connect, WA_accept, WA_shutdown, WA_ioctlsocket,
                           WA_SetHandleInformation, WA_InitializeProcThreadAttributeList, WA_UpdateProcThreadAttribute, WA_CreateProcessW, WA_MultiByteToWideChar,
                           WA_CreateFileW, WA_GetStdHandle, WA_fileno, WA_get_osfhandle };
const int kNumStartApis = (int) (sizeof(kStartApis) / sizeof(kStartApis[0]));

int effective(const Plan &p, int s)
{
  int t = p.type[s];
  if (t != REPROC_REDIRECT_DEFAULT) return t;
  if (p.sh_parent) return REPROC_REDIRECT_PARENT;
  if (p.sh_discard) return REPROC_REDIRECT_DISCARD;
  return s == 2 ? REPROC_REDIRECT_PARENT : REPROC_REDIRECT_PIPE;
}

const char *tname(int t)
{
  static const char *n[] = { "default", "pipe", "parent", "discard", "stdout", "handle", "file", "path" };
  return t >= 0 && t <= 7 ? n[t] : "?";
}

Plan decode(Tape &t, long sweep)
{
  Plan p;
  static const int in_types[] = { REPROC_REDIRECT_DEFAULT, REPROC_REDIRECT_PIPE, REPROC_REDIRECT_PARENT, REPROC_REDIRECT_DISCARD, REPROC_REDIRECT_HANDLE, REPROC_REDIRECT_FILE, REPROC_REDIRECT_PATH };
  static const int err_types[] = { REPROC_REDIRECT_DEFAULT, REPROC_REDIRECT_PIPE, REPROC_REDIRECT_PARENT, REPROC_REDIRECT_DISCARD, REPROC_REDIRECT_HANDLE, REPROC_REDIRECT_FILE, REPROC_REDIRECT_PATH, REPROC_REDIRECT_STDOUT };
  long k = sweep;
  // named regression cases, independent of the tier: 1e9 + (redirect index) * 1000 + (fault index)
  long named_fault = -1;
  if (sweep >= 1000000000L) {
    named_fault = (sweep - 1000000000L) % 1000;
    k = (sweep - 1000000000L) / 1000 % (7 * 7 * 8);
  }
  if (sweep >= 0) {
    p.type[0] = in_types[k % 7];
    k /= 7;
    p.type[1] = in_types[k % 7];
    k /= 7;
    p.type[2] = err_types[k % 8];
    k /= 8;
  } else {
    p.type[0] = in_types[t.pick(7)];
    p.type[1] = in_types[t.pick(7)];
    p.type[2] = err_types[t.pick(8)];
  }
  // only one FILE redirect per case (the simulator knows one FILE)
  int files = 0;
  for (int s = 0; s < 3; s++)
    if (p.type[s] == REPROC_REDIRECT_FILE && files++ > 0) p.type[s] = REPROC_REDIRECT_HANDLE;
  bool all_default = p.type[0] == 0 && p.type[1] == 0 && p.type[2] == 0;
  if (t.chance(1, 4)) {
    // a shorthand: valid together with explicit settings of other streams
    if (t.coin()) p.sh_parent = true;
    else p.sh_discard = true;
  }
  (void) all_default;
  p.nonblocking = t.coin();
  if (effective(p, 0) == REPROC_REDIRECT_PIPE && p.type[0] != REPROC_REDIRECT_PIPE && t.chance(1, 3)) p.input = (int) t.weighted({ 2, 2, 2, 1 }) == 0 ? 0 : (int) t.range(1, 3000);
  else if (effective(p, 0) == REPROC_REDIRECT_PIPE && t.chance(1, 4)) p.input = (int) t.range(0, 3000);
  for (int s = 0; s < 3; s++) p.stdk[s] = (int) t.weighted({ 6, 2, 1 });
  p.std_out_err_same = t.chance(1, 3);
  if (p.std_out_err_same) p.stdk[2] = p.stdk[1];
  p.wd = t.coin();
  p.env = (int) t.pick(2);
  if (sweep >= 0) {
    // sweep: fault dimension enumerated
    long per = 1 + 24 + kNumStartApis * 8 * 2;
    long f = k % per;
    // quick: four passes over the redirect space - one fault-free, three with a fault picked by the index
    if (fw::tier() != "thorough" && k > 0) f = 1 + (long) (mix((uint64_t) sweep, 77) % (uint64_t) (per - 1));
    if (named_fault >= 0) f = named_fault % per;
    if (f == 0) p.fault_kind = 0;
    else if (f <= 24) {
      p.fault_kind = 1;
      p.alloc_n = (int) f - 1;
    } else {
      f -= 25;
      p.fault_kind = 2;
      bool first_error = f % 2 == 0;
      f /= 2;
      p.nth = (int) (f % 8);
      p.api = kStartApis[f / 8];
      // two errors per call and ordinal: ACCESS_DENIED or (odd ordinals) WSAEINPROGRESS, and NO_SYSTEM_RESOURCES
      p.error = kErrors[first_error ? (p.nth % 2 ? 5 : 0) : 2];
    }
  } else {
    p.fault_kind = (int) t.weighted({ 4, 3, 5 });
    p.alloc_n = (int) t.pick(24);
    p.api = kStartApis[t.pick((uint32_t) kNumStartApis)];
    p.nth = (int) t.weighted({ 4, 3, 2, 2, 1, 1, 1, 1, 1, 1 });
    p.error = kErrors[t.pick(9)];
  }
  static const int sizes[] = { 0, 1, 2, 100, 4095, 4096, 4097, 20000, 65536, 70000, 200000 };
  p.out_bytes = sizes[t.pick(11)];
  p.err_bytes = sizes[t.pick(11)];
  p.exit_before_read = t.coin();
  static const uint32_t codes[] = { 0, 1, 3, 255, 256, 0x7fffffffu };
  p.exit_code = codes[t.pick(6)];
  p.ending = (int) t.weighted({ 4, 2, 2, 2 });
  // arguments from an alphabet in which every character matters to the Windows parsing rules
  static const char *alphabet[] = { "a", " ", "\t", "\"", "\\", "\xc3\xa9", "b c", "\\\"", "" };
  size_t na = (size_t) t.weighted({ 2, 3, 3, 2 });
  for (size_t i = 0; i < na; i++) {
    std::string a;
    size_t len = (size_t) t.weighted({ 1, 3, 3, 2, 1 });
    for (size_t k = 0; k < len; k++) a += alphabet[t.pick(9)];
    p.args.push_back(a);
  }
  p.probe_blocking = t.coin();
  p.extra_kind = (int) t.weighted({ 2, 1, 5 });
  p.closes_extras = t.chance(1, 8);
  // start-up input around and beyond the capacity of the pipe
  if (p.input >= 0 && t.chance(1, 4)) {
    static const int big[] = { 65535, 65536, 65537, 70000, 200000 };
    p.input = big[t.pick(5)];
  }
  return p;
}

long sweep_total(const std::string &tier)
{
  long per = 1 + 24 + kNumStartApis * 8 * 2;
  return tier == "thorough" ? 7L * 7 * 8 * per : 7L * 7 * 8 * 4;  // quick: the fault dimension is sampled by the sweep index
}

uint8_t pattern(int stream, size_t off) { return (uint8_t) (1 + (off * 131 + (size_t) stream * 71 + (off >> 8) * 7) % 251); }

struct Verdicts {
  CaseResult *res;
  bool any = false;  // something (of any category) is wrong: the scenario is cut short
  void bad(Cat c, const std::string &sig, const std::string &msg)
  {
    // structural problems (the child does not have what it should) make the rest of the scenario meaningless
    if (c == CAT_WIRING || c == CAT_INHERIT || c == CAT_START) any = true;
    if (c == kMine) {
      res->fail(sig, msg);
      any = true;
    }
  }
};

std::string hx(void *p)
{
  char b[32];
  snprintf(b, sizeof(b), "%p", p);
  return b;
}

// scheduled child actions for waits that let virtual time pass
struct Agenda {
  uint64_t exit_at = UINT64_MAX;
  uint32_t exit_code = 0;
};
Agenda *g_agenda;
uint64_t next_cb() { return g_agenda ? g_agenda->exit_at : UINT64_MAX; }
void fire_cb()
{
  if (g_agenda && g_agenda->exit_at != UINT64_MAX) {
    g_agenda->exit_at = UINT64_MAX;
    wsim_child_exit(g_agenda->exit_code);
  }
}

CaseResult run_case(Tape &t, long sweep)
{
  CaseResult res;
  Verdicts v{ &res };
  Plan p = decode(t, sweep);
  wsim_reset();
  Agenda agenda;
  g_agenda = &agenda;
  wsim_on_time(next_cb, fire_cb);

  // ---- the caller's own objects ------------------------------------------
  void *stdh[3] = { nullptr, nullptr, nullptr };
  static const char *stdn[3] = { "parent's stdin", "parent's stdout", "parent's stderr" };
  for (int s = 0; s < 3; s++) {
    if (s == 2 && p.std_out_err_same) {
      stdh[2] = stdh[1];
    } else if (p.stdk[s] == STD_USER) stdh[s] = wsim_user_handle(stdn[s]);
    else if (p.stdk[s] == STD_ABSENT) stdh[s] = nullptr;
    else stdh[s] = (void *) (intptr_t) -1;
    wsim_set_std_handle(s, stdh[s]);
  }
  void *userh[3] = { nullptr, nullptr, nullptr };
  void *fileh = nullptr;
  FILE *the_file = stdin;  // any FILE * will do: the simulator maps it by identity
  static const char *paths[3] = { "C:\\data\\in put.txt", "out.log", "..\\err \xc3\xa9.log" };
  reproc_options opt;
  memset(&opt, 0, sizeof(opt));
  reproc_redirect *rd[3] = { &opt.redirect.in, &opt.redirect.out, &opt.redirect.err };
  for (int s = 0; s < 3; s++) {
    rd[s]->type = (REPROC_REDIRECT) p.type[s];
    if (p.type[s] == REPROC_REDIRECT_HANDLE) {
      userh[s] = wsim_user_handle(s == 0 ? "user handle for stdin" : s == 1 ? "user handle for stdout" : "user handle for stderr");
      rd[s]->handle = userh[s];
    } else if (p.type[s] == REPROC_REDIRECT_FILE) {
      fileh = wsim_user_handle("handle behind the caller's FILE");
      wsim_set_osfhandle(the_file, fileh);
      rd[s]->file = the_file;
    } else if (p.type[s] == REPROC_REDIRECT_PATH) {
      rd[s]->path = paths[s];
    }
  }
  opt.redirect.parent = p.sh_parent;
  opt.redirect.discard = p.sh_discard;
  opt.nonblocking = p.nonblocking;
  // for "destroy while running": half of the cases rely on the default policy
  // (the child then exits by itself during the wait), half escalate
  if (p.ending == 3 && !p.exit_before_read) opt.stop = { { REPROC_STOP_TERMINATE, 500 }, { REPROC_STOP_KILL, 500 }, { REPROC_STOP_NOOP, 0 } };
  std::vector<uint8_t> input;
  if (p.input >= 0) {
    input.resize((size_t) p.input + 1);
    for (size_t i = 0; i < (size_t) p.input; i++) input[i] = pattern(0, i);
    opt.input.data = input.data();
    opt.input.size = (size_t) p.input;
  }
  const char *extra[] = { "A=1", "B=two words", nullptr };
  const char *no_extra[] = { nullptr };
  opt.env.behavior = p.env == 0 ? REPROC_ENV_EXTEND : REPROC_ENV_EMPTY;
  opt.env.extra = p.extra_kind == 0 ? nullptr : p.extra_kind == 1 ? no_extra : extra;
  if (p.wd) opt.working_directory = "C:\\work dir";
  std::wstring pblock = L"P1=x";
  pblock += L'\0';
  pblock += L"P2=y";
  pblock += L'\0';
  pblock += L'\0';
  wsim_set_parent_env(pblock.data(), pblock.size());
  std::vector<const char *> argvv;
  argvv.push_back("prog.exe");
  for (auto &a : p.args) argvv.push_back(a.c_str());
  argvv.push_back(nullptr);
  const char *const *argv = argvv.data();

  // shorthand + explicit settings may be an invalid combination: the options
  // model of C13 owns that; here only combinations that are valid are run
  bool explicit_any = p.type[0] || p.type[1] || p.type[2];
  if ((p.sh_parent || p.sh_discard) && explicit_any && p.type[0] && p.type[1] && p.type[2]) {
    // every stream explicit: the shorthand is unspecified (K12); drop it
    opt.redirect.parent = opt.redirect.discard = false;
    p.sh_parent = p.sh_discard = false;
  }
  if (p.input >= 0 && effective(p, 0) != REPROC_REDIRECT_PIPE) p.input = -1, opt.input.data = nullptr, opt.input.size = 0;
  if (p.input >= 0 && p.type[0] == REPROC_REDIRECT_PIPE) {
    // start-up input with an explicitly set stdin pipe is read differently by header and property (K12)
    p.input = -1;
    opt.input.data = nullptr;
    opt.input.size = 0;
  }

  std::string eff = std::string(tname(effective(p, 0))) + "/" + tname(effective(p, 1)) + "/" + tname(effective(p, 2));
  static const char *stdkn[] = { "present", "absent", "broken" };
  static const char *endn[] = { "exits by itself", "terminate", "kill", "destroy while running" };
  res.describe = J().kv("redirects", std::string(tname(p.type[0])) + "/" + tname(p.type[1]) + "/" + tname(p.type[2]))
                     .kv("shorthand", p.sh_parent ? "parent" : p.sh_discard ? "discard" : "none")
                     .kv("effective", eff)
                     .kv("parent_std_handles", std::string(stdkn[p.stdk[0]]) + "/" + stdkn[p.stdk[1]] + "/" + stdkn[p.stdk[2]] + (p.std_out_err_same ? " (stdout and stderr the same handle)" : ""))
                     .kv("nonblocking", p.nonblocking)
                     .kv("startup_input", p.input)
                     .kv("fault", p.fault_kind == 0 ? std::string("none") : p.fault_kind == 1 ? "allocation " + std::to_string(p.alloc_n) : std::string(wsim_api_name[p.api]) + " call " + std::to_string(p.nth) + " error " + std::to_string(p.error))
                     .kv("child_writes", std::to_string(p.out_bytes) + "/" + std::to_string(p.err_bytes))
                     .kv("exit_before_read", p.exit_before_read)
                     .kv("ending", endn[p.ending])
                     .kv("exit_code", (unsigned long long) p.exit_code)
                     .raw("args", [&] { std::vector<std::string> v; for (auto &a : p.args) v.push_back(jstr(a)); return jarr(v); }())
                     .kv("probe_blocking", p.probe_blocking)
                     .kv("environment", std::string(p.env == 0 ? "extend" : "empty") + (p.extra_kind == 0 ? ", extras NULL" : p.extra_kind == 1 ? ", extras empty list" : ", two extras"))
                     .str();
  res.hash = mix(mix((uint64_t) p.type[0] * 64 + (uint64_t) p.type[1] * 8 + (uint64_t) p.type[2], (uint64_t) p.sh_parent * 2 + (uint64_t) p.sh_discard + (uint64_t) p.nonblocking * 4 + (uint64_t) (p.input + 1) * 8),
                 mix((uint64_t) p.fault_kind * 1000000 + (uint64_t) p.alloc_n * 10000 + (uint64_t) p.api * 100 + (uint64_t) p.nth, (uint64_t) p.stdk[0] * 9 + (uint64_t) p.stdk[1] * 3 + (uint64_t) p.stdk[2] + (uint64_t) p.out_bytes * 31 + (uint64_t) p.err_bytes * 17 + (uint64_t) p.ending * 7 + p.exit_before_read));

  // ---- start ----------------------------------------------------------------
  reproc_t *proc = reproc_new();
  if (!proc) {
    res.inconclusive("reproc_new failed");
    return res;
  }
  if (p.fault_kind == 1) wsim_fail_alloc(p.alloc_n);
  if (p.fault_kind == 2) wsim_fail_api(p.api, p.nth, p.error);
  int r = reproc_start(proc, argv, opt);
  bool fired = p.fault_kind == 1 ? wsim_allocs() > (unsigned) p.alloc_n : p.fault_kind == 2 ? wsim_api_calls(p.api) > (unsigned) p.nth : false;
  wsim_fail_alloc(-1);
  wsim_fail_api(-1, -1, 0);
  const struct wsim_proc *cp = wsim_proc();
  std::string ctx = "start(" + eff + (p.fault_kind == 0 ? "" : p.fault_kind == 1 ? ", allocation #" + std::to_string(p.alloc_n) + " fails" : std::string(", ") + wsim_api_name[p.api] + " call #" + std::to_string(p.nth) + " fails with " + std::to_string(p.error)) + "): ";
  res.cls(p.fault_kind == 0 ? "fault-free" : p.fault_kind == 1 ? "alloc-fault" : "api-fault");
  if (fired) res.cls("fault-fired");

  // natural failures: a broken std handle that a stream resolves to
  bool natural_fail = false;
  for (int s = 0; s < 3; s++)
    if (effective(p, s) == REPROC_REDIRECT_PARENT && p.stdk[s] == STD_BROKEN) natural_fail = true;

  bool oversized_input = p.input > 65536;
  bool broken_std = natural_fail;
  if (oversized_input) {
    natural_fail = true;
    res.cls("startup-input-beyond-capacity");
    if (wsim_hung()) v.bad(CAT_BLOCK, "start-blocked-on-input", ctx + "start blocked while delivering start-up input larger than the pipe");
    if (r > 0) {
      // accepted: then everything has to arrive (checked below with the other sizes)
      natural_fail = false;
    } else if (!fired && !broken_std && r != REPROC_EWOULDBLOCK) v.bad(CAT_BLOCK, "oversized-input-wrong-error", ctx + "start-up input of " + std::to_string(p.input) + " bytes does not fit the pipe; start returned " + std::to_string(r) + " instead of the would-block error");
  }
  bool started = r > 0;
  if (r == 0) v.bad(CAT_START, "zero-result", ctx + "returned 0");
  if (!started) {
    res.cls("start-failed");
    bool absent_parent = false;
    for (int s = 0; s < 3; s++)
      if (effective(p, s) == REPROC_REDIRECT_PARENT && p.stdk[s] == STD_ABSENT) absent_parent = true;
    if (!fired && !natural_fail && absent_parent) v.bad(CAT_WIRING, "absent-parent-stream-no-fallback", ctx + "a stream is redirected to a parent stream the parent does not have: the child must get the null device, but start failed with " + std::to_string(r));
    if (!fired && !natural_fail) v.bad(CAT_START, "spurious-failure", ctx + "returned " + std::to_string(r) + " although nothing was made to fail");
    if (cp->created && wsim_child_running()) v.bad(CAT_START, "failed-but-created", ctx + "returned " + std::to_string(r) + " although CreateProcessW had succeeded (a process is left behind)");
    if (fired && !natural_fail) {
      int want = p.fault_kind == 1 ? -8 : -(int) p.error;
      // the C runtime calls report through errno, not GetLastError: the library names the cause itself
      if (p.fault_kind == 2 && (p.api == WA_fileno || p.api == WA_get_osfhandle)) want = -6;  // ERROR_INVALID_HANDLE
      if (r != want) v.bad(CAT_START, "wrong-cause", ctx + "returned " + std::to_string(r) + ", the failure injected was " + std::to_string(want));
    }
    // the handle must be restartable (without the fault)
    if (!natural_fail) {
      int r2 = reproc_start(proc, argv, opt);
      if (r2 <= 0) v.bad(CAT_START, "not-restartable", ctx + "failed with " + std::to_string(r) + "; a second start without the fault returned " + std::to_string(r2));
      else {
        started = true;
        res.cls("restarted-after-failure");
      }
      cp = wsim_proc();
    }
  } else {
    res.cls(fired ? "start-succeeded-under-fault" : "start-succeeded");
    if (natural_fail && !oversized_input) v.bad(CAT_WIRING, "broken-std-handle-ignored", ctx + "succeeded although a stream is redirected to a parent stream whose handle cannot be obtained");
  }

  // ---- what the child was given ------------------------------------------------
  void *child_std[3] = { nullptr, nullptr, nullptr };
  bool piped[3] = { false, false, false };
  void *parent_end[3] = { nullptr, nullptr, nullptr };
  if (started) {
    if (!cp->created) v.bad(CAT_START, "success-without-create", ctx + "reported success but CreateProcessW was never called successfully");
    child_std[0] = cp->std_in;
    child_std[1] = cp->std_out;
    child_std[2] = cp->std_err;
    if (!(cp->si_flags & 0x100)) v.bad(CAT_WIRING, "std-handles-not-used", ctx + "STARTF_USESTDHANDLES is not set: the child would not get the requested streams at all");
    for (int s = 0; s < 3; s++) {
      int e = effective(p, s);
      static const char *sn[] = { "stdin", "stdout", "stderr" };
      wsim_hinfo hi;
      bool is_h = wsim_info(child_std[s], &hi) != 0;
      std::string what = std::string(sn[s]) + " (" + tname(e) + "): ";
      auto expect_nul_or_path = [&](const std::string &path) {
        if (!is_h || hi.kind != WK_FILE || !hi.lib_owned) {
          v.bad(CAT_WIRING, "wrong-object", ctx + what + "the child's handle " + hx(child_std[s]) + " is not a file the library opened");
          return;
        }
        if (path != hi.path) v.bad(CAT_WIRING, "wrong-path", ctx + what + "opened \"" + hi.path + "\", expected \"" + path + "\"");
        uint32_t want = s == 0 ? GENERIC_READ_ : GENERIC_WRITE_;
        if (hi.access != want) v.bad(CAT_WIRING, "wrong-direction", ctx + what + "opened with access " + std::to_string(hi.access) + ", expected " + (s == 0 ? "GENERIC_READ" : "GENERIC_WRITE"));
      };
      if (e == REPROC_REDIRECT_PARENT && p.stdk[s] == STD_ABSENT) e = REPROC_REDIRECT_DISCARD;  // documented fallback
      switch (e) {
        case REPROC_REDIRECT_PIPE: {
          piped[s] = true;
          if (!is_h || hi.kind != WK_SOCK || !hi.lib_owned || !hi.connected) {
            v.bad(CAT_WIRING, "wrong-object", ctx + what + "the child's handle " + hx(child_std[s]) + " is not a connected socket the library created");
            break;
          }
          wsim_hinfo pe;
          if (s == 0 && p.input >= 0) {
            // start-up input: delivered and the parent's end closed again by start itself
            wsim_info(hi.peer, &pe);
            bool child_reads = hi.shut_send && !hi.shut_recv;
            if (!child_reads) v.bad(CAT_WIRING, "wrong-direction", ctx + what + "the child was not given the reading end of the pipe");
            if (pe.open) v.bad(CAT_IO, "stdin-left-open-after-input", ctx + what + "start-up input was given but the parent's end of stdin is still open");
            break;
          }
          if (!wsim_info(hi.peer, &pe) || !pe.open) {
            v.bad(CAT_WIRING, "pipe-parent-end-missing", ctx + what + "the other end of the child's pipe is not held open by the parent");
            break;
          }
          parent_end[s] = hi.peer;
          // direction: the reading side has its send direction shut down, the writing side its receive direction
          bool child_reads = hi.shut_send && !hi.shut_recv, child_writes = hi.shut_recv && !hi.shut_send;
          if (s == 0 ? !child_reads : !child_writes) v.bad(CAT_WIRING, "wrong-direction", ctx + what + "the child was given the " + (child_reads ? "reading" : child_writes ? "writing" : "undirected") + " end of the pipe");
          if (pe.inherit) v.bad(CAT_INHERIT, "parent-end-inheritable", ctx + what + "the parent's end of the pipe is inheritable");
          if (!p.fault_kind && pe.nonblocking != (p.nonblocking || (s == 0 && p.input >= 0))) {
            // (start-up input forces non-blocking mode on stdin; the end is closed afterwards anyway)
            if (!(s == 0 && p.input >= 0)) v.bad(CAT_IO, "nonblocking-flag", ctx + what + "the parent's end is " + (pe.nonblocking ? "non-blocking" : "blocking") + ", the nonblocking option is " + (p.nonblocking ? "on" : "off"));
          }
          if (hi.nonblocking) v.bad(CAT_IO, "child-end-nonblocking", ctx + what + "the child's end of the pipe was put in non-blocking mode");
          break;
        }
        case REPROC_REDIRECT_PARENT:
          if (child_std[s] != stdh[s]) v.bad(CAT_WIRING, "wrong-object", ctx + what + "the child's handle is " + hx(child_std[s]) + ", the parent's own is " + hx(stdh[s]));
          break;
        case REPROC_REDIRECT_DISCARD: expect_nul_or_path("NUL"); break;
        case REPROC_REDIRECT_STDOUT:
          if (child_std[2] != child_std[1]) v.bad(CAT_WIRING, "wrong-object", ctx + what + "stderr is " + hx(child_std[2]) + ", the child's stdout is " + hx(child_std[1]));
          break;
        case REPROC_REDIRECT_HANDLE:
          if (child_std[s] != userh[s]) v.bad(CAT_WIRING, "wrong-object", ctx + what + "the child's handle is " + hx(child_std[s]) + ", the handle given is " + hx(userh[s]));
          break;
        case REPROC_REDIRECT_FILE:
          if (child_std[s] != fileh) v.bad(CAT_WIRING, "wrong-object", ctx + what + "the child's handle is " + hx(child_std[s]) + ", the handle behind the FILE is " + hx(fileh));
          break;
        case REPROC_REDIRECT_PATH: expect_nul_or_path(paths[s]); break;
      }
    }
    // ---- inheritance -----------------------------------------------------------
    if (!cp->inherit) v.bad(CAT_INHERIT, "inheritance-off", ctx + "bInheritHandles is FALSE: the child gets none of its streams");
    if (!cp->extended || !(cp->flags & 0x00080000)) v.bad(CAT_INHERIT, "no-handle-list", ctx + "no explicit handle list was passed (EXTENDED_STARTUPINFO_PRESENT / STARTUPINFOEX): the child inherits every inheritable handle of the parent");
    std::set<void *> want;
    for (int s = 0; s < 3; s++) want.insert(child_std[s]);
    std::set<void *> got;
    void *exit_child = nullptr;
    for (int k = 0; k < cp->nlist; k++) {
      got.insert(cp->list[k]);
      if (!cp->list_open[k] || !cp->list_inheritable[k]) v.bad(CAT_INHERIT, "listed-handle-not-inheritable", ctx + "handle " + hx(cp->list[k]) + " in the handle list was " + (cp->list_open[k] ? "not inheritable" : "not open") + " when the process was created");
      if (!want.count(cp->list[k])) {
        if (exit_child) v.bad(CAT_INHERIT, "inherited-extra", ctx + "the handle list holds " + hx(cp->list[k]) + ", which is none of the child's streams nor the exit handle");
        else exit_child = cp->list[k];
      }
    }
    for (void *h : want)
      if (!got.count(h)) v.bad(CAT_INHERIT, "stream-not-inherited", ctx + "the child's stream handle " + hx(h) + " is not in the handle list");
    if ((int) got.size() != cp->nlist) v.bad(CAT_INHERIT, "duplicate-in-handle-list", ctx + "the handle list names a handle twice");
    if (!exit_child) v.bad(CAT_INHERIT, "exit-handle-not-inherited", ctx + "no handle for exit detection is inherited by the child");
    else {
      wsim_hinfo ei, pe;
      if (!wsim_info(exit_child, &ei) || ei.kind != WK_SOCK || !ei.lib_owned || !wsim_info(ei.peer, &pe) || !pe.open) v.bad(CAT_INHERIT, "inherited-extra", ctx + "the extra inherited handle " + hx(exit_child) + " is not one end of a pipe whose other end the parent holds");
      else if (pe.inherit) v.bad(CAT_INHERIT, "parent-end-inheritable", ctx + "the parent's end of the exit pipe is inheritable");
    }
    if (cp->pa_inherit > 0 || cp->ta_inherit > 0) v.bad(CAT_INHERIT, "process-handle-inheritable", ctx + "the new process / thread handles are created inheritable");
    // no handle the library created for itself may be inheritable once start is over
    for (size_t i = 0; i < wsim_handle_count(); i++) {
      wsim_hinfo hi;
      void *h = wsim_handle_at(i);
      wsim_info(h, &hi);
      if (hi.open && hi.lib_owned && hi.inherit && hi.kind != WK_PROCESS && hi.kind != WK_THREAD && !got.count(h)) v.bad(CAT_INHERIT, "stray-inheritable-handle", ctx + "handle " + hx(h) + " (" + (hi.kind == WK_SOCK ? "socket" : hi.path) + ") stays open and inheritable in the parent without being meant for the child: the next process started by anyone inherits it");
    }
    // creation flags the other properties rely on
    if (!(cp->flags & 0x200)) v.bad(CAT_SIGNAL, "no-own-process-group", ctx + "CREATE_NEW_PROCESS_GROUP is missing: CTRL-BREAK would reach other processes");
  }

  // ---- what the program is told: arguments, environment ---------------------------------
  if (started && cp->cmdline) {
    std::string cl = c18::to_utf8(cp->cmdline, wcslen(cp->cmdline));
    std::vector<std::string> want_argv;
    want_argv.push_back("prog.exe");
    for (auto &a : p.args) want_argv.push_back(a);
    for (int variant = 0; variant < 2; variant++) {
      std::vector<std::string> back = c18::split(cl, variant == 1);
      if (back != want_argv) {
        std::string got;
        for (auto &b : back) got += "[" + b + "]";
        v.bad(CAT_LAUNCH, "arguments-differ", ctx + "command line <" + cl + "> splits (" + (variant ? "2008+ C runtime" : "CommandLineToArgvW") + " rules) into " + got + ", not into the arguments given");
        break;
      }
    }
    // environment block: parent entries (when extending) then the extras, each NUL-terminated, a final NUL
    std::vector<std::string> want_env;
    if (p.env == 0) {
      want_env.push_back("P1=x");
      want_env.push_back("P2=y");
    }
    if (p.extra_kind == 2) {
      want_env.push_back("A=1");
      want_env.push_back("B=two words");
    }
    std::vector<std::string> got_env;
    if (cp->env) {
      const wchar_t *e = cp->env;
      while (*e) {
        got_env.push_back(c18::to_utf8(e, wcslen(e)));
        e += wcslen(e) + 1;
      }
    }
    if (got_env != want_env) {
      std::string g;
      for (auto &x : got_env) g += "[" + x + "]";
      v.bad(CAT_LAUNCH, "environment-differs", ctx + "environment " + (p.env == 0 ? "extend" : "empty") + " with " + (p.extra_kind == 0 ? "no extras (NULL)" : p.extra_kind == 1 ? "an empty list of extras" : "two extras") + ": the block holds " + g + (cp->env ? "" : " (no block passed: the child inherits the parent's environment)"));
    }
    if (p.wd ? (!cp->cwd || std::wstring(cp->cwd) != L"C:\\work dir") : cp->cwd != nullptr) v.bad(CAT_LAUNCH, "wrong-working-directory", ctx + "the working directory passed to CreateProcessW is not the one requested");
    if (!(cp->flags & 0x400)) v.bad(CAT_LAUNCH, "no-unicode-environment", ctx + "CREATE_UNICODE_ENVIRONMENT is missing although a UTF-16 block is passed");
  }

  // ---- a child that closes what it did not ask for (the exit handle among it) and keeps running ----
  if (started && !v.any && p.closes_extras) {
    res.nontrivial = true;
    res.cls("child-closed-its-exit-handle");
    wsim_child_close_extras();
    agenda.exit_at = wsim_now() + 900;
    agenda.exit_code = p.exit_code;
    int form = (int) (p.exit_code % 3);
    reproc_stop_actions sa = { { REPROC_STOP_WAIT, 200 }, { REPROC_STOP_NOOP, 0 }, { REPROC_STOP_NOOP, 0 } };
    int st = form == 0 ? reproc_wait(proc, 0) : form == 1 ? reproc_wait(proc, 200) : reproc_stop(proc, sa);
    if (st >= 0 && (wsim_child_running() || (uint32_t) st != p.exit_code)) v.bad(CAT_STATUS, "status-while-running", ctx + "the child closed its inherited handles and kept running; " + (form == 0 ? "wait(0)" : form == 1 ? "wait(200)" : "stop(wait/200)") + " returned status " + std::to_string(st) + (wsim_child_running() ? " while it was still running" : ", it exited with " + std::to_string(p.exit_code)));
    else if (st < 0 && st != REPROC_ETIMEDOUT) v.bad(CAT_STATUS, "wait-error", ctx + "the child closed its inherited handles and kept running; the wait returned " + std::to_string(st));
    if (wsim_child_running()) {
      agenda.exit_at = UINT64_MAX;
      wsim_child_exit(p.exit_code);
    }
    int st2 = reproc_wait(proc, REPROC_INFINITE);
    if (!v.any && st2 != (int) p.exit_code) v.bad(CAT_STATUS, st >= 0 ? "status-changed" : "wrong-status", ctx + "after the child's real end (exit code " + std::to_string(p.exit_code) + ") wait returned " + std::to_string(st2) + (st >= 0 ? "; " + std::to_string(st) + " had been returned before" : ""));
    started = false;  // nothing else is exercised in this scenario; destroy and the ledger follow
    reproc_t *ret0 = reproc_destroy(proc);
    proc = nullptr;
    (void) ret0;
  }

  // ---- life after start -------------------------------------------------------------
  if (started && !v.any) {
    res.nontrivial = true;
    // start-up input reaches the child completely, followed by end-of-file
    if (p.input >= 0) {
      res.cls("startup-input");
      std::vector<uint8_t> got((size_t) p.input + 16);
      size_t n = 0;
      long k;
      while ((k = wsim_child_read(got.data() + n, got.size() - n)) > 0) n += (size_t) k;
      if (k != 0) v.bad(CAT_IO, "stdin-no-eof", ctx + "after start-up input of " + std::to_string(p.input) + " bytes the child does not see end-of-file on stdin");
      if (n != (size_t) p.input) v.bad(CAT_IO, "startup-input-lost", ctx + "start-up input: the child received " + std::to_string(n) + " of " + std::to_string(p.input) + " bytes");
      if (n != (size_t) p.input) v.bad(CAT_BLOCK, "startup-input-truncated", ctx + "start reported success, but of the " + std::to_string(p.input) + " bytes of start-up input the child received " + std::to_string(n) + ": it is neither delivered completely nor did start fail");
      for (size_t i = 0; i < n && i < (size_t) p.input; i++)
        if (got[i] != pattern(0, i)) {
          v.bad(CAT_IO, "startup-input-corrupt", ctx + "start-up input differs at offset " + std::to_string(i));
          break;
        }
    }
    // ---- (non-)blocking behaviour, before the child has said anything --------------------
    if (p.probe_blocking && wsim_child_running()) {
      res.cls("blocking-probe");
      for (int s = 1; s <= 2; s++) {
        if (!piped[s] || (s == 2 && effective(p, 2) == REPROC_REDIRECT_STDOUT)) continue;
        uint8_t b[16];
        if (p.nonblocking) {
          uint64_t t0 = wsim_now();
          int k = reproc_read(proc, s == 1 ? REPROC_STREAM_OUT : REPROC_STREAM_ERR, b, sizeof(b));
          if (wsim_hung() || wsim_now() != t0) v.bad(CAT_BLOCK, "nonblocking-read-waited", ctx + "a non-blocking read with nothing to read waited for the child");
          else if (k != REPROC_EWOULDBLOCK) v.bad(CAT_BLOCK, "nonblocking-read-result", ctx + "a non-blocking read with nothing to read returned " + std::to_string(k) + " instead of the would-block error");
        } else {
          // a blocking read waits until the child writes: the child does so when the wait begins
          static int probe_stream;
          static bool probe_fired;
          probe_stream = s;
          probe_fired = false;
          wsim_on_block([](const char *, void *) -> int {
            if (probe_fired) return 0;
            probe_fired = true;
            uint8_t x[3] = { 0xf1, 0xf2, 0xf3 };
            return wsim_child_write(probe_stream, x, 3) == 3;
          });
          int k = reproc_read(proc, s == 1 ? REPROC_STREAM_OUT : REPROC_STREAM_ERR, b, sizeof(b));
          wsim_on_block(nullptr);
          if (!probe_fired) v.bad(CAT_BLOCK, "blocking-read-did-not-wait", ctx + "a blocking read with nothing to read returned " + std::to_string(k) + " without waiting for the child");
          else if (k != 3 || b[0] != 0xf1 || b[2] != 0xf3 || wsim_hung()) v.bad(CAT_BLOCK, "blocking-read-result", ctx + "a blocking read during which the child wrote 3 bytes returned " + std::to_string(k));
        }
      }
      if (piped[0] && p.input < 0) {
        // flood stdin beyond the capacity of the pipe while the child reads nothing
        std::vector<uint8_t> big(70000);
        for (size_t i = 0; i < big.size(); i++) big[i] = pattern(0, i);
        size_t off = 0;
        static bool drained;
        drained = false;
        static std::vector<uint8_t> *sink;
        std::vector<uint8_t> child_got;
        sink = &child_got;
        auto child_drain = [](const char *, void *) -> int {
          uint8_t tmp[8192];
          long k;
          bool any = false;
          while ((k = wsim_child_read(tmp, sizeof(tmp))) > 0) {
            sink->insert(sink->end(), tmp, tmp + k);
            any = true;
          }
          drained = drained || any;
          return any;
        };
        if (!p.nonblocking) wsim_on_block(child_drain);
        int rounds = 0;
        while (off < big.size() && rounds++ < 100) {
          uint64_t t0 = wsim_now();
          int k = reproc_write(proc, big.data() + off, big.size() - off);
          if (k > 0) off += (size_t) k;
          else if (k == REPROC_EWOULDBLOCK && p.nonblocking) break;
          else {
            v.bad(CAT_BLOCK, "flood-write-result", ctx + "write #" + std::to_string(rounds) + " of a " + std::to_string(big.size()) + "-byte flood returned " + std::to_string(k) + " after " + std::to_string(off) + " bytes");
            break;
          }
          if (p.nonblocking && (wsim_hung() || wsim_now() != t0)) {
            v.bad(CAT_BLOCK, "nonblocking-write-waited", ctx + "a non-blocking write waited for the child");
            break;
          }
        }
        wsim_on_block(nullptr);
        if (p.nonblocking) {
          if (off != 65536) v.bad(CAT_BLOCK, "nonblocking-write-count", ctx + "non-blocking writes accepted " + std::to_string(off) + " bytes before reporting would-block; the pipe holds 65536");
        } else if (off != big.size() || !drained) v.bad(CAT_BLOCK, "blocking-write-incomplete", ctx + "a blocking write of " + std::to_string(big.size()) + " bytes, with a child that reads whenever the writer waits, delivered " + std::to_string(off));
        child_drain(nullptr, nullptr);
        if (child_got.size() != off || !std::equal(child_got.begin(), child_got.end(), big.begin())) v.bad(CAT_IO, "stdin-bytes-differ", ctx + "the child received " + std::to_string(child_got.size()) + " bytes of a flood of which " + std::to_string(off) + " were accepted (or different bytes)");
        reproc_close(proc, REPROC_STREAM_IN);
        uint8_t one;
        if (wsim_child_read(&one, 1) != 0) v.bad(CAT_IO, "stdin-no-eof", ctx + "after reproc_close(stdin) the child does not see end-of-file");
        piped[0] = false;  // done with stdin
        res.cls("stdin-flood");
      }
    }
    // parent writes to stdin
    if (piped[0] && p.input < 0) {
      uint8_t buf[3000];
      for (size_t i = 0; i < sizeof(buf); i++) buf[i] = pattern(0, i);
      int w = reproc_write(proc, buf, sizeof(buf));
      if (w != (int) sizeof(buf)) v.bad(CAT_IO, "write-short", ctx + "reproc_write of 3000 bytes to an empty pipe returned " + std::to_string(w));
      uint8_t back[4000];
      long k = wsim_child_read(back, sizeof(back));
      if (k != w || memcmp(back, buf, (size_t) (k > 0 ? k : 0)) != 0) v.bad(CAT_IO, "stdin-bytes-differ", ctx + "the child read " + std::to_string(k) + " bytes from stdin after a write of " + std::to_string(w) + " (or different bytes)");
      int c = reproc_close(proc, REPROC_STREAM_IN);
      (void) c;
      uint8_t one;
      if (wsim_child_read(&one, 1) != 0) v.bad(CAT_IO, "stdin-no-eof", ctx + "after reproc_close(stdin) the child does not see end-of-file");
    } else if (!piped[0] && effective(p, 0) != REPROC_REDIRECT_PIPE) {
      uint8_t b = 1;
      int w = reproc_write(proc, &b, 1);
      if (w != REPROC_EPIPE) v.bad(CAT_WIRING, "parent-end-without-pipe", ctx + "stdin is not a pipe, yet reproc_write returned " + std::to_string(w) + " instead of the closed-pipe error");
    }
    // the child writes; what does not fit the socket buffer is written as the parent reads
    size_t total[3] = { 0, (size_t) p.out_bytes, (size_t) p.err_bytes }, sent[3] = { 0, 0, 0 }, got[3] = { 0, 0, 0 };
    bool eof[3] = { true, !piped[1], !piped[2] };
    bool out_err_shared = effective(p, 2) == REPROC_REDIRECT_STDOUT;
    if (out_err_shared) total[2] = 0;
    for (int s = 1; s <= 2; s++)
      if (!piped[s]) total[s] = 0;
    auto child_pump = [&]() {
      for (int s = 1; s <= 2; s++) {
        if (!piped[s] || !wsim_child_running()) continue;
        std::vector<uint8_t> chunk;
        while (sent[s] < total[s]) {
          size_t n = std::min<size_t>(8192, total[s] - sent[s]);
          chunk.resize(n);
          for (size_t i = 0; i < n; i++) chunk[i] = pattern(s, sent[s] + i);
          long k = wsim_child_write(s, chunk.data(), n);
          if (k <= 0) break;
          sent[s] += (size_t) k;
        }
      }
    };
    child_pump();
    bool exited = false;
    auto child_ends = [&]() {
      if (exited) return;
      // everything that still fits is written, the rest never will be
      child_pump();
      for (int s = 1; s <= 2; s++) total[s] = sent[s];
      if (p.ending == 0) wsim_child_exit(p.exit_code);
      else if (p.ending == 1) {
        int k = reproc_terminate(proc);
        if (k != 0) v.bad(CAT_SIGNAL, "terminate-failed", ctx + "reproc_terminate on the running child returned " + std::to_string(k));
        if (cp->ctrl_breaks != 1 || cp->last_ctrl_event != 1 || cp->last_ctrl_group != cp->pid) v.bad(CAT_SIGNAL, "terminate-wrong-target", ctx + "terminate sent " + std::to_string(cp->ctrl_breaks) + " console event(s), last one event " + std::to_string(cp->last_ctrl_event) + " to group " + std::to_string(cp->last_ctrl_group) + " (the child's pid is " + std::to_string(cp->pid) + ")");
      } else if (p.ending == 2) {
        int k = reproc_kill(proc);
        if (k != 0) v.bad(CAT_SIGNAL, "kill-failed", ctx + "reproc_kill on the running child returned " + std::to_string(k));
        if (cp->terminates != 1 || cp->last_terminate_handle != cp->process || cp->last_terminate_code != 137) v.bad(CAT_SIGNAL, "kill-wrong-target", ctx + "kill called TerminateProcess " + std::to_string(cp->terminates) + " time(s), last on " + hx(cp->last_terminate_handle) + " with code " + std::to_string(cp->last_terminate_code) + " (the process handle is " + hx(cp->process) + ")");
      }
      exited = !wsim_child_running();
    };
    if (p.ending != 3 && p.exit_before_read) {
      child_ends();
      res.cls("child-gone-before-first-read");
    }
    if (piped[1] || piped[2]) res.cls("output-piped");
    if (total[1] + total[2] > 65536) res.cls("output-exceeds-socket-buffer");
    // a running child is not reported as exited, and a zero-timeout poll does not let time pass
    if (wsim_child_running() && !v.any) {
      reproc_event_source e = { proc, REPROC_EVENT_EXIT, 0x7fff };
      uint64_t t0 = wsim_now();
      int pr = reproc_poll(&e, 1, 0);
      if (pr != 0 || e.events != 0) v.bad(CAT_POLL, "exit-reported-for-running-child", ctx + "a poll for the exit of the running child returned " + std::to_string(pr) + " with events " + std::to_string(e.events));
      if (wsim_now() != t0) v.bad(CAT_POLL, "zero-timeout-poll-waited", ctx + "a poll with timeout 0 let " + std::to_string(wsim_now() - t0) + " ms pass");
      res.cls("exit-poll-on-running-child");
    }
    // read everything through poll + read, the way drain does
    int guard = 0;
    bool dbg = getenv("WSIM_DEBUG") != nullptr;
    while ((!eof[1] || !eof[2]) && !v.any && guard++ < 3000) {
      reproc_event_source src = { proc, (piped[1] && !eof[1] ? REPROC_EVENT_OUT : 0) | (piped[2] && !eof[2] ? REPROC_EVENT_ERR : 0), 0 };
      bool all_sent = sent[1] == total[1] && sent[2] == total[2];
      if (all_sent && !exited && p.ending != 3) {
        // nothing more will come while the child lives: let it end during the poll
        agenda.exit_at = UINT64_MAX;
        child_ends();
      }
      int pr = reproc_poll(&src, 1, all_sent ? 1000 : 0);
      if (dbg && guard < 40) fprintf(stderr, "round %d: interests %d poll=%d events=%d sent %zu/%zu %zu/%zu got %zu %zu eof %d %d exited %d\n", guard, src.interests, pr, src.events, sent[1], total[1], sent[2], total[2], got[1], got[2], eof[1], eof[2], exited);
      if (pr >= 0) {
        if (src.events & ~(src.interests | REPROC_EVENT_DEADLINE)) v.bad(CAT_POLL, "event-not-requested", ctx + "poll reports events " + std::to_string(src.events) + " for interests " + std::to_string(src.interests));
        if (pr != (src.events != 0 ? 1 : 0)) v.bad(CAT_POLL, "poll-count", ctx + "poll returned " + std::to_string(pr) + " with events " + std::to_string(src.events) + " on its single source");
        if (src.events & REPROC_EVENT_DEADLINE) v.bad(CAT_POLL, "deadline-without-deadline", ctx + "poll reports a deadline event for a process without deadline");
      }
      if (pr < 0) {
        if (pr == REPROC_EPIPE) break;
        v.bad(CAT_IO, "poll-error", ctx + "reproc_poll returned " + std::to_string(pr) + " while output was pending");
        break;
      }
      if (pr == 0) {
        if (all_sent && (exited || p.ending == 3)) {
          if (p.ending == 3 && !exited) break;  // the child still runs and has nothing more to say
          v.bad(CAT_IO, "eof-never-reported", ctx + "the child has exited and everything was read, but poll reports nothing for the still open stream(s)");
          break;
        }
        child_pump();
        continue;
      }
      for (int s = 1; s <= 2; s++) {
        if (!(src.events & (s == 1 ? REPROC_EVENT_OUT : REPROC_EVENT_ERR))) continue;
        uint8_t buf[5000];
        int k = reproc_read(proc, s == 1 ? REPROC_STREAM_OUT : REPROC_STREAM_ERR, buf, sizeof(buf));
        if (k > 0) {
          for (int i = 0; i < k; i++)
            if (buf[i] != pattern(s, got[s] + (size_t) i)) {
              v.bad(CAT_IO, "bytes-differ", ctx + std::string(s == 1 ? "stdout" : "stderr") + ": byte at offset " + std::to_string(got[s] + (size_t) i) + " is not what the child wrote there (lost, duplicated or reordered data)");
              break;
            }
          got[s] += (size_t) k;
          if (got[s] > sent[s]) v.bad(CAT_IO, "bytes-invented", ctx + std::string(s == 1 ? "stdout" : "stderr") + ": read " + std::to_string(got[s]) + " bytes, the child wrote " + std::to_string(sent[s]));
        } else if (k == REPROC_EPIPE) {
          eof[s] = true;
          if (got[s] != sent[s]) v.bad(CAT_IO, "epipe-before-all-data", ctx + std::string(s == 1 ? "stdout" : "stderr") + ": the closed-stream error came after " + std::to_string(got[s]) + " of the " + std::to_string(sent[s]) + " bytes the child wrote");
          if (!exited) v.bad(CAT_IO, "epipe-while-child-holds-stream", ctx + std::string(s == 1 ? "stdout" : "stderr") + ": closed-stream error although the child is running and has not closed the stream");
          int again = reproc_read(proc, s == 1 ? REPROC_STREAM_OUT : REPROC_STREAM_ERR, buf, sizeof(buf));
          if (again != REPROC_EPIPE) v.bad(CAT_IO, "epipe-not-sticky", ctx + "a read after the closed-stream error returned " + std::to_string(again));
        } else if (k == REPROC_EWOULDBLOCK && p.nonblocking) {
          v.bad(CAT_POLL, "reported-but-read-would-block", ctx + std::string(s == 1 ? "stdout" : "stderr") + " was reported readable but the read would block");
        } else {
          v.bad(CAT_IO, "read-error", ctx + std::string(s == 1 ? "stdout" : "stderr") + ": reproc_read after a reported event returned " + std::to_string(k));
        }
      }
      child_pump();
    }
    if (eof[1] && eof[2] && (piped[1] || piped[2]) && !v.any) {
      reproc_event_source src = { proc, REPROC_EVENT_OUT | REPROC_EVENT_ERR, 0x7fff };
      int pr = reproc_poll(&src, 1, 0);
      if (pr != REPROC_EPIPE) v.bad(CAT_POLL, "poll-after-all-closed", ctx + "both output streams have reported end-of-stream; a poll for them returned " + std::to_string(pr) + " (events " + std::to_string(src.events) + ") instead of the closed-pipe error");
      reproc_event_source none = { nullptr, REPROC_EVENT_OUT, 0x7fff };
      reproc_event_source two[2] = { none, { proc, REPROC_EVENT_EXIT, 0x7fff } };
      int pr2 = reproc_poll(two, 2, 0);
      if (pr2 >= 0 && (two[0].events != 0 || pr2 != (two[1].events != 0 ? 1 : 0))) v.bad(CAT_POLL, "null-source-reported", ctx + "a source without a process reports events " + std::to_string(two[0].events) + " (poll returned " + std::to_string(pr2) + ")");
      if (exited && pr2 >= 0 && !(two[1].events & REPROC_EVENT_EXIT)) v.bad(CAT_POLL, "exit-not-reported", ctx + "the child has exited but a poll for its exit reports " + std::to_string(two[1].events));
      res.cls("poll-after-eof");
    }
    if (guard >= 3000) v.bad(CAT_IO, "drain-loop-stuck", ctx + "3000 poll/read rounds without reaching end-of-stream");
    for (int s = 1; s <= 2; s++) {
      if (!piped[s]) {
        uint8_t b;
        int k = reproc_read(proc, s == 1 ? REPROC_STREAM_OUT : REPROC_STREAM_ERR, &b, 1);
        if (k != REPROC_EPIPE) v.bad(CAT_WIRING, "parent-end-without-pipe", ctx + std::string(s == 1 ? "stdout" : "stderr") + " is not a pipe, yet reproc_read returned " + std::to_string(k) + " instead of the closed-pipe error");
      } else if (exited && eof[s] && got[s] != sent[s] && !v.any) {
        v.bad(CAT_IO, "data-lost", ctx + std::string(s == 1 ? "stdout" : "stderr") + ": " + std::to_string(sent[s] - got[s]) + " byte(s) the child wrote before it exited were never delivered");
      }
    }
    // ---- the ending ------------------------------------------------------------------------
    if (p.ending != 3) {
      child_ends();
      int st = reproc_wait(proc, 0);
      uint32_t want = p.ending == 0 ? p.exit_code : p.ending == 1 ? 143u : 137u;
      if (st != (int) want) v.bad(CAT_STATUS, "wrong-status", ctx + "the child ended (" + endn[p.ending] + ", exit code " + std::to_string(p.ending == 0 ? p.exit_code : p.ending == 1 ? 3221225786u : 137u) + ") but wait returned " + std::to_string(st) + ", expected " + std::to_string(want));
      int st2 = reproc_wait(proc, REPROC_INFINITE);
      if (st2 != st) v.bad(CAT_STATUS, "status-changed", ctx + "a second wait returned " + std::to_string(st2) + " after " + std::to_string(st));
      int tb = cp->terminates, cb = cp->ctrl_breaks;
      int k1 = reproc_terminate(proc), k2 = reproc_kill(proc);
      if (st >= 0 && (k1 != 0 || k2 != 0 || cp->terminates != tb || cp->ctrl_breaks != cb)) v.bad(CAT_SIGNAL, "signal-after-reap", ctx + "terminate/kill after the status was returned: results " + std::to_string(k1) + "/" + std::to_string(k2) + ", events sent " + std::to_string(cp->ctrl_breaks - cb) + ", TerminateProcess calls " + std::to_string(cp->terminates - tb));
      res.cls(p.ending == 0 ? "child-exits" : p.ending == 1 ? "terminated" : "killed");
    } else {
      res.cls("destroy-while-running");
      // the escalating policy meets a child that ignores CTRL-BREAK in half of the cases
      wsim_child_ctrl_break_mode(p.exit_code & 1 ? 1 : 0);
    }
  }
  if (wsim_hung()) v.bad(CAT_IO, "blocked-forever", ctx + "a call blocked in " + wsim_hung_what() + " with nothing left that could end the wait");

  // ---- destroy: nothing of the library's is left, nothing of the caller's was touched --------
  int ctrl_before = cp->ctrl_breaks, term_before = cp->terminates;
  bool exits_in_time = started && p.ending == 3 && wsim_child_running() && p.exit_before_read;
  if (exits_in_time) {
    // the default policy waits (no deadline: without bound); the child exits by itself 700 ms into that wait
    agenda.exit_at = wsim_now() + 700;
    agenda.exit_code = p.exit_code;
  }
  reproc_t *ret = proc ? reproc_destroy(proc) : nullptr;
  if (exits_in_time && (cp->ctrl_breaks != ctrl_before || cp->terminates != term_before)) v.bad(CAT_SIGNAL, "default-policy-signalled", ctx + "destroy with the default policy sent a console event / TerminateProcess although the child exited by itself while it was waited for");
  if (ret != nullptr) v.bad(CAT_LEDGER, "destroy-returned-non-null", ctx + "reproc_destroy did not return NULL");
  if (started && p.ending == 3 && wsim_child_running()) v.bad(CAT_SIGNAL, "abandoned-running-child", ctx + "destroy returned while the child was still running");
  for (size_t i = 0; i < wsim_handle_count(); i++) {
    wsim_hinfo hi;
    void *h = wsim_handle_at(i);
    wsim_info(h, &hi);
    std::string name = hi.kind == WK_SOCK ? "socket" : hi.kind == WK_FILE ? std::string("file \"") + hi.path + "\"" : hi.kind == WK_PROCESS ? "process handle" : hi.kind == WK_THREAD ? "thread handle" : hi.path;
    if (hi.lib_owned && hi.open) v.bad(CAT_LEDGER, "handle-leak", ctx + "after destroy the library still holds " + name + " " + hx(h));
    if (!hi.lib_owned && (!hi.open || hi.close_count)) v.bad(CAT_LEDGER, "foreign-close", ctx + "the library closed " + name + ", which belongs to the caller");
  }
  for (int i = 0; i < wsim_nviol(); i++) {
    std::string m = wsim_viol(i);
    v.bad(CAT_LEDGER, m.compare(0, 6, "double") == 0 ? "double-close" : m.compare(0, 7, "foreign") == 0 ? "foreign-close" : m.compare(0, 9, "use after") == 0 ? "use-after-close" : "win32-misuse", ctx + m);
  }
  if (wsim_live_allocs() != 0) v.bad(CAT_LEDGER, "memory-leak", ctx + std::to_string(wsim_live_allocs()) + " allocation(s) of the library not released after destroy");
  g_agenda = nullptr;
  return res;
}

}  // namespace

fw::PropertyDef fw::make_property()
{
  PropertyDef p;
  p.id = WPROP_ID;
  p.isolate = false;
  p.tape_len = 64;
  p.run = run_case;
  p.sweep_count = sweep_total;
  return p;
}
