// C06 — only the library's own, still-unreaped child is ever signalled or
// waited for. The observation point is the safety interlock inside the shim's
// kill/waitpid (vsys.c): every target must be the positive pid of a live child
// forked for this handle. Domain: the fault enumeration of start (a start that
// reports success under a fault must refer to a real child) and generated
// histories of terminate / kill / wait / stop / destroy around exit and reap.
#include "common/faultengine.hpp"

using namespace fw;

namespace {

CaseResult judge(const fe::Obs &o, const fe::RunConfig &cfg, const std::string &kind)
{
  CaseResult res;
  res.describe = J().raw("run", fe::obs_json(o)).kv("ops", (unsigned long) cfg.ops.size()).str();
  res.cls(kind);
  if (!o.setup_error.empty()) {
    res.inconclusive("setup: " + o.setup_error);
    return res;
  }
  uint64_t h = (uint64_t) o.scenario;
  bool any_fault = false;
  for (size_t i = 0; i < o.faults.size(); i++) {
    const fe::FaultSpec &f = o.faults[i];
    h = mix(h, (uint64_t) f.side | (uint64_t) f.index << 1 | (uint64_t) f.fn << 12 | (uint64_t) f.err << 20 | (uint64_t) f.kind << 30);
    any_fault = any_fault || (i < o.fired.size() && o.fired[i]);
  }
  bool after_reap_call = false, reaped = false;
  for (auto &hh : o.history) {
    h = mix(h, fnv(hh.substr(0, hh.find('='))));
    bool is_status = (hh.compare(0, 4, "wait") == 0 || hh.compare(0, 4, "stop") == 0) && hh.find("=-") == std::string::npos;
    if (reaped && (hh.compare(0, 9, "terminate") == 0 || hh.compare(0, 4, "kill") == 0 || hh.compare(0, 4, "wait") == 0 || hh.compare(0, 4, "stop") == 0)) after_reap_call = true;
    if (is_status) reaped = true;
  }
  if (o.failed_handle_probed) {
    res.cls("calls-on-failed-handle");
    static const char *nm[] = { "terminate", "kill", "wait(0)", "pid" };
    for (int i = 0; i < 4; i++)
      if (o.failed_handle_results[i] != REPROC_EINVAL)
        res.fail("failed-handle-accepted", std::string("after a failed start (") + std::to_string(o.r) + "), " + nm[i] + " on the handle returned " + std::to_string(o.failed_handle_results[i]) + " instead of the invalid-argument error: the handle refers to no process");
    if (o.failed_handle_signals || o.failed_handle_reaps) res.fail("signal-without-child", "after a failed start the library tried to signal (" + std::to_string(o.failed_handle_signals) + ") or reap (" + std::to_string(o.failed_handle_reaps) + ") although the handle refers to no process");
  }
  res.hash = h;
  res.nontrivial = after_reap_call || (any_fault && o.r > 0) || o.failed_handle_probed;
  if (after_reap_call) res.cls("call-after-reap");
  if (any_fault && o.r > 0) res.cls("start-succeeded-under-fault");
  if (!cfg.ops.empty()) res.cls("generated-history");

  std::string ctx = std::string("scenario ") + fe::scenario_name(o.scenario) + ", faults " + fe::fault_json(o.faults) + ": ";
  for (auto &v : o.vs_violations) {
    if (v.find("kill(") != std::string::npos) res.fail("bad-kill-target", ctx + v);
    else if (v.find("second reap") != std::string::npos) res.fail("second-reap", ctx + v);
    else if (v.find("waitpid(") != std::string::npos) res.fail("bad-wait-target", ctx + v);
  }
  if (o.r > 0) {
    bool pid_is_child = false;
    for (pid_t p : o.forked) pid_is_child = pid_is_child || p == o.pid_after;
    if (o.pid_after <= 0 || !pid_is_child)
      res.fail("running-handle-bad-pid", ctx + "start reported success but the handle refers to pid " + std::to_string(o.pid_after) + ", not to a child it forked");
  }
  if (o.sig_count_after_reap != 0)
    res.fail("signal-after-reap", ctx + "a signal was sent after the child had been reaped");
  // after a successful wait, terminate and kill succeed (0)
  reaped = false;
  for (auto &hh : o.history) {
    if (reaped && (hh == "terminate=0" || hh == "kill=0")) continue;
    if (reaped && (hh.compare(0, 10, "terminate=") == 0 || hh.compare(0, 5, "kill=") == 0))
      res.fail("noop-after-reap-failed", ctx + "after a successful wait, " + hh + " (expected 0)");
    bool is_status = hh.compare(0, 4, "wait") == 0 && hh.find("=-") == std::string::npos;
    if (is_status) reaped = true;
  }
  return res;
}

CaseResult run_case(Tape &t, long sweep)
{
  fe::RunConfig cfg;
  std::string kind;
  fe::SweepTable &tb = fe::table();
  if (!tb.ok) {
    CaseResult r;
    r.inconclusive("fault table: " + tb.error);
    return r;
  }
  if (sweep >= 0) {
    if (!fe::decode_sweep(sweep, t, cfg, fw::case_dir(), kind)) {
      CaseResult r;
      r.cls("beyond-last-fault-point");
      return r;
    }
  } else {
    fe::decode_random(t, cfg, kind);
    if (t.chance(2, 3)) cfg.faults.clear();
    size_t n = (size_t) t.range(2, 12);
    for (size_t i = 0; i < n; i++) {
      fe::Op op;
      // histories over the signalling / waiting operations
      switch (t.weighted({ 5, 4, 4, 4, 3 })) {
        case 0: op.kind = fe::OP_WAIT; op.a = t.coin() ? 0 : (t.coin() ? 15 : 3000); break;
        case 1: op.kind = fe::OP_TERMINATE; break;
        case 2: op.kind = fe::OP_KILL; break;
        case 3: op = fe::gen_op(t); op.kind = fe::OP_STOP; for (int k = 0; k < 3; k++) { op.stop[2 * k] = (int) t.pick(4); op.stop[2 * k + 1] = t.coin() ? 0 : 15; } break;
        default: op.kind = fe::OP_CHILD_EXIT; op.a = (int) t.pick(256); break;
      }
      cfg.ops.push_back(op);
    }
  }
  cfg.parent_signals = fe::ParentSignals();
  fe::Obs o = fe::run(cfg, fw::case_dir());
  return judge(o, cfg, kind);
}

}  // namespace

fw::PropertyDef fw::make_property()
{
  PropertyDef p;
  p.id = "C06";
  p.isolate = true;
  p.case_timeout_s = 60;
  p.tape_len = 200;
  p.run = run_case;
  p.sweep_count = [](const std::string &) { return fe::sweep_total(); };
  p.setup = [] { fe::table(); };
  return p;
}
