// C04 (Windows half) and C01's Windows exit-code mapping, on engine W: the real
// process_start / process_wait of process.windows.c compiled on stub headers,
// with a failure injected at every allocation and every Win32 call it makes,
// one at a time. Outcome oracle as in C04: failure => the negative error that
// was injected, no process created, nothing leaked; success => CreateProcessW
// really happened.
#include "common/fw.hpp"

#include "winstub/winstub.h"

#include <cstring>

using namespace fw;

namespace {

const uint32_t kErrors[] = { 5 /* ACCESS_DENIED */, 87 /* INVALID_PARAMETER */, 1450 /* NO_SYSTEM_RESOURCES */, 2 /* FILE_NOT_FOUND */ };

struct Shape {
  std::vector<std::string> argv;
  bool extend;
  bool extra_null;
  std::vector<std::string> extra;
  bool wd;
};

Shape shape(int k)
{
  Shape s;
  s.argv = { "prog.exe", "arg one", "", "tail\\" };
  s.extend = k != 1;
  s.extra_null = k == 2;
  s.extra = { "A=1", "B=two words" };
  s.wd = k == 0;
  if (k == 3) s.argv = { "p" };
  return s;
}

// sweep: shape (4) x { no fault, alloc 0..9, api 0..4 x nth 0..5 x error 4 }
long sweep_total(const std::string &) { return 4L * (1 + 10 + 5 * 6 * 4) + 64; }

CaseResult run_case(Tape &t, long sweep)
{
  CaseResult res;
  int sk, fault_kind = 0, alloc_n = -1, api = -1, nth = -1;
  uint32_t error = 0;
  long per = 1 + 10 + 5 * 6 * 4;
  if (sweep >= 4 * per) {
    // C01, Windows: exit code mapping of process_wait
    uint32_t codes[] = { 0, 1, 255, 256, 137, 143, 3221225786u, 0x7fffffffu };
    uint32_t code = codes[(sweep - 4 * per) % 8];
    bool fail_wait = (sweep - 4 * per) / 8 == 1, fail_get = (sweep - 4 * per) / 8 == 2;
    ws_reset();
    ws_set_exit_code(code);
    if (fail_wait) ws_fail_api(5, 0, 6);
    if (fail_get) ws_fail_api(6, 0, 6);
    int r = ws_process_wait();
    int want = fail_wait || fail_get ? -6 : code == 3221225786u ? 143 : (int) code;
    res.describe = J().kv("kind", "process_wait").kv("exit_code", (unsigned long long) code).kv("fail_wait", fail_wait).kv("fail_get_exit_code", fail_get).kv("result", r).str();
    res.cls("windows-wait");
    res.hash = 900000 + (uint64_t) sweep;
    res.nontrivial = code != 0;
    if (r != want) res.fail("win-wait-status", "process_wait with exit code " + std::to_string(code) + " returned " + std::to_string(r) + ", expected " + std::to_string(want));
    return res;
  }
  if (sweep >= 0) {
    sk = (int) (sweep / per);
    long k = sweep % per;
    if (k == 0) fault_kind = 0;
    else if (k <= 10) {
      fault_kind = 1;
      alloc_n = (int) k - 1;
    } else {
      k -= 11;
      fault_kind = 2;
      error = kErrors[k % 4];
      k /= 4;
      nth = (int) (k % 6);
      api = (int) (k / 6);
    }
  } else {
    sk = (int) t.pick(4);
    fault_kind = (int) t.pick(3);
    alloc_n = (int) t.pick(10);
    api = (int) t.pick(5);
    nth = (int) t.pick(6);
    error = kErrors[t.pick(4)];
  }
  Shape s = shape(sk);
  ws_reset();
  std::wstring pblock = L"P1=x";
  pblock += L'\0';
  pblock += L"P2=y";
  pblock += L'\0';
  pblock += L'\0';
  ws_set_parent_env(pblock.data(), pblock.size());
  if (fault_kind == 1) ws_fail_alloc(alloc_n);
  if (fault_kind == 2) ws_fail_api(api, nth, error);
  std::vector<const char *> argv, extra;
  for (auto &a : s.argv) argv.push_back(a.c_str());
  argv.push_back(nullptr);
  for (auto &e : s.extra) extra.push_back(e.c_str());
  extra.push_back(nullptr);
  int r = ws_process_start(argv.data(), s.extend ? 0 : 1, s.extra_null ? nullptr : extra.data(), s.wd ? "C:\\work dir" : nullptr);
  ws_capture cap = ws_get();
  static const char *apin[] = { "SetHandleInformation", "InitializeProcThreadAttributeList", "UpdateProcThreadAttribute", "CreateProcessW", "MultiByteToWideChar" };
  res.describe = J().kv("kind", "process_start").kv("shape", sk).kv("fault", fault_kind == 0 ? "none" : fault_kind == 1 ? "allocation " + std::to_string(alloc_n) : std::string(apin[api]) + " call " + std::to_string(nth) + " error " + std::to_string(error)).kv("result", r).kv("created", cap.created).str();
  res.cls("windows-start");
  res.cls(fault_kind == 0 ? "fault-free" : fault_kind == 1 ? "win-alloc-fault" : "win-api-fault");
  res.hash = mix((uint64_t) sk, (uint64_t) fault_kind * 1000000 + (uint64_t) (alloc_n + 1) * 10000 + (uint64_t) (api + 1) * 1000 + (uint64_t) (nth + 1) * 10 + error % 7);
  res.nontrivial = fault_kind != 0;
  std::string ctx = "Windows process_start, " + std::string(fault_kind == 0 ? "no fault" : fault_kind == 1 ? "allocation #" + std::to_string(alloc_n) + " fails" : std::string(apin[api]) + " call #" + std::to_string(nth) + " fails with error " + std::to_string(error)) + ": ";
  if (r > 0) {
    res.cls("start-succeeded");
    if (!cap.created) res.fail("success-without-create", ctx + "returned " + std::to_string(r) + " (success) but CreateProcessW was never called successfully");
  } else if (r < 0) {
    res.cls("start-failed");
    if (cap.created) res.fail("failed-but-created", ctx + "returned " + std::to_string(r) + " although CreateProcessW had succeeded (a process is left behind)");
    if (fault_kind == 0) res.fail("spurious-failure", ctx + "returned " + std::to_string(r));
    if (fault_kind == 1 && r != -8) res.fail("wrong-cause", ctx + "returned " + std::to_string(r) + ", expected -8 (ERROR_NOT_ENOUGH_MEMORY)");
    if (fault_kind == 2 && r != -(int) error) res.fail("wrong-cause", ctx + "returned " + std::to_string(r) + ", expected -" + std::to_string(error));
  } else {
    res.fail("zero-result", ctx + "returned 0");
  }
  if (cap.live_allocs != 0) res.fail("leak", ctx + std::to_string(cap.live_allocs) + " allocation(s) of process_start not released");
  if (cap.attr_lists_live != 0) res.fail("attribute-list-leak", ctx + "an initialised attribute list was not deleted");
  return res;
}

}  // namespace

fw::PropertyDef fw::make_property()
{
  PropertyDef p;
  p.id = "C04";
  p.isolate = false;
  p.tape_len = 16;
  p.run = run_case;
  p.sweep_count = sweep_total;
  return p;
}
