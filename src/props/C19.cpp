// C19 — reproc++ is a faithful mapping of the C API.
// Engine X: reproc++/src/reproc.cpp and the headers, unmodified, linked
// against a recording mock of the C entry points defined in this file.
#include "common/fw.hpp"

#include <reproc++/drain.hpp>
#include <reproc++/reproc.hpp>
#include <reproc++/run.hpp>
#include <reproc/reproc.h>

#include <array>
#include <cerrno>
#include <climits>
#include <deque>
#include <list>
#include <map>
#include <unordered_map>

using namespace fw;

// ------------------------------------------------------------------ mock ----
namespace {

struct Call {
  std::string fn;
  reproc_t *handle = nullptr;
  // start
  bool argv_null = false;
  std::vector<std::string> argv;
  bool argv_terminated = false;
  reproc_options opt{};
  bool extra_null = false;
  std::vector<std::string> extra;
  // others
  int i0 = 0, i1 = 0;
  const void *p0 = nullptr;
  size_t sz = 0;
  reproc_stop_actions stop{};
  std::vector<reproc_event_source> sources;
};

std::vector<Call> g_calls;
int g_ret = 0;                        // what the next mock call returns
std::vector<int> g_poll_events;       // events the mock poll writes back
int g_new_count = 0, g_destroy_count = 0;

}  // namespace

struct reproc_t {
  int id;
};

extern "C" {

const int REPROC_SIGKILL = 128 + 9;
const int REPROC_SIGTERM = 128 + 15;
const int REPROC_INFINITE = -1;
const int REPROC_DEADLINE = -2;

reproc_t *reproc_new(void)
{
  g_new_count++;
  reproc_t *p = new reproc_t;
  p->id = g_new_count;
  return p;
}

reproc_t *reproc_destroy(reproc_t *p)
{
  if (p) {
    g_destroy_count++;
    delete p;
  }
  return nullptr;
}

int reproc_start(reproc_t *process, const char *const *argv, reproc_options options)
{
  Call c;
  c.fn = "start";
  c.handle = process;
  c.opt = options;
  c.argv_null = argv == nullptr;
  if (argv) {
    for (size_t i = 0; argv[i] != nullptr; i++) c.argv.emplace_back(argv[i]);
    c.argv_terminated = true;
  }
  c.extra_null = options.env.extra == nullptr;
  if (options.env.extra) {
    for (size_t i = 0; options.env.extra[i] != nullptr; i++) c.extra.emplace_back(options.env.extra[i]);
  }
  g_calls.push_back(c);
  return g_ret;
}

int reproc_pid(reproc_t *process)
{
  Call c;
  c.fn = "pid";
  c.handle = process;
  g_calls.push_back(c);
  return g_ret;
}

int reproc_poll(reproc_event_source *sources, size_t num_sources, int timeout)
{
  Call c;
  c.fn = "poll";
  c.i0 = timeout;
  c.sz = num_sources;
  for (size_t i = 0; i < num_sources; i++) {
    c.sources.push_back(sources[i]);
    sources[i].events = i < g_poll_events.size() ? g_poll_events[i] : 0;
  }
  g_calls.push_back(c);
  return g_ret;
}

int reproc_read(reproc_t *process, REPROC_STREAM stream, uint8_t *buffer, size_t size)
{
  Call c;
  c.fn = "read";
  c.handle = process;
  c.i0 = (int) stream;
  c.p0 = buffer;
  c.sz = size;
  g_calls.push_back(c);
  return g_ret;
}

int reproc_write(reproc_t *process, const uint8_t *buffer, size_t size)
{
  Call c;
  c.fn = "write";
  c.handle = process;
  c.p0 = buffer;
  c.sz = size;
  g_calls.push_back(c);
  return g_ret;
}

int reproc_close(reproc_t *process, REPROC_STREAM stream)
{
  Call c;
  c.fn = "close";
  c.handle = process;
  c.i0 = (int) stream;
  g_calls.push_back(c);
  return g_ret;
}

int reproc_wait(reproc_t *process, int timeout)
{
  Call c;
  c.fn = "wait";
  c.handle = process;
  c.i0 = timeout;
  g_calls.push_back(c);
  return g_ret;
}

int reproc_terminate(reproc_t *process)
{
  Call c;
  c.fn = "terminate";
  c.handle = process;
  g_calls.push_back(c);
  return g_ret;
}

int reproc_kill(reproc_t *process)
{
  Call c;
  c.fn = "kill";
  c.handle = process;
  g_calls.push_back(c);
  return g_ret;
}

int reproc_stop(reproc_t *process, reproc_stop_actions stop)
{
  Call c;
  c.fn = "stop";
  c.handle = process;
  c.stop = stop;
  g_calls.push_back(c);
  return g_ret;
}

}  // extern "C"

// --------------------------------------------------------------- property ----
namespace {

const int kNamed[5] = { EINVAL, EPIPE, ETIMEDOUT, ENOMEM, EWOULDBLOCK };

int gen_ret(Tape &t)
{
  switch (t.weighted({ 3, 2, 2, 3, 2, 1 })) {
    case 0: return 0;
    case 1: return 1;
    case 2: return (int) t.range(2, 300);
    case 3: return -kNamed[t.pick(5)];
    case 4: return -(int) t.range(1, 200);
    default: return t.coin() ? INT_MAX : 137;
  }
}

std::string gen_string(Tape &t, bool allow_empty = true)
{
  static const char odd[] = " \t\"'\\=\x80\xff\n$";
  size_t n = t.weighted({ 1, 6, 2 }) == 0 ? (allow_empty ? 0 : 1) : (size_t) t.range(1, 12);
  if (t.chance(1, 40)) n = (size_t) t.range(100, 3000);
  std::string s;
  for (size_t i = 0; i < n; i++) {
    if (t.chance(1, 4)) s += odd[t.pick(sizeof(odd) - 1)];
    else s += (char) ('a' + t.pick(26));
  }
  return s;
}

// Checks one std::error_code against the C result r.
bool ec_ok(int r, const std::error_code &ec, std::string &why)
{
  if (r >= 0) {
    if (ec) {
      why = "non-negative C result " + std::to_string(r) + " became error " + ec.message();
      return false;
    }
    return true;
  }
  if (!ec) {
    why = "negative C result " + std::to_string(r) + " became success";
    return false;
  }
  if (ec.value() != -r) {
    why = "C result " + std::to_string(r) + " became error value " + std::to_string(ec.value());
    return false;
  }
  if (ec.category() != std::system_category() && ec.category() != std::generic_category()) {
    why = "unexpected error category";
    return false;
  }
  struct {
    int e;
    std::errc c;
  } named[] = { { EINVAL, std::errc::invalid_argument },
                { EPIPE, std::errc::broken_pipe },
                { ETIMEDOUT, std::errc::timed_out },
                { ENOMEM, std::errc::not_enough_memory },
                { EWOULDBLOCK, std::errc::operation_would_block } };
  for (auto &n : named) {
    if (-r == n.e && !(ec == n.c)) {
      why = "C error " + std::to_string(r) + " is not equivalent to the matching std::errc";
      return false;
    }
  }
  return true;
}

struct Sentinels {
  // distinct, never dereferenced
  std::vector<std::string> paths;
  FILE *file(int i) { return reinterpret_cast<FILE *>(uintptr_t(0x10000 + 64 * i)); }
};

}  // namespace

static CaseResult run_case(Tape &t, long)
{
  CaseResult res;
  g_calls.clear();
  uint64_t h = 0;
  int nondefault = 0;
  bool negative_ret = false;
  std::vector<std::string> desc;

#define FAIL(sig, m)                                                           \
  do {                                                                         \
    res.fail(sig, m);                                                          \
    goto done;                                                                 \
  } while (0)

  {
    // ---- constants and enumerators -------------------------------------
    struct {
      const char *name;
      long long cxx, c;
    } table[] = {
      { "stop::noop", (long long) reproc::stop::noop, REPROC_STOP_NOOP },
      { "stop::wait", (long long) reproc::stop::wait, REPROC_STOP_WAIT },
      { "stop::terminate", (long long) reproc::stop::terminate, REPROC_STOP_TERMINATE },
      { "stop::kill", (long long) reproc::stop::kill, REPROC_STOP_KILL },
      { "redirect::default_", reproc::redirect::default_, REPROC_REDIRECT_DEFAULT },
      { "redirect::pipe", reproc::redirect::pipe, REPROC_REDIRECT_PIPE },
      { "redirect::parent", reproc::redirect::parent, REPROC_REDIRECT_PARENT },
      { "redirect::discard", reproc::redirect::discard, REPROC_REDIRECT_DISCARD },
      { "redirect::stdout_", reproc::redirect::stdout_, REPROC_REDIRECT_STDOUT },
      { "redirect::handle_", reproc::redirect::handle_, REPROC_REDIRECT_HANDLE },
      { "redirect::file_", reproc::redirect::file_, REPROC_REDIRECT_FILE },
      { "redirect::path_", reproc::redirect::path_, REPROC_REDIRECT_PATH },
      { "env::extend", reproc::env::extend, REPROC_ENV_EXTEND },
      { "env::empty", reproc::env::empty, REPROC_ENV_EMPTY },
      { "stream::in", (long long) reproc::stream::in, REPROC_STREAM_IN },
      { "stream::out", (long long) reproc::stream::out, REPROC_STREAM_OUT },
      { "stream::err", (long long) reproc::stream::err, REPROC_STREAM_ERR },
      { "event::in", reproc::event::in, REPROC_EVENT_IN },
      { "event::out", reproc::event::out, REPROC_EVENT_OUT },
      { "event::err", reproc::event::err, REPROC_EVENT_ERR },
      { "event::exit", reproc::event::exit, REPROC_EVENT_EXIT },
      { "event::deadline", reproc::event::deadline, REPROC_EVENT_DEADLINE },
      { "infinite", reproc::infinite.count(), REPROC_INFINITE },
      { "deadline", reproc::deadline.count(), REPROC_DEADLINE },
      { "signal::kill", reproc::signal::kill, REPROC_SIGKILL },
      { "signal::terminate", reproc::signal::terminate, REPROC_SIGTERM },
    };
    for (auto &e : table) {
      if (e.cxx != e.c) FAIL(std::string("const:") + e.name, std::string("C++ constant ") + e.name + " = " + std::to_string(e.cxx) + " differs from its C counterpart " + std::to_string(e.c));
    }

    // ---- options ----------------------------------------------------------
    Sentinels sn;
    for (int i = 0; i < 8; i++) sn.paths.push_back("path-sentinel-" + std::to_string(i));
    reproc::options o;
    auto b = [&](bool &field) {
      field = t.coin();
      if (field) nondefault++;
    };
    o.env.behavior = t.coin() ? reproc::env::empty : reproc::env::extend;
    if (o.env.behavior != reproc::env::extend) nondefault++;

    // env.extra from a generated container kind
    std::vector<std::pair<std::string, std::string>> pairs;
    size_t npairs = t.weighted({ 2, 5, 1 }) == 0 ? 0 : (size_t) t.range(1, 6);
    if (t.chance(1, 30)) npairs = (size_t) t.range(50, 200);
    for (size_t i = 0; i < npairs; i++) pairs.emplace_back("N" + std::to_string(i) + gen_string(t), gen_string(t));
    int env_kind = (int) t.pick(5);
    std::vector<std::string> want_extra;
    bool want_extra_null = false;
    std::vector<const char *> raw_env;
    std::vector<std::string> raw_env_store;
    std::map<std::string, std::string> m;
    std::unordered_map<std::string, std::string> um;
    // One case in three first gives env.extra another value - a borrowed raw
    // array or a container-built one - so that the assignment below replaces
    // an existing value (ownership of the old array must follow its kind).
    // Chosen from values already drawn: the tape positions of everything else stay put.
    static const char *const pre_raw[] = { "PRE=1", "PRE2=two words", nullptr };
    uint64_t pre_h = mix(fnv(pairs.empty() ? std::string("-") : pairs[0].first), (uint64_t) npairs * 5 + (uint64_t) env_kind);
    int pre_kind = pre_h % 3 == 0 ? 1 + (int) (pre_h / 3 % 2) : 0;
    if (pre_kind == 1) o.env.extra = reproc::env(pre_raw);
    else if (pre_kind == 2) o.env.extra = reproc::env(std::vector<std::pair<std::string, std::string>>{ { "PRE", "1" }, { "PRE2", "x" } });
    switch (env_kind) {
      case 0:  // default constructed: nullptr
        if (pre_kind) o.env.extra = reproc::env();
        want_extra_null = true;
        break;
      case 1:
        o.env.extra = reproc::env(pairs);
        for (auto &p : pairs) want_extra.push_back(p.first + "=" + p.second);
        break;
      case 2:
        for (auto &p : pairs) m[p.first] = p.second;
        o.env.extra = reproc::env(m);
        for (auto &p : m) want_extra.push_back(p.first + "=" + p.second);
        break;
      case 3:
        for (auto &p : pairs) um[p.first] = p.second;
        o.env.extra = reproc::env(um);
        for (auto &p : um) want_extra.push_back(p.first + "=" + p.second);
        break;
      default:
        for (auto &p : pairs) raw_env_store.push_back(p.first + "=" + p.second);
        for (auto &s : raw_env_store) raw_env.push_back(s.c_str());
        raw_env.push_back(nullptr);
        o.env.extra = reproc::env(raw_env.data());
        want_extra = raw_env_store;
        break;
    }

    o.working_directory = t.coin() ? sn.paths[0].c_str() : nullptr;
    reproc::redirect *rs[3] = { &o.redirect.in, &o.redirect.out, &o.redirect.err };
    for (int i = 0; i < 3; i++) {
      rs[i]->type = (enum reproc::redirect::type) t.pick(8);
      if (rs[i]->type) nondefault++;
      rs[i]->handle = t.coin() ? 1000 + 7 * i + (int) t.pick(5) : 0;
      rs[i]->file = t.coin() ? sn.file(i) : nullptr;
      rs[i]->path = t.coin() ? sn.paths[1 + i].c_str() : nullptr;
    }
    b(o.redirect.parent);
    b(o.redirect.discard);
    o.redirect.file = t.coin() ? sn.file(5) : nullptr;
    o.redirect.path = t.coin() ? sn.paths[5].c_str() : nullptr;
    reproc::stop_action *sa[3] = { &o.stop.first, &o.stop.second, &o.stop.third };
    for (int i = 0; i < 3; i++) {
      sa[i]->action = (reproc::stop) t.pick(4);
      if ((int) sa[i]->action) nondefault++;
      switch (t.pick(4)) {
        case 0: sa[i]->timeout = reproc::infinite; break;
        case 1: sa[i]->timeout = reproc::deadline; break;
        case 2: sa[i]->timeout = reproc::milliseconds(0); break;
        default: sa[i]->timeout = reproc::milliseconds((int) t.range(1, 100000) * 3 + i); break;
      }
    }
    o.deadline = reproc::milliseconds(t.coin() ? 0 : (int) t.range(1, INT_MAX));
    o.timeout = reproc::milliseconds((int) t.range(0, 1000));
    static const uint8_t inbuf[16] = { 1, 2, 3 };
    size_t in_size = 0;
    const uint8_t *in_data = nullptr;
    if (t.coin()) {
      in_data = inbuf + t.pick(4);
      in_size = (size_t) t.range(0, 1 << 20);
      o.input = reproc::input(in_data, in_size);
    }
    b(o.nonblocking);

    // ---- arguments ----------------------------------------------------------
    std::vector<std::string> args;
    size_t nargs = (size_t) t.range(1, 6);
    if (t.chance(1, 30)) nargs = (size_t) t.range(50, 200);
    for (size_t i = 0; i < nargs; i++) args.push_back(gen_string(t));
    int arg_kind = (int) t.pick(5);

    bool use_fork = t.chance(1, 4);
    bool use_clone = t.chance(1, 3);
    g_ret = gen_ret(t);
    if (g_ret < 0) negative_ret = true;
    int r_start = g_ret;

    h = mix(h, (uint64_t) env_kind * 8 + (uint64_t) arg_kind);
    h = mix(h, (uint64_t) o.redirect.in.type | (uint64_t) o.redirect.out.type << 4 | (uint64_t) o.redirect.err.type << 8 |
                   (uint64_t) o.redirect.parent << 12 | (uint64_t) o.redirect.discard << 13 | (uint64_t) o.nonblocking << 14 |
                   (uint64_t) use_fork << 15 | (uint64_t) use_clone << 16 | (uint64_t) o.env.behavior << 17 |
                   (uint64_t) o.stop.first.action << 18 | (uint64_t) o.stop.second.action << 20 | (uint64_t) o.stop.third.action << 22);
    h = mix(h, (uint64_t) (r_start < 0 ? r_start : (r_start > 1 ? 2 : r_start)));

    desc.push_back(J().kv("op", use_fork ? "fork" : "start")
                       .kv("via_clone", use_clone)
                       .kv("env_container", env_kind)
                       .kv("env_assigned_over", pre_kind == 0 ? "nothing" : pre_kind == 1 ? "a borrowed raw array" : "a container-built array")
                       .kv("args_container", arg_kind)
                       .kv("nargs", (unsigned long) nargs)
                       .kv("nenv", (unsigned long) want_extra.size())
                       .kv("in_type", (int) o.redirect.in.type)
                       .kv("out_type", (int) o.redirect.out.type)
                       .kv("err_type", (int) o.redirect.err.type)
                       .kv("parent", o.redirect.parent)
                       .kv("discard", o.redirect.discard)
                       .kv("nonblocking", o.nonblocking)
                       .kv("deadline", o.deadline.count())
                       .kv("mock_return", r_start)
                       .str());

    reproc::process proc;
    reproc_options want{};
    want.working_directory = o.working_directory;
    want.env.behavior = (REPROC_ENV) o.env.behavior;
    for (int i = 0; i < 3; i++) {
      reproc_redirect *wr = i == 0 ? &want.redirect.in : i == 1 ? &want.redirect.out : &want.redirect.err;
      wr->type = (REPROC_REDIRECT) rs[i]->type;
      wr->handle = rs[i]->handle;
      wr->file = rs[i]->file;
      wr->path = rs[i]->path;
    }
    want.redirect.parent = o.redirect.parent;
    want.redirect.discard = o.redirect.discard;
    want.redirect.file = o.redirect.file;
    want.redirect.path = o.redirect.path;
    want.stop.first = { (REPROC_STOP) o.stop.first.action, o.stop.first.timeout.count() };
    want.stop.second = { (REPROC_STOP) o.stop.second.action, o.stop.second.timeout.count() };
    want.stop.third = { (REPROC_STOP) o.stop.third.action, o.stop.third.timeout.count() };
    want.deadline = o.deadline.count();
    want.input.data = in_data;
    want.input.size = in_size;
    want.nonblocking = o.nonblocking;
    want.fork = use_fork;

    reproc::options cloned = reproc::options::clone(o);
    const reproc::options &used = use_clone ? cloned : o;

    std::error_code ec;
    bool fork_first = false;
    if (use_fork) {
      auto pr = proc.fork(used);
      fork_first = pr.first;
      ec = pr.second;
    } else {
      switch (arg_kind) {
        case 0: ec = proc.start(reproc::arguments(args), used); break;
        case 1: {
          std::list<std::string> l(args.begin(), args.end());
          ec = proc.start(reproc::arguments(l), used);
          break;
        }
        case 2: {
          std::deque<std::string> d(args.begin(), args.end());
          ec = proc.start(reproc::arguments(d), used);
          break;
        }
        case 3: {
          std::array<std::string, 3> a3;
          args.resize(3);
          for (int i = 0; i < 3; i++) a3[i] = args[i];
          ec = proc.start(reproc::arguments(a3), used);
          break;
        }
        default: {
          std::vector<const char *> raw;
          for (auto &s : args) raw.push_back(s.c_str());
          raw.push_back(nullptr);
          ec = proc.start(reproc::arguments(raw.data()), used);
          break;
        }
      }
    }

    if (g_calls.size() != 1 || g_calls[0].fn != "start")
      FAIL("start:not-forwarded", "start/fork did not result in exactly one reproc_start call");
    const Call c = g_calls[0];
    std::string why;
    if (!ec_ok(r_start, ec, why)) FAIL("ret:start", "start: " + why);
    if (use_fork && fork_first != (r_start == 0))
      FAIL("ret:fork-first", "fork(): first component does not equal (C result == 0)");

    std::string pfx = use_clone ? "clone:" : "opt:";
#define CMP(field, sig)                                                        \
  if (!(c.opt.field == want.field))                                             \
  FAIL(pfx + sig, std::string(use_clone ? "after options::clone, " : "") + "options field " sig " did not reach the C layer unchanged")
    CMP(working_directory, "working_directory");
    CMP(env.behavior, "env.behavior");
    CMP(redirect.in.type, "redirect.in.type");
    CMP(redirect.in.handle, "redirect.in.handle");
    CMP(redirect.in.file, "redirect.in.file");
    CMP(redirect.in.path, "redirect.in.path");
    CMP(redirect.out.type, "redirect.out.type");
    CMP(redirect.out.handle, "redirect.out.handle");
    CMP(redirect.out.file, "redirect.out.file");
    CMP(redirect.out.path, "redirect.out.path");
    CMP(redirect.err.type, "redirect.err.type");
    CMP(redirect.err.handle, "redirect.err.handle");
    CMP(redirect.err.file, "redirect.err.file");
    CMP(redirect.err.path, "redirect.err.path");
    CMP(redirect.parent, "redirect.parent");
    CMP(redirect.discard, "redirect.discard");
    CMP(redirect.file, "redirect.file");
    CMP(redirect.path, "redirect.path");
    CMP(stop.first.action, "stop.first.action");
    CMP(stop.first.timeout, "stop.first.timeout");
    CMP(stop.second.action, "stop.second.action");
    CMP(stop.second.timeout, "stop.second.timeout");
    CMP(stop.third.action, "stop.third.action");
    CMP(stop.third.timeout, "stop.third.timeout");
    CMP(deadline, "deadline");
    CMP(input.data, "input.data");
    CMP(input.size, "input.size");
    CMP(nonblocking, "nonblocking");
    CMP(fork, "fork");
#undef CMP
    if (want_extra_null) {
      if (!c.extra_null) FAIL(pfx + "env.extra", "default-constructed env.extra did not arrive as NULL");
    } else {
      if (c.extra_null) FAIL(pfx + "env.extra", "env.extra arrived as NULL");
      if (c.extra != want_extra) FAIL(pfx + "env.extra", "env.extra strings differ from the container's NAME=VALUE entries");
    }
    if (use_fork) {
      if (!c.argv_null) FAIL("args:fork-argv", "fork() passed a non-NULL argv");
    } else {
      if (c.argv_null) FAIL("args:null", "start() passed a NULL argv");
      if (c.argv != args) FAIL("args:content", "argv strings differ from the container's content");
    }

    // ---- wrapper methods ----------------------------------------------------
    size_t nops = (size_t) t.range(0, 6);
    static uint8_t iobuf[64];
    for (size_t k = 0; k < nops; k++) {
      g_calls.clear();
      g_ret = gen_ret(t);
      if (g_ret < 0) negative_ret = true;
      int r = g_ret;
      int op = (int) t.pick(10);
      {
        static const char *names[] = { "pid", "read", "write", "close", "wait", "terminate", "kill", "stop", "poll(member)", "poll(free)" };
        desc.push_back(J().kv("op", names[op]).kv("mock_return", r).str());
      }
      h = mix(h, (uint64_t) op * 16 + (uint64_t) (r < 0 ? 1 : r == 0 ? 2 : 3));
      std::string why2;
      std::string opn;
      switch (op) {
        case 0: {
          opn = "pid";
          auto p = proc.pid();
          if (g_calls.size() != 1 || g_calls[0].fn != "pid") FAIL("call:pid", "pid() not forwarded");
          if (!ec_ok(r, p.second, why2)) FAIL("ret:pid", "pid: " + why2);
          if (p.first != r) FAIL("ret:pid-value", "pid(): value component differs from the C result");
          break;
        }
        case 1: {
          opn = "read";
          auto s = (reproc::stream) t.pick(3);
          size_t n = (size_t) t.range(0, 64);
          auto p = proc.read(s, iobuf + 1, n);
          if (g_calls.size() != 1 || g_calls[0].fn != "read") FAIL("call:read", "read() not forwarded");
          if (g_calls[0].i0 != (int) s || g_calls[0].p0 != iobuf + 1 || g_calls[0].sz != n)
            FAIL("arg:read", "read(): stream/buffer/size did not reach the C layer unchanged");
          if (!ec_ok(r, p.second, why2)) FAIL("ret:read", "read: " + why2);
          if (r >= 0 && p.first != (size_t) r) FAIL("ret:read-value", "read(): byte count differs from the C result");
          break;
        }
        case 2: {
          opn = "write";
          size_t n = (size_t) t.range(0, 64);
          auto p = proc.write(iobuf + 2, n);
          if (g_calls.size() != 1 || g_calls[0].fn != "write") FAIL("call:write", "write() not forwarded");
          if (g_calls[0].p0 != iobuf + 2 || g_calls[0].sz != n) FAIL("arg:write", "write(): buffer/size did not reach the C layer unchanged");
          if (!ec_ok(r, p.second, why2)) FAIL("ret:write", "write: " + why2);
          if (r >= 0 && p.first != (size_t) r) FAIL("ret:write-value", "write(): byte count differs from the C result");
          break;
        }
        case 3: {
          opn = "close";
          auto s = (reproc::stream) t.pick(3);
          auto e = proc.close(s);
          if (g_calls.size() != 1 || g_calls[0].fn != "close" || g_calls[0].i0 != (int) s) FAIL("call:close", "close() not forwarded with the same stream");
          if (!ec_ok(r, e, why2)) FAIL("ret:close", "close: " + why2);
          break;
        }
        case 4: {
          opn = "wait";
          int to = t.pick(3) == 0 ? -1 : t.pick(2) ? -2 : (int) t.range(0, 1000000);
          auto p = proc.wait(reproc::milliseconds(to));
          if (g_calls.size() != 1 || g_calls[0].fn != "wait" || g_calls[0].i0 != to) FAIL("call:wait", "wait() not forwarded with the same timeout");
          if (!ec_ok(r, p.second, why2)) FAIL("ret:wait", "wait: " + why2);
          if (p.first != r) FAIL("ret:wait-value", "wait(): status differs from the C result");
          break;
        }
        case 5: {
          opn = "terminate";
          auto e = proc.terminate();
          if (g_calls.size() != 1 || g_calls[0].fn != "terminate") FAIL("call:terminate", "terminate() not forwarded");
          if (!ec_ok(r, e, why2)) FAIL("ret:terminate", "terminate: " + why2);
          break;
        }
        case 6: {
          opn = "kill";
          auto e = proc.kill();
          if (g_calls.size() != 1 || g_calls[0].fn != "kill") FAIL("call:kill", "kill() not forwarded");
          if (!ec_ok(r, e, why2)) FAIL("ret:kill", "kill: " + why2);
          break;
        }
        case 7: {
          opn = "stop";
          reproc::stop_actions s{};
          reproc::stop_action *a[3] = { &s.first, &s.second, &s.third };
          for (int i = 0; i < 3; i++) {
            a[i]->action = (reproc::stop) t.pick(4);
            a[i]->timeout = reproc::milliseconds((int) t.range(-2, 50000) * 3 + i);
          }
          auto p = proc.stop(s);
          if (g_calls.size() != 1 || g_calls[0].fn != "stop") FAIL("call:stop", "stop() not forwarded");
          const reproc_stop_actions &g = g_calls[0].stop;
          if ((int) g.first.action != (int) s.first.action || g.first.timeout != s.first.timeout.count() ||
              (int) g.second.action != (int) s.second.action || g.second.timeout != s.second.timeout.count() ||
              (int) g.third.action != (int) s.third.action || g.third.timeout != s.third.timeout.count())
            FAIL("arg:stop", "stop(): actions/timeouts did not reach the C layer in order");
          if (!ec_ok(r, p.second, why2)) FAIL("ret:stop", "stop: " + why2);
          if (p.first != r) FAIL("ret:stop-value", "stop(): status differs from the C result");
          break;
        }
        case 8: {
          opn = "poll(member)";
          int interests = (int) t.pick(32);
          int to = t.coin() ? -1 : (int) t.range(0, 100000);
          int ev = (int) t.pick(32);
          g_poll_events = { ev };
          auto p = proc.poll(interests, reproc::milliseconds(to));
          if (g_calls.size() != 1 || g_calls[0].fn != "poll" || g_calls[0].sz != 1) FAIL("call:poll", "poll() not forwarded as one source");
          if (g_calls[0].sources[0].interests != interests || g_calls[0].i0 != to || g_calls[0].sources[0].process != c.handle)
            FAIL("arg:poll", "poll(): process/interests/timeout did not reach the C layer unchanged");
          if (!ec_ok(r, p.second, why2)) FAIL("ret:poll", "poll: " + why2);
          if (r >= 0 && p.first != ev) FAIL("ret:poll-events", "poll(): events were not copied back");
          // the handle must have survived the move into the source and back
          g_calls.clear();
          proc.pid();
          if (g_calls.empty() || g_calls[0].handle != c.handle) FAIL("poll:handle-lost", "member poll() lost the process handle");
          break;
        }
        default: {
          opn = "poll(free)";
          size_t n = (size_t) t.range(1, 5);
          std::vector<reproc::event::source> src;
          std::vector<int> ints, evs;
          for (size_t i = 0; i < n; i++) {
            int in = (int) t.pick(32);
            ints.push_back(in);
            evs.push_back((int) t.pick(32));
            src.push_back(reproc::event::source{ reproc::process(), in, 0x55 });
          }
          g_poll_events = evs;
          int to = t.coin() ? -1 : (int) t.range(0, 100000);
          auto e = reproc::poll(src.data(), n, reproc::milliseconds(to));
          if (g_calls.size() != 1 || g_calls[0].fn != "poll" || g_calls[0].sz != n) FAIL("call:poll-free", "poll(sources) not forwarded with the same number of sources");
          for (size_t i = 0; i < n; i++) {
            if (g_calls[0].sources[i].interests != ints[i] || g_calls[0].sources[i].process == nullptr)
              FAIL("arg:poll-free", "poll(sources): interests/process of a source did not reach the C layer in order");
            for (size_t j = 0; j < i; j++)
              if (g_calls[0].sources[i].process == g_calls[0].sources[j].process) FAIL("arg:poll-free", "poll(sources): two sources share a handle");
          }
          if (g_calls[0].i0 != to) FAIL("arg:poll-free", "poll(sources): timeout changed");
          if (!ec_ok(r, e, why2)) FAIL("ret:poll-free", "poll: " + why2);
          if (r >= 0)
            for (size_t i = 0; i < n; i++)
              if (src[i].events != evs[i]) FAIL("ret:poll-free-events", "poll(sources): events not copied back per source");
          break;
        }
      }
      // every method must address the handle created for this process object
      for (auto &cc : g_calls)
        if (cc.fn != "poll" && cc.handle != c.handle) FAIL("handle:wrong", opn + "() passed a different handle than start()");
    }
  }

done:
#undef FAIL
  res.nontrivial = nondefault >= 2 || negative_ret;
  res.hash = h;
  if (negative_ret) res.cls("negative-return");
  if (nondefault >= 2) res.cls("two-nondefault-fields");
  res.describe = jarr(desc);
  if (g_new_count != g_destroy_count && res.kind == CaseResult::PASS)
    res.fail("handle:leak", "reproc_new/reproc_destroy calls unbalanced after the process objects went out of scope");
  return res;
}

fw::PropertyDef fw::make_property()
{
  PropertyDef p;
  p.id = "C19";
  p.isolate = false;
  p.tape_len = 400;
  p.run = run_case;
  return p;
}
