// C04 — start is all-or-nothing and reports the real cause of failure.
// Engine R + FAULT: natural failures and a failure injected at every
// system/library call that start makes (both sides of fork), one at a time
// (quick) and in pairs (thorough), under every scenario of the fault engine.
#include "common/faultengine.hpp"

using namespace fw;

namespace {

CaseResult judge(const fe::Obs &o, const std::string &kind)
{
  CaseResult res;
  res.describe = fe::obs_json(o);
  res.cls(kind);
  res.cls(std::string("scenario:") + fe::scenario_name(o.scenario));
  if (!o.setup_error.empty()) {
    res.inconclusive("setup: " + o.setup_error);
    return res;
  }
  for (size_t i = 0; i < o.mismatch.size(); i++)
    if (o.mismatch[i]) {
      res.inconclusive("fault plan did not match the call sequence");
      return res;
    }
  bool any_fired = false;
  std::vector<int> allowed;
  uint64_t h = (uint64_t) o.scenario;
  for (size_t i = 0; i < o.faults.size(); i++) {
    const fe::FaultSpec &f = o.faults[i];
    h = mix(h, (uint64_t) f.side | (uint64_t) f.index << 1 | (uint64_t) f.fn << 12 | (uint64_t) f.err << 20 | (uint64_t) f.kind << 30);
    if (i < o.fired.size() && o.fired[i]) {
      any_fired = true;
      // A close() that fails after another call of the same side had already failed is part of the clean-up of that
      // failure: what it reports is not why the program could not be run.
      bool cleanup_close = false;
      if (f.fn == VS_CLOSE && f.index >= 0)
        for (size_t k = 0; k < o.faults.size(); k++)
          if (k != i && k < o.fired.size() && o.fired[k] && o.faults[k].side == f.side && o.faults[k].fn != VS_CLOSE && o.faults[k].index >= 0 && o.faults[k].index < f.index && o.faults[k].kind == VS_FK_ERRNO && o.faults[k].err != EINTR) cleanup_close = true;
      if (cleanup_close) res.cls("close-fails-during-clean-up");
      if (f.kind == VS_FK_ERRNO && !cleanup_close) allowed.push_back(f.err);
      if (f.kind == VS_FK_VALUE) allowed.push_back(EMFILE);  // the "too many descriptors to close" refusal
      res.cls(std::string("fault:") + vs_fn_name[f.fn] + (f.side == VS_CHILD ? "@child" : "@parent"));
    }
  }
  bool natural = fe::natural_failure(o.scenario);
  if (natural && o.natural_errno) allowed.push_back(o.natural_errno);
  res.hash = h;
  bool child_side = false, past_first = false;
  for (size_t i = 0; i < o.faults.size(); i++)
    if (i < o.fired.size() && o.fired[i]) {
      child_side = child_side || o.faults[i].side == VS_CHILD;
      past_first = past_first || o.faults[i].index >= 1;
    }
  res.nontrivial = natural || child_side || past_first;
  if (o.r < 0) res.cls("start-failed");
  if (o.r > 0 && any_fired) res.cls("start-succeeded-under-fault");

  std::string ctx = std::string("scenario ") + fe::scenario_name(o.scenario) + ", faults " + fe::fault_json(o.faults) + ": ";
  bool fork_mode = o.scenario == fe::S_FORK;

  if (o.r == 0) {
    res.fail("zero-in-parent", ctx + "reproc_start returned 0 in the parent process");
    return res;
  }
  if (o.r < 0) {
    if (allowed.empty()) {
      res.fail("spurious-failure", ctx + "reproc_start failed with " + std::to_string(o.r) + " (" + strerror(-o.r) + ") although nothing was made to fail");
      return res;
    }
    bool ok = false;
    for (int e : allowed) ok = ok || e == -o.r;
    if (!ok) {
      std::string want;
      for (int e : allowed) want += std::string(want.empty() ? "" : " or ") + strerror(e);
      res.fail("wrong-cause", ctx + "reproc_start returned " + std::to_string(o.r) + " (" + strerror(-o.r) + "); the real cause was " + want);
    }
    for (size_t i = 0; i < o.live_after_start.size(); i++) {
      char st = i < o.live_state.size() ? o.live_state[i] : 0;
      if (st == 'Z') res.fail("zombie-after-failed-start", ctx + "reproc_start failed (" + std::to_string(o.r) + ") and left child " + std::to_string(o.live_after_start[i]) + " behind as a zombie");
      else res.fail("child-after-failed-start", ctx + "reproc_start failed (" + std::to_string(o.r) + ") and left child " + std::to_string(o.live_after_start[i]) + " behind (state " + std::string(1, st ? st : '?') + ")");
    }
    if (o.pid_after != REPROC_EINVAL)
      res.fail("failed-start-handle-started", ctx + "after the failed start reproc_pid returned " + std::to_string(o.pid_after) + " instead of REPROC_EINVAL");
    if (o.retried) {
      if (!natural) {
        if (o.r2 <= 0) res.fail("retry-failed", ctx + "the handle could not be started again after the failure: second reproc_start returned " + std::to_string(o.r2));
        else if (!o.hello2) res.fail("retry-no-program", ctx + "second reproc_start reported success but the program did not come up");
        else if (o.retry_poll != -1000 && (o.retry_poll != 0 || o.retry_events != 0)) res.fail("retry-handle-state", ctx + "after the restart the child idles and nothing has a deadline, yet a zero-timeout poll for its exit returned " + std::to_string(o.retry_poll) + " with events " + std::to_string(o.retry_events) + " (state left over from the failed start)");
      } else if (o.r2 >= 0 || -o.r2 != o.natural_errno) {
        res.fail("retry-wrong-cause", ctx + "second reproc_start of an unstartable program returned " + std::to_string(o.r2) + ", expected -" + std::to_string(o.natural_errno));
      }
    }
    return res;
  }
  // success
  bool pid_ok = o.pid_after > 0;
  bool pid_is_child = false;
  for (pid_t p : o.forked) pid_is_child = pid_is_child || p == o.pid_after;
  if (!pid_ok || !pid_is_child)
    res.fail("success-bad-pid", ctx + "reproc_start reported success but reproc_pid returned " + std::to_string(o.pid_after) + ", which is not the child it forked");
  if (!o.hello) {
    std::string sig = "success-without-program";
    res.fail(sig, ctx + "reproc_start reported success (" + std::to_string(o.r) + ") but the requested program was not executed: " + o.hello_error);
  } else if (!fork_mode) {
    if (o.child.argv.size() != 2 || o.child.argv[1] != "fault-arg")
      res.fail("success-wrong-argv", ctx + "the started program did not receive the requested arguments");
  }
  return res;
}

CaseResult run_case(Tape &t, long sweep)
{
  fe::RunConfig cfg;
  std::string kind;
  fe::SweepTable &tb = fe::table();
  if (!tb.ok) {
    CaseResult r;
    r.inconclusive("fault table: " + tb.error);
    return r;
  }
  if (sweep >= 0) {
    if (!fe::decode_sweep(sweep, t, cfg, fw::case_dir(), kind)) {
      CaseResult r;
      r.cls("beyond-last-fault-point");
      r.describe = J().kv("note", "no such fault point on this path").str();
      return r;
    }
  } else {
    fe::decode_random(t, cfg, kind);
  }
  cfg.parent_signals = fe::ParentSignals();  // signal state is C12's dimension
  fe::Obs o = fe::run(cfg, fw::case_dir());
  return judge(o, kind);
}

}  // namespace

fw::PropertyDef fw::make_property()
{
  PropertyDef p;
  p.id = "C04";
  p.isolate = true;
  p.case_timeout_s = 60;
  p.tape_len = 160;
  p.run = run_case;
  p.sweep_count = [](const std::string &) { return fe::sweep_total(); };
  p.setup = [] { fe::table(); };
  return p;
}
