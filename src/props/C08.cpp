// C08 — deadlines and timeouts bound every wait and poll, whatever the order
// of sources. Engine V: 1-6 poll sources (NULL sources interleaved), each
// process with no deadline, a future one or an expired one; timeouts constructed
// relative to the remaining deadlines; scripted child events before, between
// and after those bounds. The oracle computes min(E, T, D) from the script and
// compares return time (virtual, exact), return value and event placement;
// a permutation of the sources must not change anything (metamorphic).
#include "common/fw.hpp"
#include "common/harness.hpp"
#include "common/ledger.hpp"
#include "common/vtime.hpp"

#include <algorithm>

using namespace fw;

namespace {

const int64_t INF = vt::INF;

struct Src {
  bool null = false;
  int deadline = 0;           // option value (0 = none)
  int interests = 0;
  int64_t start_gap = 0;      // virtual ms between the previous start and this one
  // one scripted event: kind 0 none, 1 write stdout, 2 write stderr, 3 close stdout, 4 close stderr, 5 exit
  int ev_kind = 0;
  int64_t ev_after = 0;       // relative to the first poll's entry
};

struct PollCall {
  int timeout;
  bool permute;
  int64_t intr_after = -1;  // a signal the caller handles arrives this long after the call began (-1: none)
};

struct Case {
  std::vector<Src> src;
  int64_t poll_after = 0;     // first poll is entered this long after the last start
  std::vector<PollCall> polls;
  int64_t wait_intr_after = -1;  // as PollCall::intr_after, for the wait
  int wait_kind = 0;          // 0 none, 1 wait(0), 2 wait(finite), 3 wait(DEADLINE), 4 wait(INFINITE)
  int wait_timeout = 0;
  int wait_on = 0;
  int64_t epoch = 1000000;
};

bool observable(const vt::Kid &k, int interests)
{
  // piped in/out/err; nothing is ever read in this property, so an event stays
  // observable once it has happened
  if (interests & REPROC_EVENT_IN) return true;  // an empty stdin pipe is writable; a dead reader reports an error
  if ((interests & REPROC_EVENT_OUT) && (k.written[1] > 0 || k.closed[1] || !k.alive)) return true;
  if ((interests & REPROC_EVENT_ERR) && (k.written[2] > 0 || k.closed[2] || !k.alive)) return true;
  if ((interests & REPROC_EVENT_EXIT) && !k.alive) return true;
  return false;
}

bool event_matches(int ev_kind, int interests)
{
  switch (ev_kind) {
    case 1:
    case 3: return (interests & REPROC_EVENT_OUT) != 0;
    case 2:
    case 4: return (interests & REPROC_EVENT_ERR) != 0;
    case 5: return (interests & (REPROC_EVENT_OUT | REPROC_EVENT_ERR | REPROC_EVENT_EXIT)) != 0;
    default: return false;
  }
}

Case decode(Tape &t)
{
  Case c;
  size_t n = (size_t) t.weighted({ 3, 4, 3, 2, 1, 1 }) + 1;
  bool any_proc = false;
  for (size_t i = 0; i < n; i++) {
    Src s;
    s.null = t.chance(1, 5);
    if (i == n - 1 && !any_proc) s.null = false;
    if (!s.null) any_proc = true;
    switch (t.weighted({ 3, 4, 2 })) {
      case 0: s.deadline = 0; break;
      case 1: s.deadline = (int) t.range(1, 100000); break;
      default: s.deadline = t.coin() ? (int) t.range(1, 50) : 2147483647; break;
    }
    // interests: mostly without IN (an idle stdin pipe is always writable)
    s.interests = (int) t.pick(16) & ~REPROC_EVENT_IN;
    if (t.chance(1, 10)) s.interests |= REPROC_EVENT_IN;
    if (s.interests == 0 && t.coin()) s.interests = REPROC_EVENT_OUT;
    s.start_gap = (int64_t) t.range(0, 300);
    s.ev_kind = (int) t.weighted({ 4, 2, 2, 1, 1, 3 });
    s.ev_after = (int64_t) t.range(0, 120000);
    c.src.push_back(s);
  }
  c.poll_after = (int64_t) t.weighted({ 2, 3, 1 }) == 0 ? 0 : (int64_t) t.range(0, 60000);
  // a handle that lives for weeks: the first poll comes 2^31 .. 2^33 ms after the start, long after any deadline
  if (t.chance(1, 12)) {
    static const int64_t far[] = { 2147483647LL, 2147483648LL, 2147483700LL, 3000000000LL, 4294967295LL, 4294967296LL + 17, 6442450944LL, 8589934592LL + 3 };
    c.poll_after = far[t.pick(8)] + (int64_t) t.pick(3) - 1;
  }
  size_t np = (size_t) t.range(1, 3);
  for (size_t i = 0; i < np; i++) {
    PollCall p;
    switch (t.weighted({ 2, 6, 2 })) {
      case 0: p.timeout = 0; break;
      case 1: {
        // constructed around a deadline or an event time of some source
        const Src &s = c.src[t.pick((uint32_t) c.src.size())];
        int64_t ref = t.coin() ? (int64_t) s.deadline - c.poll_after : s.ev_after;
        int64_t v = ref + (int64_t) t.pick(5) - 2;
        if (t.chance(1, 3)) v = (int64_t) t.range(1, 200000);
        if (v < 0) v = 0;
        if (v > 2000000000) v = 2000000000;
        p.timeout = (int) v;
        break;
      }
      default: p.timeout = REPROC_INFINITE; break;
    }
    p.permute = t.coin();
    if (t.chance(1, 5)) p.intr_after = t.coin() ? (int64_t) t.range(0, 3000) : (p.timeout > 0 ? (int64_t) t.range(0, (uint32_t) p.timeout) : (int64_t) t.range(0, 100000));
    c.polls.push_back(p);
  }
  c.wait_kind = (int) t.weighted({ 3, 2, 3, 3, 1 });
  c.wait_timeout = (int) t.range(1, 100000);
  c.wait_on = (int) t.pick((uint32_t) n);
  if (t.chance(1, 4)) c.wait_intr_after = (int64_t) t.range(0, (uint32_t) c.wait_timeout);
  static const int64_t epochs[] = { 1000000, 1, 1700000000000LL, 2147483000LL, 2199023255000LL, 4102444800000LL };
  c.epoch = epochs[t.pick(6)];
  return c;
}

// A clock that moves while the library computes (every reading costs 1-5 ms of virtual time), silent children
// with deadlines, and a poll or wait entered within a few readings of the earliest deadline. Exact times
// cannot be predicted then, bounds can: the call may not outlast both its timeout and the deadline (let alone
// turn into a wait without end), may not report the timeout before the timeout has passed, and may not
// report the deadline before any deadline could have passed.
CaseResult run_ticking(Tape &t)
{
  CaseResult res;
  vs_init();
  vs_reset();
  vt::World w;
  static const int64_t epochs[] = { 1000000, 1, 1700000000000LL, 2147483000LL };
  w.now = epochs[t.pick(4)];
  w.install();
  int tick = (int) t.range(1, 5);
  size_t n = (size_t) t.range(1, 3);
  int use_wait = t.chance(1, 3) ? (int) t.range(2, 3) : 0;  // 2 wait(DEADLINE), 3 wait(finite: the deadline plays no part)
  int timeout = t.chance(1, 2) ? REPROC_INFINITE : (int) t.range(0, 4000);
  if (use_wait == 2) timeout = REPROC_DEADLINE;
  if (use_wait == 3 && timeout < 0) timeout = (int) t.range(0, 4000);
  int offset = (int) t.range(0, 12 * (uint64_t) tick) - 4 * tick;
  std::vector<int> deadline(n), interests(n);
  for (size_t i = 0; i < n; i++) {
    deadline[i] = (int) t.range(30, 3000);
    interests[i] = (int) t.range(1, 15) & ~REPROC_EVENT_IN;
    if (!interests[i]) interests[i] = REPROC_EVENT_EXIT;
  }
  std::vector<vt::VChild> kids(n);
  std::map<int, hz::FdId> fds_before = hz::snapshot_self_fds();
  std::vector<int64_t> d_lo(n), d_hi(n);
  std::string err;
  for (size_t i = 0; i < n && err.empty(); i++) {
    reproc_options opt;
    memset(&opt, 0, sizeof(opt));
    opt.redirect.err.type = REPROC_REDIRECT_PIPE;
    opt.deadline = deadline[i];
    opt.stop = { { REPROC_STOP_KILL, 5000 }, { REPROC_STOP_NOOP, 0 }, { REPROC_STOP_NOOP, 0 } };
    d_lo[i] = w.now + deadline[i];
    w.tick = tick;
    err = vt::start_puppet(w, fw::case_dir() + "/ctl" + std::to_string(i), opt, kids[i]);
    w.tick = 0;
    d_hi[i] = w.now + deadline[i];  // the deadline was fixed at some reading between the two
    if (err.empty() && kids[i].start_result <= 0) err = "start returned " + std::to_string(kids[i].start_result);
  }
  {
    std::vector<std::string> js;
    for (size_t i = 0; i < n; i++) js.push_back(J().kv("deadline", deadline[i]).kv("interests", interests[i]).str());
    res.describe = J().kv("scenario", "a clock that moves between two readings; the call is entered close to the earliest deadline")
                       .raw("sources", jarr(js))
                       .kv("call", use_wait ? "wait on source 0" : "poll")
                       .kv("timeout", timeout)
                       .kv("ms_per_clock_reading", tick)
                       .kv("entered_before_earliest_deadline_ms", offset)
                       .str();
  }
  res.hash = mix(mix(0x7c08, (uint64_t) tick * 64 + n * 8 + (uint64_t) use_wait), (uint64_t) (offset + 100) * 5000 + (uint64_t) (timeout + 2));
  for (size_t i = 0; i < n; i++) res.hash = mix(res.hash, (uint64_t) deadline[i] * 16 + (uint64_t) interests[i]);
  res.cls("ticking-clock");
  auto teardown = [&]() {
    w.tick = 0;
    w.uninstall();
    for (auto &kk : w.kids)
      if (kk.alive) {
        kill(kk.pid, SIGKILL);
        hz::wait_dead(kk.pid, 5000);
      }
    for (auto &k : kids)
      if (k.p) reproc_destroy(k.p);
  };
  if (!err.empty()) {
    res.inconclusive("start: " + err);
    teardown();
    return res;
  }
  size_t first = 0;
  if (!use_wait)
    for (size_t i = 1; i < n; i++)
      if (d_hi[i] < d_hi[first]) first = i;
  int64_t lo = d_lo[first], hi = d_hi[first];
  if (!use_wait)
    for (size_t i = 0; i < n; i++) lo = std::min(lo, d_lo[i]);
  if (hi - offset > w.now) w.advance_to(hi - offset);
  int64_t t0 = w.now;
  w.call_begins(100000 + (timeout > 0 ? timeout : 0) + 3000);
  uint64_t reads0 = w.clock_reads;
  std::vector<reproc_event_source> srcs(n);
  for (size_t i = 0; i < n; i++) srcs[i] = { kids[i].p, interests[i], 0x7fff };
  w.tick = tick;
  int r = use_wait ? reproc_wait(kids[0].p, timeout) : reproc_poll(srcs.data(), n, timeout);
  w.tick = 0;
  int64_t t1 = w.now;
  int64_t slack = (int64_t) (w.clock_reads - reads0) * tick;
  int64_t left = hi > t0 ? hi - t0 : 0;
  int64_t most = (use_wait == 3 ? timeout : timeout >= 0 ? std::min<int64_t>(timeout, left) : left) + slack;
  std::string what = std::string(use_wait ? "wait" : "poll") + " with timeout " + std::to_string(timeout) + ", entered " + std::to_string(hi - t0) + " ms before the deadline with a clock that moves " + std::to_string(tick) + " ms per reading";
  if (w.hang) res.fail("blocked-forever", what + ": blocked without bound (" + w.hang_what + " at +" + std::to_string(w.hang_at - t0) + " ms)");
  else if (t1 - t0 > most) res.fail("wrong-duration", what + ": took " + std::to_string(t1 - t0) + " ms, at most " + std::to_string(most) + " allowed");
  else if (use_wait) {
    if (r != REPROC_ETIMEDOUT) res.fail("wait-result", what + ": returned " + std::to_string(r) + " for a child that is still running");
    else if (timeout >= 0 && t1 - t0 < timeout) res.fail("returned-early", what + ": gave up after " + std::to_string(t1 - t0) + " ms, before the timeout");
    else if (timeout < 0 && t1 < lo) res.fail("returned-early", what + ": gave up " + std::to_string(lo - t1) + " ms before the deadline could have passed");
  } else if (r == 0) {
    if (timeout < 0) res.fail("timeout-shape", what + ": reported a timeout");
    else if (t1 - t0 < timeout) res.fail("returned-early", what + ": reported the timeout after " + std::to_string(t1 - t0) + " ms");
  } else if (r > 0) {
    int with = 0;
    for (size_t i = 0; i < n; i++) {
      if (!srcs[i].events) continue;
      with++;
      if (srcs[i].events != REPROC_EVENT_DEADLINE) res.fail("deadline-shape", what + ": source " + std::to_string(i) + " reports events " + std::to_string(srcs[i].events) + " although its child did nothing");
      else if (t1 < d_lo[i]) res.fail("returned-early", what + ": source " + std::to_string(i) + " reports its deadline " + std::to_string(d_lo[i] - t1) + " ms before it could have passed");
    }
    if (with != r) res.fail("deadline-shape", what + ": returned " + std::to_string(r) + " with " + std::to_string(with) + " sources carrying events");
  } else res.fail("poll-result", what + ": failed with " + std::to_string(r));
  res.nontrivial = true;
  if (left > 0 && left <= 4 * tick) res.cls("ticking-clock:entered-within-four-readings-of-deadline");
  if (!w.trouble.empty()) {
    res.kind = CaseResult::INCONCLUSIVE;
    res.msg = "harness: " + w.trouble + (res.msg.empty() ? "" : " / " + res.msg);
  }
  teardown();
  for (auto &k : kids) k.pup.reset();
  std::string lsig, lp = hz::ledger_problems(fds_before, lsig);
  if (!lp.empty() && res.kind == CaseResult::PASS) res.fail(lsig, "after destroy: " + lp);
  return res;
}

CaseResult run_case(Tape &t, long)
{
  if (t.chance(1, 10)) return run_ticking(t);
  CaseResult res;
  Case c = decode(t);
  vs_init();
  vs_reset();
  vt::World w;
  w.now = c.epoch;
  w.install();

  std::vector<vt::VChild> kids(c.src.size());
  std::vector<int64_t> deadline_abs(c.src.size(), INF);
  std::map<int, hz::FdId> fds_before = hz::snapshot_self_fds();
  std::string err;
  for (size_t i = 0; i < c.src.size() && err.empty(); i++) {
    if (c.src[i].null) continue;
    w.advance_to(w.now + c.src[i].start_gap);
    reproc_options opt;
    memset(&opt, 0, sizeof(opt));
    opt.redirect.err.type = REPROC_REDIRECT_PIPE;
    opt.deadline = c.src[i].deadline;
    opt.stop = { { REPROC_STOP_KILL, 5000 }, { REPROC_STOP_NOOP, 0 }, { REPROC_STOP_NOOP, 0 } };
    err = vt::start_puppet(w, fw::case_dir() + "/ctl" + std::to_string(i), opt, kids[i]);
    if (err.empty() && kids[i].start_result <= 0) err = "start returned " + std::to_string(kids[i].start_result);
    if (c.src[i].deadline) deadline_abs[i] = kids[i].t_start + c.src[i].deadline;
  }
  {
    std::vector<std::string> js;
    for (auto &s : c.src)
      js.push_back(s.null ? std::string("null") : J().kv("deadline", s.deadline).kv("interests", s.interests).kv("event", s.ev_kind).kv("event_after", (long long) s.ev_after).kv("start_gap", (long long) s.start_gap).str());
    std::vector<std::string> jp;
    for (auto &p : c.polls) jp.push_back(J().kv("timeout", p.timeout).kv("permuted_rerun", p.permute).kv("signal_after", (long long) p.intr_after).str());
    res.describe = J().raw("sources", jarr(js)).kv("first_poll_after", (long long) c.poll_after).raw("polls", jarr(jp)).kv("wait_kind", c.wait_kind).kv("wait_timeout", c.wait_timeout).kv("wait_on", c.wait_on).kv("wait_signal_after", (long long) c.wait_intr_after).kv("epoch", (long long) c.epoch).str();
  }
  auto teardown = [&]() {
    w.uninstall();
    for (auto &kk : w.kids)
      if (kk.alive) {
        kill(kk.pid, SIGKILL);
        hz::wait_dead(kk.pid, 5000);
      }
    for (auto &k : kids)
      if (k.p) reproc_destroy(k.p);
  };
  if (!err.empty()) {
    res.inconclusive("start: " + err);
    teardown();
    return res;
  }
  w.advance_to(w.now + c.poll_after);
  int64_t t_first = w.now;
  std::vector<int64_t> ev_at(c.src.size(), INF);
  for (size_t i = 0; i < c.src.size(); i++) {
    if (c.src[i].null || c.src[i].ev_kind == 0) continue;
    int64_t at = t_first + c.src[i].ev_after;
    ev_at[i] = at;
    switch (c.src[i].ev_kind) {
      case 1: w.schedule(at, kids[i].kid, vt::A_WRITE, 1, 10); break;
      case 2: w.schedule(at, kids[i].kid, vt::A_WRITE, 2, 10); break;
      case 3: w.schedule(at, kids[i].kid, vt::A_CLOSE, 1); break;
      case 4: w.schedule(at, kids[i].kid, vt::A_CLOSE, 2); break;
      default: w.schedule(at, kids[i].kid, vt::A_EXIT, 3); break;
    }
  }

  bool saw_null_interleaved = false, saw_mixed_deadlines = false, saw_close_bounds = false, saw_repeat_after_expiry = false, saw_deadline_result = false, saw_timeout_result = false, saw_event_result = false, saw_permuted = false, saw_interrupted = false;
  {
    int kinds = 0;
    bool none = false, fut = false;
    for (size_t i = 0; i < c.src.size(); i++) {
      if (c.src[i].null) {
        if (i + 1 < c.src.size()) saw_null_interleaved = true;
        continue;
      }
      if (c.src[i].deadline == 0) none = true;
      else fut = true;
    }
    kinds = (int) none + (int) fut;
    saw_mixed_deadlines = kinds >= 2;
  }
  bool expired_reported_before = false;

  for (size_t pi = 0; pi < c.polls.size() && res.kind == CaseResult::PASS; pi++) {
    const PollCall &pc = c.polls[pi];
    int64_t entry = w.now;
    // ---- expectation from the script ------------------------------------
    int64_t T = pc.timeout < 0 ? INF : entry + pc.timeout;
    int64_t D = INF;
    std::vector<size_t> dstar;
    for (size_t i = 0; i < c.src.size(); i++) {
      if (c.src[i].null) continue;
      if (deadline_abs[i] < D) {
        D = deadline_abs[i];
        dstar.clear();
      }
      if (deadline_abs[i] == D && D != INF) dstar.push_back(i);
    }
    int64_t E = INF;
    bool any_pollable = false;
    for (size_t i = 0; i < c.src.size(); i++) {
      if (c.src[i].null) continue;
      if (c.src[i].interests & 15) any_pollable = true;
      const vt::Kid &k = w.kids[(size_t) kids[i].kid];
      if (observable(k, c.src[i].interests)) E = entry;
      else if (ev_at[i] != INF && ev_at[i] >= entry && event_matches(c.src[i].ev_kind, c.src[i].interests)) E = std::min(E, ev_at[i]);
      // an exit also closes both streams; a close is seen through OUT/ERR only
    }
    if (T != INF && D != INF && T - D >= -1 && T - D <= 1) saw_close_bounds = true;

    std::vector<reproc_event_source> srcs(c.src.size());
    for (size_t i = 0; i < c.src.size(); i++) srcs[i] = { c.src[i].null ? nullptr : kids[i].p, c.src[i].interests, 0x7fff };

    bool hang_before = w.hang;
    {
      // an unbounded wait may be implemented as endless bounded polls: it is
      // recognised once nothing can happen any more for longer than every
      // finite bound of this call
      int64_t B = std::min(T, std::min(D, E));
      w.call_begins(B == INF ? 100000 : (B > entry ? B - entry : 0) + 100000);
    }
    if (pc.intr_after >= 0) w.intr_poll_at = entry + pc.intr_after;
    int r = reproc_poll(srcs.data(), srcs.size(), pc.timeout);
    int64_t ret_at = w.now;
    bool hung = w.hang && !hang_before;
    int64_t intr_at = w.intr_fired_at;
    w.intr_poll_at = w.intr_fired_at = -1;

    auto fail = [&](const std::string &sig, const std::string &m) {
      res.fail(sig, "poll #" + std::to_string(pi) + " (timeout " + std::to_string(pc.timeout) + ", entered at +" + std::to_string(entry - t_first) + " ms): " + m);
    };
    std::string evs;
    for (size_t i = 0; i < srcs.size(); i++) evs += " " + std::to_string(srcs[i].events);

    if (intr_at >= 0) {
      // The blocked call was interrupted by a signal. Giving up with EINTR at
      // that moment is fine; so is going on - but then every bound below still
      // holds from the original entry (a restart with the full timeout would
      // not be bounded by anything).
      saw_interrupted = true;
      if (r == -EINTR) {
        if (ret_at != intr_at) fail("interrupted-late", "interrupted at +" + std::to_string(intr_at - entry) + " ms, returned the interruption error at +" + std::to_string(ret_at - entry));
        continue;
      }
    }
    if (D <= entry) {
      // an expired deadline is reported immediately, and again on every later poll
      if (expired_reported_before) saw_repeat_after_expiry = true;
      expired_reported_before = true;
      saw_deadline_result = true;
      bool ok_shape = r == 1;
      int flagged = -1;
      for (size_t i = 0; i < srcs.size(); i++) {
        if (srcs[i].events == REPROC_EVENT_DEADLINE && flagged < 0) flagged = (int) i;
        else if (srcs[i].events != 0) ok_shape = false;
      }
      // any source whose deadline has expired may carry the event
      bool flagged_expired = flagged >= 0 && !c.src[(size_t) flagged].null && deadline_abs[(size_t) flagged] <= entry;
      if (!ok_shape || !flagged_expired) fail("expired-deadline-not-reported", "a deadline had expired before the call; expected 1 with only the deadline event on an expired process, got " + std::to_string(r) + " events:" + evs);
      else if (ret_at != entry) fail("expired-deadline-waited", "an expired deadline must be reported immediately, but the call waited (" + std::to_string(ret_at - entry) + " ms)");
      continue;
    }
    if (!any_pollable) {
      // nothing requested can be polled (C09's clause); only the time bound matters here
      if (ret_at > std::min(T, D)) fail("blocked-past-bound", "returned at +" + std::to_string(ret_at - entry) + " ms, past min(timeout, deadline) = +" + std::to_string(std::min(T, D) - entry));
      continue;
    }
    int64_t m = std::min(E, std::min(T, D));
    if (m == INF) {
      if (!hung) fail("returned-instead-of-waiting", "no timeout, no deadline and no event can ever occur, yet poll returned " + std::to_string(r));
      continue;
    }
    if (hung) {
      fail("blocked-past-bound", "poll waited without bound although min(event, timeout, deadline) = +" + std::to_string(m - entry) + " ms (timeout at " + (T == INF ? std::string("never") : "+" + std::to_string(T - entry)) + ", earliest deadline at " + (D == INF ? std::string("never") : "+" + std::to_string(D - entry)) + ")");
      continue;
    }
    if (ret_at != m) {
      std::string sig = ret_at > m ? "blocked-past-bound" : "returned-early";
      fail(sig, "returned at +" + std::to_string(ret_at - entry) + " ms; expected +" + std::to_string(m - entry) + " = min(first event " + (E == INF ? std::string("never") : "+" + std::to_string(E - entry)) + ", timeout " + (T == INF ? std::string("never") : "+" + std::to_string(T - entry)) + ", earliest deadline " + (D == INF ? std::string("never") : "+" + std::to_string(D - entry)) + ")");
      continue;
    }
    bool t_first_strict = T < E && T < D;
    bool d_first_strict = D < E && D < T;
    if (t_first_strict) {
      saw_timeout_result = true;
      bool zero = r == 0;
      for (auto &s : srcs) zero = zero && s.events == 0;
      if (!zero) fail("timeout-shape", "the timeout came first: expected 0 and no events, got " + std::to_string(r) + " events:" + evs);
    } else if (d_first_strict) {
      saw_deadline_result = true;
      bool ok = r == 1;
      int flagged = -1;
      for (size_t i = 0; i < srcs.size(); i++) {
        if (srcs[i].events == REPROC_EVENT_DEADLINE && flagged < 0) flagged = (int) i;
        else if (srcs[i].events != 0) ok = false;
      }
      bool right = false;
      for (size_t i : dstar) right = right || (int) i == flagged;
      if (!ok || !right) fail("deadline-shape", "the earliest deadline (source " + std::to_string(dstar.empty() ? 0 : dstar[0]) + ") came first: expected 1 with only the deadline event on that source, got " + std::to_string(r) + " events:" + evs);
    } else if (E < T && E < D) {
      saw_event_result = true;
      if (r <= 0) fail("event-missed", "a requested child event occurred first, yet poll returned " + std::to_string(r));
      for (size_t i = 0; i < srcs.size() && res.kind == CaseResult::PASS; i++)
        if (srcs[i].events & ~(c.src[i].interests | REPROC_EVENT_DEADLINE)) fail("event-not-requested", "source " + std::to_string(i) + " reports events " + std::to_string(srcs[i].events) + " outside its interests " + std::to_string(c.src[i].interests));
    }
    // ---- metamorphic: permute sources and poll again at the same instant ----
    if (pc.permute && (t_first_strict || d_first_strict) && res.kind == CaseResult::PASS) {
      saw_permuted = true;
      std::vector<size_t> perm(c.src.size() + 1);
      // rotate by one and insert a NULL source in front
      std::vector<reproc_event_source> s2;
      s2.push_back({ nullptr, 0x1f, 0x7fff });
      for (size_t i = 0; i < c.src.size(); i++) {
        size_t j = (i + 1) % c.src.size();
        s2.push_back({ c.src[j].null ? nullptr : kids[j].p, c.src[j].interests, 0x7fff });
      }
      w.now = entry;  // nothing happened in the world: the same instant again
      int r2 = reproc_poll(s2.data(), s2.size(), pc.timeout);
      int64_t ret2 = w.now;
      bool same = r2 == r && ret2 == ret_at && s2[0].events == 0;
      for (size_t i = 0; i < c.src.size() && same; i++) {
        size_t j = (i + 1) % c.src.size();
        if (d_first_strict && dstar.size() > 1) continue;  // equal deadlines: any of them
        same = s2[i + 1].events == srcs[j].events;
      }
      if (!same) fail("order-dependence", "the same poll with the sources rotated and a NULL source inserted returned " + std::to_string(r2) + " at +" + std::to_string(ret2 - entry) + " ms instead of " + std::to_string(r) + " at +" + std::to_string(ret_at - entry) + " ms (or moved the event to another process)");
      if (ret2 < ret_at) w.now = ret_at;
    }
  }

  // ---- reproc_wait ----------------------------------------------------------
  bool saw_wait = false;
  if (c.wait_kind != 0 && res.kind == CaseResult::PASS && !w.hang) {
    size_t i = (size_t) c.wait_on;
    if (!c.src[i].null) {
      const vt::Kid &k = w.kids[(size_t) kids[i].kid];
      int64_t entry = w.now;
      int64_t death = k.alive ? INF : k.died_at;
      // remaining scripted exit of this child
      if (k.alive && c.src[i].ev_kind == 5 && ev_at[i] >= entry) death = ev_at[i];
      int to;
      int64_t bound;
      switch (c.wait_kind) {
        case 1: to = 0; bound = entry; break;
        case 2: to = c.wait_timeout; bound = entry + to; break;
        case 3: to = REPROC_DEADLINE; bound = deadline_abs[i] == INF ? INF : std::max(deadline_abs[i], entry); break;
        default: to = REPROC_INFINITE; bound = INF; break;
      }
      if (!(bound == INF && death == INF)) {
        saw_wait = true;
        bool hang_before = w.hang;
        {
          int64_t B = std::min(bound, death);
          w.call_begins(B == INF ? 100000 : (B > entry ? B - entry : 0) + 100000);
        }
        if (c.wait_intr_after >= 0) w.intr_poll_at = entry + c.wait_intr_after;
        int r = reproc_wait(kids[i].p, to);
        int64_t ret_at = w.now;
        int64_t intr_at = w.intr_fired_at;
        w.intr_poll_at = w.intr_fired_at = -1;
        auto fail = [&](const std::string &sig, const std::string &m) { res.fail(sig, "wait(" + std::to_string(to) + ") on source " + std::to_string(i) + ": " + m); };
        if (intr_at >= 0) saw_interrupted = true;
        if (intr_at >= 0 && r == -EINTR) {
          // gave up when the signal arrived (see the polls above); otherwise the bounds below hold unchanged
          if (ret_at != intr_at) fail("interrupted-late", "interrupted at +" + std::to_string(intr_at - entry) + " ms, returned the interruption error at +" + std::to_string(ret_at - entry));
        } else if (w.hang && !hang_before) fail("wait-blocked-past-bound", "waited without bound; expected to end at +" + std::to_string(std::min(bound, death) - entry) + " ms");
        else if (death < bound || (death == bound && r >= 0)) {
          if (r < 0) fail("wait-missed-exit", "the child ended at +" + std::to_string(death - entry) + " ms, inside the window, but wait returned " + std::to_string(r));
          else if (ret_at != std::max(death, entry)) fail("wait-duration", "returned a status at +" + std::to_string(ret_at - entry) + " ms, the child ended at +" + std::to_string(death - entry));
        } else {
          if (r != REPROC_ETIMEDOUT) fail(r >= 0 ? "status-while-running" : "wait-wrong-error", "the child was still running at the end of the window, but wait returned " + std::to_string(r));
          else if (ret_at != bound) {
            std::string sig = ret_at < bound ? "timeout-too-early" : "wait-blocked-past-bound";
            fail(sig, "returned the timeout error at +" + std::to_string(ret_at - entry) + " ms; the window ends at +" + std::to_string(bound - entry) + " ms");
          }
        }
      }
    }
  }

  size_t nproc = 0;
  for (auto &s : c.src) nproc += !s.null;
  res.nontrivial = saw_mixed_deadlines || saw_null_interleaved || saw_close_bounds || saw_repeat_after_expiry;
  uint64_t h = (uint64_t) c.src.size();
  for (auto &s : c.src) h = mix(h, s.null ? 99 : ((uint64_t) (s.deadline == 0 ? 0 : s.deadline < 1000 ? 1 : 2) | (uint64_t) s.interests << 2 | (uint64_t) s.ev_kind << 8 | (uint64_t) s.ev_after << 12));
  for (auto &p : c.polls) h = mix(h, (uint64_t) (uint32_t) p.timeout);
  h = mix(h, (uint64_t) c.poll_after * 8 + (uint64_t) c.wait_kind);
  res.hash = h;
  if (nproc >= 2) res.cls("two-or-more-processes");
  if (saw_mixed_deadlines) res.cls("mixed-deadline-kinds");
  if (saw_null_interleaved) res.cls("null-source-interleaved");
  if (saw_close_bounds) res.cls("timeout-within-1ms-of-deadline");
  if (saw_repeat_after_expiry) res.cls("poll-repeated-after-expiry");
  if (saw_deadline_result) res.cls("deadline-came-first");
  if (saw_timeout_result) res.cls("timeout-came-first");
  if (saw_event_result) res.cls("event-came-first");
  if (saw_permuted) res.cls("permuted-rerun");
  if (saw_interrupted) res.cls("interrupted-by-signal");
  if (c.poll_after >= 2147483646LL) res.cls("polled-weeks-after-start");
  if (saw_wait) res.cls("wait-checked");
  if (c.epoch > 2147483647LL) res.cls("epoch-beyond-2^31-ms");
  if (!w.trouble.empty()) {
    res.kind = CaseResult::INCONCLUSIVE;
    res.msg = "harness: " + w.trouble + (res.msg.empty() ? "" : " / " + res.msg);
  }
  teardown();
  for (auto &k : kids) k.pup.reset();
  std::string lsig, lp = hz::ledger_problems(fds_before, lsig);
  if (!lp.empty() && res.kind == CaseResult::PASS) res.fail(lsig, "after destroy: " + lp);
  return res;
}

}  // namespace

fw::PropertyDef fw::make_property()
{
  PropertyDef p;
  p.id = "C08";
  p.isolate = true;
  p.case_timeout_s = 90;
  p.tape_len = 160;
  p.run = run_case;
  return p;
}
