// C15 — destroy applies the stop policy; the default never abandons a running
// child. Engine V: the stop policy given at start (C07's generator, incl. the
// all-noop default), deadline none / future / expired, every child behaviour,
// every handle state at destroy (not started, failed start, running,
// exited-unreaped, reaped, child side of a fork, NULL), through the C API and
// through reproc::process's destructor. Oracle: the C07 interpreter applied to
// the *stored* policy predicts signals, virtual duration and reaping; destroy
// returns NULL and the ledger is clean in every state.
#include "common/fw.hpp"
#include "common/harness.hpp"
#include "common/ledger.hpp"
#include "common/vtime.hpp"
#include "model/stop_model.hpp"

#include <reproc++/reproc.hpp>

using namespace fw;

namespace {
const int kActionKinds[5] = { 0, 1, 2, 3, 99 };  // noop, wait, terminate, kill, out-of-range

struct Case {
  model::StopAction act[3];
  int term_mode = 0;
  int64_t term_delay = 0;
  int64_t self_exit_after = model::T_INF;  // relative to start
  int exit_code = 0;
  int deadline = 0;            // option value, 0 = none
  int64_t stop_after = 0;      // stop is called this long after start
  int pre = 0;                 // 0 nothing, 1 wait(INFINITE) before destroy (reaped state; needs a child that exits), 2 wait(0) before destroy
  int state = 0;               // handle state at destroy, see run_case
  bool via_cxx = false;        // through reproc::process's destructor
  int cxx_release = 0;
  int prior_stop = -1;         // -1 none; 0/1/2: reproc_stop({wait, 0 / 40 / 700}) before destroy
  bool failed_first = false;   // a failing start (with a different deadline and policy) precedes the real one on the same handle
  int64_t epoch = 1000000;
};

int gen_timeout(Tape &t, const Case &c)
{
  switch (t.weighted({ 3, 5, 2, 2 })) {
    case 0: return 0;
    case 1: {
      switch (t.pick(4)) {
        case 0: return (int) t.range(1, 50);
        case 1: return (int) t.range(51, 5000);
        case 2: return (int) t.range(5001, 10000000);
        default: {
          // constructed relative to the child's behaviour: around the delay / exit time
          int64_t ref = c.term_mode == 2 ? c.term_delay : (c.self_exit_after != model::T_INF ? c.self_exit_after - c.stop_after : 100);
          int64_t v = ref + (int64_t) t.pick(3) - 1;
          if (v < 0) v = 0;
          if (v > 10000000) v = 10000000;
          return (int) v;
        }
      }
    }
    case 2: return model::TO_INFINITE;
    default: return model::TO_DEADLINE;
  }
}

Case decode(Tape &t, long sweep)
{
  Case c;
  int shape[3];
  int behaviour;
  if (sweep >= 0) {
    long k = sweep;
    shape[0] = (int) (k % 5);
    k /= 5;
    shape[1] = (int) (k % 5);
    k /= 5;
    shape[2] = (int) (k % 5);
    k /= 5;
    behaviour = (int) (k % 8);
  } else {
    for (int i = 0; i < 3; i++) shape[i] = (int) t.pick(5);
    behaviour = (int) t.pick(8);
  }
  // child behaviours: 0 dies on TERM at once; 1 ignores TERM; 2 dies after a short delay; 3 dies after a long delay;
  // 4 exits by itself early (before stop); 5 exits by itself during the sequence; 6 exits by itself late; 7 exits by itself and ignores TERM
  c.stop_after = (int64_t) t.range(0, 2000);
  switch (behaviour) {
    case 0: c.term_mode = 0; break;
    case 1: c.term_mode = 1; break;
    case 2: c.term_mode = 2; c.term_delay = (int64_t) t.range(0, 50); break;
    case 3: c.term_mode = 2; c.term_delay = (int64_t) t.range(51, 200000); break;
    case 4: c.term_mode = (int) t.pick(3); c.term_delay = (int64_t) t.range(0, 100); c.self_exit_after = (int64_t) t.range(0, c.stop_after); break;
    case 5: c.term_mode = (int) t.pick(3); c.term_delay = (int64_t) t.range(0, 100); c.self_exit_after = c.stop_after + (int64_t) t.range(0, 3000); break;
    case 6: c.term_mode = (int) t.pick(3); c.term_delay = (int64_t) t.range(0, 100); c.self_exit_after = c.stop_after + (int64_t) t.range(3001, 20000000); break;
    default: c.term_mode = 1; c.self_exit_after = c.stop_after + (int64_t) t.range(1, 100000); break;
  }
  c.exit_code = (int) t.pick(256);
  switch (t.weighted({ 4, 3, 3 })) {
    case 0: c.deadline = 0; break;
    case 1: c.deadline = (int) (c.stop_after + t.range(1, 100000)); break;   // still in the future when stop is called
    default: c.deadline = (int) t.range(1, c.stop_after > 0 ? c.stop_after : 1); break;  // expired (or expiring) by then
  }
  for (int i = 0; i < 3; i++) {
    int kind = kActionKinds[shape[i]];
    if (kind == 99) {
      static const int bad[3] = { 4, 7, -1 };
      kind = bad[t.pick(3)];
    }
    c.act[i].action = kind;
    c.act[i].timeout = gen_timeout(t, c);
  }
  c.pre = (int) t.weighted({ 6, 2, 2, 2 });  // 3: a wait(0) whose waitpid is interrupted (EINTR), then destroy
  if (c.pre == 1 && c.self_exit_after == model::T_INF) c.pre = 2;
  static const int64_t epochs[] = { 1000000, 1, 1700000000000LL, 2147483000LL, 2199023255000LL, 4102444800000LL };
  c.epoch = epochs[t.pick(6)];
  // 0 running-or-exited (by script), 1 not started, 2 failed start, 3 child side of a fork, 4 NULL
  c.state = (int) t.weighted({ 12, 1, 2, 2, 1 });
  c.via_cxx = c.state == 0 && t.chance(1, 4);
  c.failed_first = c.state == 0 && !c.via_cxx && t.chance(1, 4);
  // how the C++ object lets go of its child: 0 destructor, 1 an empty process move-assigned over it,
  // 2 another (never started) process move-assigned over it, 3 moved into a new object whose destructor runs
  c.cxx_release = c.via_cxx ? (int) t.pick(4) : 0;
  // an explicit stop with ANOTHER policy (a short wait that sends nothing) before destroy:
  // destroy still has to run the policy given at start
  c.prior_stop = c.state == 0 && t.chance(1, 5) ? (int) t.pick(3) : -1;
  return c;
}

std::string to_name(int timeout)
{
  if (timeout == model::TO_INFINITE) return "INFINITE";
  if (timeout == model::TO_DEADLINE) return "DEADLINE";
  return std::to_string(timeout);
}

std::string action_name(int a)
{
  static const char *n[] = { "noop", "wait", "terminate", "kill" };
  return a >= 0 && a <= 3 ? n[a] : "out-of-range(" + std::to_string(a) + ")";
}


// A clock that moves while the library computes (every reading costs 1-5 ms of virtual time) and a destroy
// entered within a few readings of the deadline. Exact durations cannot be predicted then; what the property
// still promises can: with a deadline set, a policy whose every bound is finite or "the deadline" keeps destroy
// bounded - it may not turn into a wait without end - and a final kill step leaves the child dead and collected.
CaseResult run_ticking(Tape &t)
{
  CaseResult res;
  vs_init();
  vs_reset();
  vt::World w;
  static const int64_t epochs[] = { 1000000, 1, 1700000000000LL, 2147483000LL };
  w.now = epochs[t.pick(4)];
  w.install();
  int tick = (int) t.range(1, 5);
  int deadline = (int) t.range(20, 3000);
  int term_mode = (int) t.pick(2);  // 0 dies on TERM, 1 ignores it
  int offset = (int) t.range(0, 12 * (uint64_t) tick) - 4 * tick;  // destroy is entered this long before (negative: after) the deadline, give or take the readings start made
  struct Step { int action, timeout; } st[3];
  for (int i = 0; i < 3; i++) {
    st[i].action = (int) t.range(1, 3);  // wait, terminate, kill
    switch (t.weighted({ 5, 2, 2 })) {
      case 0: st[i].timeout = REPROC_DEADLINE; break;
      case 1: st[i].timeout = (int) t.range(0, 40); break;
      default: st[i].timeout = (int) t.range(41, 5000); break;
    }
  }
  bool ends_with_kill = t.chance(2, 3);
  if (ends_with_kill) {
    st[2].action = REPROC_STOP_KILL;
    if (st[2].timeout >= 0 && st[2].timeout < 50) st[2].timeout = 50 + st[2].timeout;
  }
  std::vector<std::string> steps;
  for (int i = 0; i < 3; i++) steps.push_back(jstr(action_name(st[i].action) + "/" + to_name(st[i].timeout)));
  res.describe = J().kv("scenario", "a clock that moves between two readings; destroy entered close to the deadline")
                     .raw("stop_policy", jarr(steps))
                     .kv("ms_per_clock_reading", tick)
                     .kv("deadline", deadline)
                     .kv("destroy_entered_before_deadline_ms", offset)
                     .kv("child_term", term_mode ? "ignores-TERM" : "dies-on-TERM")
                     .str();
  res.hash = mix(mix(0x71c4, (uint64_t) tick * 8000 + (uint64_t) deadline), (uint64_t) (offset + 100) * 2 + (uint64_t) term_mode);
  for (int i = 0; i < 3; i++) res.hash = mix(res.hash, (uint64_t) st[i].action * 10000 + (uint64_t) (st[i].timeout + 2));
  res.cls("ticking-clock");

  reproc_options opt;
  memset(&opt, 0, sizeof(opt));
  opt.redirect.discard = true;
  opt.deadline = deadline;
  opt.stop = { { (REPROC_STOP) st[0].action, st[0].timeout }, { (REPROC_STOP) st[1].action, st[1].timeout }, { (REPROC_STOP) st[2].action, st[2].timeout } };
  vt::VChild ch;
  int64_t before_start = w.now;
  w.tick = tick;
  std::string err = vt::start_puppet(w, fw::case_dir() + "/ctl", opt, ch, nullptr);
  w.tick = 0;
  if (!err.empty() || ch.start_result <= 0) {
    w.uninstall();
    res.inconclusive("start: " + err);
    if (ch.p) reproc_destroy(ch.p);
    return res;
  }
  int64_t after_start = w.now;  // the deadline was fixed at some reading in [before_start, after_start]
  w.set_term_mode(ch.kid, term_mode, 0);
  int64_t enter = after_start + deadline - offset;
  if (enter > w.now) w.advance_to(enter);
  int64_t t0 = w.now;
  size_t sig0 = w.signals.size();
  int64_t bound = 10000 + deadline;
  for (int i = 0; i < 3; i++)
    if (st[i].timeout > 0) bound += st[i].timeout;
  w.call_begins(bound);
  uint64_t reads0 = w.clock_reads;
  w.tick = tick;
  reproc_t *ret = reproc_destroy(ch.p);
  w.tick = 0;
  int64_t t1 = w.now;
  uint64_t reads = w.clock_reads - reads0;
  if (ret != nullptr) res.fail("destroy-returned-non-null", "reproc_destroy did not return NULL");
  // every step lasts at most its own bound, or what was left until the deadline when it began
  int64_t left = after_start + deadline - t0;
  if (left < 0) left = 0;
  int64_t most = (int64_t) reads * tick;
  for (int i = 0; i < 3; i++) most += st[i].timeout == REPROC_DEADLINE ? left : st[i].timeout;
  if (w.hang) res.fail("blocked-forever", "destroy blocked without bound (" + w.hang_what + " at +" + std::to_string(w.hang_at - t0) + " ms) although a deadline is set and every step of the stored policy is bounded; the clock moved " + std::to_string(tick) + " ms per reading and destroy was entered " + std::to_string(left) + " ms before the deadline");
  else if (t1 - t0 > most) res.fail("wrong-duration", "destroy took " + std::to_string(t1 - t0) + " ms; the stored policy allows at most " + std::to_string(most) + " (" + std::to_string(reads) + " clock readings of " + std::to_string(tick) + " ms included)");
  bool killed = false;
  for (size_t i = sig0; i < w.signals.size(); i++) {
    int expect_action = w.signals[i].sig == SIGKILL ? REPROC_STOP_KILL : REPROC_STOP_TERMINATE;
    bool allowed = false;
    for (int k = 0; k < 3; k++) allowed = allowed || st[k].action == expect_action;
    if (!allowed) res.fail("wrong-signals", "destroy sent signal " + std::to_string(w.signals[i].sig) + ", which no step of the stored policy asks for");
    killed = killed || w.signals[i].sig == SIGKILL;
  }
  if (!w.hang && ends_with_kill && vs_is_live(ch.pid)) res.fail("child-not-reaped", "the stored policy ends with kill and a wait of " + to_name(st[2].timeout) + ", yet the child was not collected" + (killed ? "" : " (no SIGKILL was sent)"));
  res.nontrivial = true;
  if (left > 0 && left <= 4 * tick) res.cls("ticking-clock:entered-within-four-readings-of-deadline");
  (void) before_start;
  if (!w.trouble.empty()) {
    res.kind = CaseResult::INCONCLUSIVE;
    res.msg = "harness: " + w.trouble + (res.msg.empty() ? "" : " / " + res.msg);
  }
  w.uninstall();
  for (auto &kk : w.kids)
    if (kk.alive) {
      kill(kk.pid, SIGKILL);
      hz::wait_dead(kk.pid, 5000);
    }
  if (vs_is_live(ch.pid)) hz::reap_quietly(ch.pid);
  std::string lsig, lp = hz::ledger_problems(ch.fds_before, lsig);
  if (!lp.empty() && res.kind == CaseResult::PASS) res.fail(lsig, "after destroy: " + lp);
  return res;
}

CaseResult run_case(Tape &t, long sweep)
{
  if (sweep < 0 && t.chance(1, 10)) return run_ticking(t);
  CaseResult res;
  Case c = decode(t, sweep);
  vs_init();
  vs_reset();
  vt::World w;
  w.now = c.epoch;
  w.install();
  std::vector<std::string> steps;
  for (int i = 0; i < 3; i++) steps.push_back(jstr(action_name(c.act[i].action) + "/" + to_name(c.act[i].timeout)));
  static const char *tm[] = { "dies-on-TERM", "ignores-TERM", "dies-after-delay" };
  static const char *sn[] = { "started", "not-started", "failed-start", "fork-child-side", "NULL" };
  res.describe = J().raw("stop_policy", jarr(steps))
                     .kv("state", sn[c.state])
                     .kv("via_cxx_destructor", c.via_cxx)
                     .kv("cxx_release", c.via_cxx ? (c.cxx_release == 0 ? "destructor" : c.cxx_release == 1 ? "empty process move-assigned over it" : c.cxx_release == 2 ? "another process move-assigned over it" : "moved into another object") : "-")
                     .kv("child_term", tm[c.term_mode])
                     .kv("term_delay", (long long) c.term_delay)
                     .kv("self_exit_after", c.self_exit_after == model::T_INF ? -1LL : (long long) c.self_exit_after)
                     .kv("deadline", c.deadline)
                     .kv("destroy_called_after", (long long) c.stop_after)
                     .kv("pre", c.pre)
                     .kv("explicit_stop_with_another_policy_first", c.prior_stop)
                     .kv("failed_start_first", c.failed_first)
                     .str();
  uint64_t h = (uint64_t) c.state * 7 + c.via_cxx;
  for (int i = 0; i < 3; i++) h = mix(h, (uint64_t) (c.act[i].action + 2) * 4 + (uint64_t) (c.act[i].timeout < 0 ? -c.act[i].timeout : c.act[i].timeout == 0 ? 0 : 3));
  h = mix(h, (uint64_t) c.term_mode | (uint64_t) (c.self_exit_after != model::T_INF) << 2 | (uint64_t) (c.deadline != 0) << 3 | (uint64_t) c.pre << 4);
  h = mix(h, (uint64_t) c.stop_after ^ (uint64_t) c.term_delay << 20 ^ (uint64_t) c.self_exit_after << 7);
  res.hash = h;
  res.cls(std::string("state:") + sn[c.state]);

  reproc_options opt;
  memset(&opt, 0, sizeof(opt));
  opt.redirect.discard = true;
  opt.deadline = c.deadline;
  opt.stop = { { (REPROC_STOP) c.act[0].action, c.act[0].timeout }, { (REPROC_STOP) c.act[1].action, c.act[1].timeout }, { (REPROC_STOP) c.act[2].action, c.act[2].timeout } };

  auto fds0 = hz::snapshot_self_fds();
  auto finish_simple = [&](reproc_t *ret, const char *what) {
    if (ret != nullptr) res.fail("destroy-returned-non-null", std::string(what) + ": reproc_destroy did not return NULL");
    if (vs_counts.calls[VS_KILL] || vs_counts.calls[VS_WAITPID] > 0 + (c.state == 2 ? 1u : 0u)) {
      // a failed start reaps its own failed child once; nothing else may signal or wait
      res.fail("destroy-touched-a-process", std::string(what) + ": kill/waitpid calls: " + std::to_string(vs_counts.calls[VS_KILL]) + "/" + std::to_string(vs_counts.calls[VS_WAITPID]));
    }
    w.uninstall();
    std::string lsig, lp = hz::ledger_problems(fds0, lsig);
    if (!lp.empty()) res.fail(lsig, std::string(what) + ": " + lp);
    res.nontrivial = c.state == 2 || c.state == 3;
  };

  if (c.state == 4) {
    reproc_t *ret = reproc_destroy(nullptr);
    finish_simple(ret, "destroy(NULL)");
    return res;
  }
  if (c.state == 1) {
    reproc_t *p = reproc_new();
    reproc_t *ret = reproc_destroy(p);
    finish_simple(ret, "destroy of a handle that was never started");
    return res;
  }
  if (c.state == 2) {
    reproc_t *p = reproc_new();
    std::string missing = fw::case_dir() + "/no-such-program";
    const char *argv[] = { missing.c_str(), nullptr };
    w.in_start = true;
    int r = reproc_start(p, argv, opt);
    w.in_start = false;
    if (r >= 0) res.fail("missing-program-started", "start of a missing program returned " + std::to_string(r));
    reproc_t *ret = reproc_destroy(p);
    finish_simple(ret, "destroy after a failed start");
    return res;
  }
  if (c.state == 3) {
    // fork mode: the child side may only destroy; it reports what that did
    reproc_t *p = reproc_new();
    reproc_options fo = opt;
    fo.fork = true;
    std::string report = fw::case_dir() + "/fork-child";
    w.in_start = true;
    int r = reproc_start(p, nullptr, fo);
    w.in_start = false;
    if (r == 0) {
      uint32_t k0 = vs_counts.calls[VS_KILL], w0 = vs_counts.calls[VS_WAITPID];
      reproc_t *ret = reproc_destroy(p);
      char line[128];
      snprintf(line, sizeof(line), "%d %u %u %d\n", ret == nullptr ? 1 : 0, vs_counts.calls[VS_KILL] - k0, vs_counts.calls[VS_WAITPID] - w0, vs_nviol());
      int fd = open(report.c_str(), O_WRONLY | O_CREAT | O_TRUNC, 0644);
      if (fd >= 0) {
        hz::write_all(fd, line, strlen(line));
        close(fd);
      }
      _exit(0);
    }
    if (r < 0) {
      res.inconclusive("fork-mode start failed: " + std::to_string(r));
      reproc_destroy(p);
      w.uninstall();
      return res;
    }
    // parent side: the child exits by itself after its destroy
    hz::wait_dead(reproc_pid(p), 10000);
    w.uninstall();
    reproc_wait(p, 5000);
    reproc_destroy(p);
    std::string rep = hz::slurp(report);
    int null_ret = 0, kills = -1, waits = -1, viol = -1;
    if (sscanf(rep.c_str(), "%d %d %d %d", &null_ret, &kills, &waits, &viol) != 4) res.fail("fork-child-no-report", "the forked child did not finish its destroy");
    else if (!null_ret || kills || waits || viol) res.fail("fork-child-destroy", "destroy on the child side of a fork: returned NULL=" + std::to_string(null_ret) + ", kill calls " + std::to_string(kills) + ", waitpid calls " + std::to_string(waits) + ", ledger violations " + std::to_string(viol));
    std::string lsig, lp = hz::ledger_problems(fds0, lsig);
    if (!lp.empty()) res.fail(lsig, "fork mode, parent side: " + lp);
    res.nontrivial = true;
    return res;
  }

  // ---- state 0: a started child --------------------------------------------------
  vt::VChild ch;
  std::unique_ptr<reproc::process> cxx;
  std::string err;
  if (c.via_cxx) {
    ch.pup.reset(new hz::Puppet(fw::case_dir() + "/ctl"));
    ch.fds_before = hz::snapshot_self_fds();
    cxx.reset(new reproc::process());
    reproc::options o;
    o.redirect.discard = true;
    o.deadline = reproc::milliseconds(c.deadline);
    o.stop = { { (reproc::stop) c.act[0].action, reproc::milliseconds(c.act[0].timeout) }, { (reproc::stop) c.act[1].action, reproc::milliseconds(c.act[1].timeout) }, { (reproc::stop) c.act[2].action, reproc::milliseconds(c.act[2].timeout) } };
    std::vector<std::string> args = { ch.pup->exe(), "v" };
    ch.t_start = w.now;
    w.in_start = true;
    std::error_code ec = cxx->start(args, o);
    w.in_start = false;
    if (ec) err = "reproc++ start: " + ec.message();
    else {
      ch.pid = cxx->pid().first;
      ch.start_result = 1;
      if (!ch.pup->wait_ready(10000, ch.pid)) err = "not ready: " + ch.pup->error();
      else ch.kid = w.add_kid(ch.pup.get(), ch.pid);
    }
  } else {
    reproc_options first = opt;
    first.deadline = c.deadline ? 0 : 3;  // the opposite of what the real start uses
    first.stop = { { REPROC_STOP_KILL, 0 }, { REPROC_STOP_NOOP, 0 }, { REPROC_STOP_NOOP, 0 } };
    err = vt::start_puppet(w, fw::case_dir() + "/ctl", opt, ch, c.failed_first ? &first : nullptr);
  }
  if (!err.empty() || ch.start_result <= 0) {
    w.uninstall();
    res.inconclusive("start: " + err);
    if (ch.p) reproc_destroy(ch.p);
    return res;
  }
  int64_t t_start = ch.t_start;
  w.set_term_mode(ch.kid, c.term_mode, c.term_delay);
  if (c.self_exit_after != model::T_INF) w.schedule(t_start + c.self_exit_after, ch.kid, vt::A_EXIT, (uint32_t) c.exit_code);
  w.advance_to(t_start + c.stop_after);
  bool reaped = false;
  int cached = -1;
  bool interrupted_wait = false;
  if (c.pre != 0) {
    if (c.pre == 3) vs_fail_nth(VS_WAITPID, 0);
    int r0 = c.via_cxx ? cxx->wait(reproc::milliseconds(c.pre == 1 ? REPROC_INFINITE : 0)).first : reproc_wait(ch.p, c.pre == 1 ? REPROC_INFINITE : 0);
    if (c.pre == 3) {
      vs_fail_nth(-1, -1);
      interrupted_wait = r0 < 0 && r0 != REPROC_ETIMEDOUT;
    }
    if (r0 >= 0) {
      reaped = true;
      cached = r0;
    }
  }
  if (c.prior_stop >= 0 && !reaped) {
    static const int pw[3] = { 0, 40, 700 };
    w.call_begins(100000);
    int rs;
    if (c.via_cxx) rs = cxx->stop({ { reproc::stop::wait, reproc::milliseconds(pw[c.prior_stop]) }, { reproc::stop::noop, reproc::milliseconds(0) }, { reproc::stop::noop, reproc::milliseconds(0) } }).first;
    else {
      reproc_stop_actions ps = { { REPROC_STOP_WAIT, pw[c.prior_stop] }, { REPROC_STOP_NOOP, 0 }, { REPROC_STOP_NOOP, 0 } };
      rs = reproc_stop(ch.p, ps);
    }
    if (rs >= 0) {
      reaped = true;
      cached = rs;
    }
  }
  vt::Kid &k = w.kids[(size_t) ch.kid];
  model::ChildScript cs;
  cs.term_mode = c.term_mode;
  cs.term_delay = c.term_delay;
  cs.self_exit_at = c.self_exit_after == model::T_INF ? model::T_INF : t_start + c.self_exit_after;
  cs.exit_code = c.exit_code;
  if (!k.alive) {
    cs.dead = true;
    cs.died_at = k.died_at;
    cs.status = k.expected_status;
  }
  int64_t deadline_abs = c.deadline ? t_start + c.deadline : model::T_INF;
  int64_t t0 = w.now;
  size_t sig0 = w.signals.size();
  uint32_t kill0 = vs_counts.calls[VS_KILL], wait0 = vs_counts.calls[VS_WAITPID];
  bool was_running = k.alive;

  {
    // every finite bound of the stored policy (see vt::World::horizon)
    int64_t bound = 10000;
    for (int i = 0; i < 3; i++)
      if (c.act[i].timeout > 0) bound += c.act[i].timeout;
    if (c.deadline) bound += c.deadline;
    if (c.term_mode == 2) bound += c.term_delay;
    w.call_begins(bound);
  }
  reproc_t *ret = nullptr;
  if (c.via_cxx) {
    switch (c.cxx_release) {
      case 0: cxx.reset(); break;
      case 1: *cxx = reproc::process(); break;                // the replaced handle must be destroyed like any other
      case 2: {
        reproc::process other;
        *cxx = std::move(other);
        break;
      }
      default: {
        reproc::process taker(std::move(*cxx));
        cxx.reset();  // the moved-from object owns nothing any more
        break;        // `taker` is destroyed here
      }
    }
  }
  else ret = reproc_destroy(ch.p);
  int64_t t1 = w.now;
  if (ret != nullptr) res.fail("destroy-returned-non-null", "reproc_destroy did not return NULL");

  bool all_noop = c.act[0].action == 0 && c.act[1].action == 0 && c.act[2].action == 0;
  bool matched = false;
  std::string first_problem, first_sig;
  model::StopExpect shown;
  for (int variant = 0; variant < 2 && !matched; variant++) {
    model::StopExpect e = model::interpret_stop(c.act, cs, t0, deadline_abs, reaped, cached, variant == 0);
    if (variant == 0) shown = e;
    std::string problem, sig;
    auto bad = [&](const std::string &s, const std::string &m) {
      if (problem.empty()) {
        problem = m;
        sig = s;
      }
    };
    std::vector<vt::SigEvent> got(w.signals.begin() + (long) sig0, w.signals.end());
    if (reaped) {
      if (vs_counts.calls[VS_KILL] != kill0 || vs_counts.calls[VS_WAITPID] != wait0 || t1 != t0) bad("destroy-of-reaped-touched-process", "destroy of an already reaped handle signalled, waited or took time");
    } else if (e.kind == model::StopExpect::HANG) {
      if (!w.hang) bad("abandoned-running-child", "the stored stop policy makes destroy wait without bound (child never ends), but destroy returned at +" + std::to_string(t1 - t0) + " ms" + (k.alive ? " with the child still running" : ""));
      else if (w.hang_by_horizon ? w.hang_at < e.end : w.hang_at != e.end) bad("wrong-duration", "the unbounded wait of destroy began at +" + std::to_string(w.hang_at - t0) + " ms, expected +" + std::to_string(e.end - t0));
    } else {
      if (w.hang) bad("blocked-forever", "destroy blocked without bound (" + w.hang_what + " at +" + std::to_string(w.hang_at - t0) + " ms) although the stored policy bounds it: " + e.trace);
      else if (t1 != e.end && e.kind != model::StopExpect::EINVAL_) bad("wrong-duration", "destroy took " + std::to_string(t1 - t0) + " ms of virtual time, the stored stop policy gives " + std::to_string(e.end - t0) + " (" + e.trace + ")");
      bool reaped_now = !vs_is_live(ch.pid);
      if (e.kind == model::StopExpect::STATUS && !reaped_now) bad("child-not-reaped", "the stop policy ends with the child dead, but destroy did not reap it");
      if (e.kind == model::StopExpect::TIMEDOUT && reaped_now) bad("reaped-unexpectedly", "every wait of the policy expires with the child alive, yet the child was reaped");
    }
    if (!reaped) {
      if (got.size() != e.signals.size()) {
        std::string g, x;
        for (auto &s : got) g += (s.sig == 15 ? " TERM@+" : " KILL@+") + std::to_string(s.at - t0);
        for (auto &s : e.signals) x += (s.sig == 15 ? " TERM@+" : " KILL@+") + std::to_string(s.at - t0);
        std::string sg = "wrong-signals";
        if (all_noop && got.size() > e.signals.size()) sg = "default-policy-signalled-early";
        bad(sg, "signals sent by destroy:" + (g.empty() ? " none" : g) + "; the stored policy gives:" + (x.empty() ? " none" : x));
      } else {
        for (size_t i = 0; i < got.size(); i++) {
          if (got[i].sig != e.signals[i].sig) bad("wrong-signal-order", "signal " + std::to_string(i) + " is " + std::to_string(got[i].sig) + ", expected " + std::to_string(e.signals[i].sig));
          else if (got[i].at != e.signals[i].at) bad("wrong-signal-time", "signal " + std::to_string(got[i].sig) + " sent at +" + std::to_string(got[i].at - t0) + " ms, expected +" + std::to_string(e.signals[i].at - t0));
        }
      }
    }
    if (problem.empty()) matched = true;
    else if (variant == 0) {
      first_problem = problem;
      first_sig = sig;
    }
  }
  if (!matched) res.fail(first_sig, first_problem);
  // the default policy specifically: never a SIGKILL, SIGTERM at most once and not before the deadline
  if (all_noop && !reaped && res.kind == CaseResult::PASS) {
    int terms = 0;
    for (size_t i = sig0; i < w.signals.size(); i++) {
      if (w.signals[i].sig == SIGKILL) res.fail("default-policy-killed", "the default policy sent SIGKILL");
      if (w.signals[i].sig == SIGTERM) {
        terms++;
        if (deadline_abs == model::T_INF || w.signals[i].at < deadline_abs) res.fail("default-policy-signalled-early", "the default policy sent SIGTERM before the deadline had passed");
      }
    }
    if (terms > 1) res.fail("default-policy-signalled-twice", "the default policy sent SIGTERM more than once");
    if (!w.hang && vs_is_live(ch.pid)) res.fail("abandoned-running-child", "the default policy returned from destroy while the child was neither dead nor reaped");
  }

  res.nontrivial = was_running || reaped == false;
  static const char *kinds[] = { "policy-ends-with-status", "policy-times-out", "policy-invalid-action", "policy-waits-unbounded" };
  res.cls(kinds[shown.kind]);
  if (was_running && !reaped) res.cls("destroy-on-running-child");
  if (!was_running && !reaped) res.cls("destroy-on-exited-unreaped");
  if (reaped) res.cls("destroy-on-reaped");
  if (all_noop) res.cls("default-policy");
  if (c.via_cxx) res.cls("via-cxx-destructor");
  if (c.via_cxx && c.cxx_release) res.cls("via-cxx-move");
  if (c.prior_stop >= 0) res.cls("explicit-stop-with-another-policy-first");
  if (interrupted_wait) res.cls("destroy-after-failed-wait");
  if (c.failed_first) res.cls("restarted-after-failed-start");
  if (c.deadline) res.cls("with-deadline");
  if (!w.trouble.empty()) {
    res.kind = CaseResult::INCONCLUSIVE;
    res.msg = "harness: " + w.trouble + (res.msg.empty() ? "" : " / " + res.msg);
  }
  w.uninstall();
  for (auto &kk : w.kids)
    if (kk.alive) {
      kill(kk.pid, SIGKILL);
      hz::wait_dead(kk.pid, 5000);
    }
  // a child the policy legitimately left behind is the harness's to reap
  if (vs_is_live(ch.pid)) hz::reap_quietly(ch.pid);
  cxx.reset();  // (a process object that was assigned over still holds a fresh, never started handle)
  std::string lsig, lp = hz::ledger_problems(ch.fds_before, lsig);
  if (!lp.empty() && res.kind == CaseResult::PASS) res.fail(lsig, "after destroy: " + lp);
  return res;
}

}  // namespace

fw::PropertyDef fw::make_property()
{
  PropertyDef p;
  p.id = "C15";
  p.isolate = true;
  p.case_timeout_s = 60;
  p.tape_len = 96;
  p.run = run_case;
  p.sweep_count = [](const std::string &tier) { return tier == "thorough" ? 125L * 8 * 20 : 125L * 8 * 2; };
  return p;
}
