// C02 — stream fidelity: bytes arrive once, in order; end-of-stream exactly at
// the end. Two engines in one target:
//  * V (virtual time, scripted child): generated interleavings of child
//    writes / closes / exit / stdin reads with parent reads (buffer sizes
//    0 ... 1 MiB) / writes / polls / closes, blocking and nonblocking, stderr
//    as its own pipe, redirected to stdout, or not piped; stdin fed by
//    reproc_write, by start-up input, or closed at once.
//  * R (real clock, free-running child): multi-megabyte full-duplex transfers
//    through a poll/read/write loop or through reproc_drain.
// Oracle: every stream's content is a fixed function of (stream, offset), so
// the concatenation of what reads returned must be exactly pattern[0..written)
// - prefix at every point, equality once the closed-stream error was returned,
// and from then on always that error; the child's own report of stdin (count,
// first mismatch, end-of-file) must equal what writes accepted.
#include "common/fw.hpp"
#include "common/harness.hpp"
#include "common/ledger.hpp"
#include "common/vtime.hpp"

#include <reproc/drain.h>

#include <algorithm>

using namespace fw;

namespace {

uint64_t gen_size(Tape &t, uint64_t max)
{
  static const uint64_t b[] = { 0, 1, 2, 7, 4095, 4096, 4097, 65535, 65536, 65537, 131072, (1 << 20) + 3, 3 << 20, 8 << 20 };
  uint64_t v;
  if (t.chance(2, 3)) v = b[t.pick(14)];
  else v = (uint64_t) t.range(0, 100000);
  return std::min(v, max);
}

size_t gen_buf(Tape &t)
{
  static const size_t b[] = { 0, 1, 7, 4096, 65536, 1 << 20 };
  return b[t.weighted({ 2, 2, 2, 5, 4, 3 })];
}

// ------------------------------------------------------------------ V ----
struct StreamCheck {
  uint64_t delivered = 0;   // bytes returned by reads so far
  bool epipe = false;       // the closed-stream error has been returned
  bool parent_closed = false;
};

// merged expectation for stderr->stdout: the exact byte sequence in script order
struct Merged {
  std::vector<std::pair<int, uint64_t>> chunks;  // (source stream, bytes) in write order
  uint64_t off[3] = { 0, 0, 0 };
  size_t ci = 0;
  uint64_t cpos = 0;
  // verifies `n` delivered bytes; returns false at the first wrong byte
  bool verify(const uint8_t *p, size_t n, std::string &why)
  {
    for (size_t i = 0; i < n; i++) {
      while (ci < chunks.size() && cpos >= chunks[ci].second) {
        ci++;
        cpos = 0;
      }
      if (ci >= chunks.size()) {
        why = "more bytes were delivered than the child wrote";
        return false;
      }
      int s = chunks[ci].first;
      if (p[i] != pup_pattern(s, off[s])) {
        why = "byte " + std::to_string(i) + " of this read is not the next byte the child wrote (source " + (s == 1 ? "stdout" : "stderr") + " offset " + std::to_string(off[s]) + ")";
        return false;
      }
      off[s]++;
      cpos++;
    }
    return true;
  }
};

CaseResult run_v(Tape &t)
{
  CaseResult res;
  vs_init();
  vs_reset();
  vt::World w;
  w.install();
  bool nonblocking = t.coin();
  int err_mode = (int) t.weighted({ 5, 3, 2 });   // 0 own pipe, 1 redirected to stdout, 2 not piped
  int in_mode = (int) t.weighted({ 5, 3, 2 });    // 0 reproc_write, 1 start-up input, 2 closed immediately
  uint64_t input_size = in_mode == 1 ? std::min<uint64_t>(gen_size(t, 60000), 60000) : 0;
  reproc_options opt;
  memset(&opt, 0, sizeof(opt));
  opt.redirect.err.type = err_mode == 0 ? REPROC_REDIRECT_PIPE : err_mode == 1 ? REPROC_REDIRECT_STDOUT : REPROC_REDIRECT_DISCARD;
  opt.nonblocking = nonblocking;
  opt.stop = { { REPROC_STOP_KILL, 5000 }, { REPROC_STOP_NOOP, 0 }, { REPROC_STOP_NOOP, 0 } };
  std::vector<uint8_t> input(input_size + 1);
  if (in_mode == 1) {
    for (uint64_t i = 0; i < input_size; i++) input[i] = pup_pattern(0, i);
    opt.input.data = input.data();
    opt.input.size = input_size;
  }
  vt::VChild ch;
  std::string err = vt::start_puppet(w, fw::case_dir() + "/ctl", opt, ch);
  std::vector<std::string> log;
  auto teardown = [&]() {
    w.uninstall();
    for (auto &kk : w.kids)
      if (kk.alive) {
        kill(kk.pid, SIGKILL);
        hz::wait_dead(kk.pid, 5000);
      }
    if (ch.p) reproc_destroy(ch.p);
  };
  if (!err.empty() || ch.start_result <= 0) {
    res.inconclusive("start: " + err + " r=" + std::to_string(ch.start_result));
    teardown();
    return res;
  }
  vt::Kid &k = w.kids[(size_t) ch.kid];
  int kid = ch.kid;
  StreamCheck sc[3];
  Merged merged;
  uint64_t in_accepted = in_mode == 1 ? input_size : 0;
  bool in_closed = in_mode == 1;
  if (in_mode == 2) {
    reproc_close(ch.p, REPROC_STREAM_IN);
    in_closed = true;
    log.push_back("parent closes stdin at once");
  }
  bool cls_zero_buf = false, cls_big = false, cls_interleaved = false, cls_input = in_mode == 1 && input_size > 0, cls_interrupted = false;
  bool wrote[3] = { false, false, false };
  static std::vector<uint8_t> buf(1 << 20);
  static std::vector<uint8_t> wbuf(1 << 16);

  auto fail = [&](const std::string &sig, const std::string &m) { res.fail(sig, m); };

  // the number of bytes the child has really written to the pipe that feeds parent stream s
  auto written = [&](int s) -> uint64_t {
    if (err_mode == 1) return s == 1 ? k.written[1] + k.written[2] : 0;
    return k.written[s];
  };
  auto far_closed = [&](int s) -> bool {
    if (!k.alive) return true;
    if (err_mode == 1) return k.closed[1] && k.closed[2];
    return k.closed[s];
  };

  auto do_read = [&](int s, size_t bs, bool final_drain) -> bool {
    // returns false when the stream has ended (or on failure)
    REPROC_STREAM rs = s == 1 ? REPROC_STREAM_OUT : REPROC_STREAM_ERR;
    bool piped = s == 1 || err_mode == 0;
    uint64_t pending = piped && !sc[s].parent_closed && !sc[s].epipe ? written(s) - sc[s].delivered : 0;
    if (piped && !sc[s].parent_closed && !sc[s].epipe && !nonblocking && pending == 0 && !far_closed(s) && bs > 0) return true;  // would wait for ever: not issued
    size_t ep0 = w.episodes.size();
    // now and then the read() itself is interrupted: nothing may be lost or ended by that
    unsigned fired0 = vs_nth_fired();
    bool armed = !final_drain && bs > 0 && t.chance(1, 12);
    if (armed) vs_fail_nth(VS_READ, 0);
    int r = reproc_read(ch.p, rs, buf.data(), bs);
    if (armed) {
      vs_fail_nth(-1, -1);
      if (vs_nth_fired() != fired0 && r == -EINTR) {
        cls_interrupted = true;
        log.push_back(std::string("read(") + (s == 1 ? "out" : "err") + "," + std::to_string(bs) + ")=EINTR");
        return true;
      }
    }
    if (bs == 0) cls_zero_buf = true;
    log.push_back(std::string("read(") + (s == 1 ? "out" : "err") + "," + std::to_string(bs) + ")=" + std::to_string(r));
    (void) ep0;
    if (!piped || sc[s].parent_closed) {
      if (r != REPROC_EPIPE) fail("read-non-pipe", std::string("read on a stream that is ") + (piped ? "closed by the parent" : "not piped") + " returned " + std::to_string(r));
      return false;
    }
    if (sc[s].epipe) {
      if (r != REPROC_EPIPE) fail("epipe-not-sticky", "the closed-stream error had been returned, a later read returned " + std::to_string(r));
      return false;
    }
    // pump may have let the child write more since `pending` was computed
    pending = written(s) - sc[s].delivered;
    if (r > 0) {
      if ((size_t) r > bs) {
        fail("read-overrun", "read returned " + std::to_string(r) + " for a buffer of " + std::to_string(bs));
        return false;
      }
      if ((uint64_t) r > pending) {
        fail("bytes-invented", "read returned " + std::to_string(r) + " byte(s) but only " + std::to_string(pending) + " written byte(s) were undelivered");
        return false;
      }
      std::string why;
      if (err_mode == 1) {
        if (!merged.verify(buf.data(), (size_t) r, why)) {
          fail("content", "stdout (with stderr redirected into it) at offset " + std::to_string(sc[s].delivered) + ": " + why);
          return false;
        }
      } else {
        for (int i = 0; i < r; i++)
          if (buf[(size_t) i] != pup_pattern(s, sc[s].delivered + (uint64_t) i)) {
            fail("content", std::string(s == 1 ? "stdout" : "stderr") + " byte at offset " + std::to_string(sc[s].delivered + (uint64_t) i) + " differs from what the child wrote there (lost, duplicated or crossed bytes)");
            return false;
          }
      }
      sc[s].delivered += (uint64_t) r;
      return true;
    }
    if (r == 0) {
      if (bs != 0) fail("read-zero", "read returned 0 for a non-empty buffer");
      return true;
    }
    if (r == REPROC_EWOULDBLOCK) {
      if (!nonblocking) fail("would-block-in-blocking-mode", "a blocking read returned the would-block error");
      else if (pending > 0 && bs > 0) fail("would-block-with-data", "read returned would-block with " + std::to_string(pending) + " byte(s) pending");
      return true;
    }
    if (r == REPROC_EPIPE) {
      sc[s].epipe = true;
      if (!far_closed(s)) fail("premature-end-of-stream", std::string("the closed-stream error was returned for ") + (s == 1 ? "stdout" : "stderr") + " although the child has neither closed it nor exited" + (bs == 0 ? " (zero-size buffer)" : ""));
      else if (sc[s].delivered != written(s)) fail("data-lost-at-end", std::string("the closed-stream error was returned for ") + (s == 1 ? "stdout" : "stderr") + " after " + std::to_string(sc[s].delivered) + " of " + std::to_string(written(s)) + " written bytes" + (bs == 0 ? " (zero-size buffer)" : ""));
      return false;
    }
    fail("read-error", "read returned " + std::to_string(r));
    (void) final_drain;
    return false;
  };

  size_t nsteps = (size_t) t.range(2, 30);
  uint64_t total_cap = fw::tier() == "thorough" ? (64ull << 20) : (8ull << 20);
  for (size_t step = 0; step < nsteps && res.kind == CaseResult::PASS; step++) {
    int what = (int) t.weighted({ 6, 2, 1, 6, 3, 2, 1, 2 });
    switch (what) {
      case 0: {  // child writes
        uint32_t s = 1 + t.pick(2);
        if (!k.alive || k.closed[s]) break;
        uint64_t n = gen_size(t, total_cap);
        if (err_mode == 1) {
          // keep merged writes atomic and unqueued so that script order is pipe order
          n = std::min<uint64_t>(n, 4096);
          if (written(1) - sc[1].delivered + n > 60000) break;
        }
        if (err_mode == 2 && s == 2) n = std::min<uint64_t>(n, 4096);
        if (k.written[s] + k.queued[s] + n > total_cap) break;
        w.perform({ kid, vt::A_WRITE, s, n });
        if (err_mode == 1 && n) merged.chunks.push_back({ (int) s, n });
        if (n) wrote[s] = true;
        if (n > 65536) cls_big = true;
        log.push_back("child writes " + std::to_string(n) + " to " + (s == 1 ? "out" : "err"));
        break;
      }
      case 1: {  // child closes a stream
        uint32_t s = t.pick(3);
        if (!k.alive || k.closed[s]) break;
        if (s != 0 && k.queued[s] > 0) break;  // closing with unwritten output queued would drop it by design of the script
        w.perform({ kid, vt::A_CLOSE, s, 0 });
        log.push_back("child closes " + std::to_string(s));
        break;
      }
      case 2: {  // child exits
        if (!k.alive || t.chance(2, 3)) break;
        if (k.queued[1] || k.queued[2]) break;
        w.perform({ kid, vt::A_EXIT, (uint32_t) t.pick(256), 0 });
        log.push_back("child exits");
        break;
      }
      case 3: {  // parent reads
        int s = 1 + (int) t.pick(2);
        do_read(s, gen_buf(t), false);
        w.pump();
        break;
      }
      case 4: {  // parent writes to stdin
        if (in_closed) {
          uint8_t x = 1;
          int r = reproc_write(ch.p, &x, 1);
          if (r != REPROC_EPIPE) fail("write-after-close", "write to a closed stdin returned " + std::to_string(r));
          break;
        }
        uint64_t n = std::min<uint64_t>(gen_size(t, 65536), 65536);
        uint64_t in_pipe = in_accepted - k.in_read;
        bool reader_gone = !k.alive || k.closed[0];
        if (!nonblocking && !reader_gone && in_pipe + n > 60000) break;  // a blocking write must not wait for ever
        for (uint64_t i = 0; i < n; i++) wbuf[i] = pup_pattern(0, in_accepted + i);
        unsigned fired0 = vs_nth_fired();
        bool armed = n > 0 && t.chance(1, 12);
        if (armed) vs_fail_nth(VS_WRITE, 0);
        int r = reproc_write(ch.p, wbuf.data(), (size_t) n);
        if (armed) {
          vs_fail_nth(-1, -1);
          if (vs_nth_fired() != fired0 && r == -EINTR) {
            cls_interrupted = true;
            log.push_back("write(" + std::to_string(n) + ")=EINTR");
            break;
          }
        }
        log.push_back("write(" + std::to_string(n) + ")=" + std::to_string(r));
        if (r > 0) {
          if ((uint64_t) r > n) fail("write-overrun", "write returned more than was offered");
          in_accepted += (uint64_t) r;
        } else if (r == REPROC_EPIPE) {
          // (with the reader gone a zero-size write may or may not notice, K9; with the reader there it must simply return 0)
          if (!reader_gone) fail("write-epipe-with-reader", "write of " + std::to_string(n) + " byte(s) returned the closed-pipe error although the child still has stdin open");
          in_closed = true;
        } else if (r == REPROC_EWOULDBLOCK) {
          if (!nonblocking) fail("would-block-in-blocking-mode", "a blocking write returned the would-block error");
        } else if (r != 0) {
          fail("write-error", "write returned " + std::to_string(r));
        }
        break;
      }
      case 5: {  // child reads stdin
        if (!k.alive || k.closed[0]) break;
        w.perform({ kid, vt::A_READ, 0, gen_size(t, 1 << 20) + 1 });
        log.push_back("child reads stdin (total " + std::to_string(k.in_read) + ")");
        break;
      }
      case 6: {  // parent closes a stream
        int s = (int) t.pick(3);
        if (t.chance(3, 4)) s = 0;
        reproc_close(ch.p, (REPROC_STREAM) s);
        if (s == 0) in_closed = true;
        else sc[s].parent_closed = true;
        log.push_back("parent closes " + std::to_string(s));
        break;
      }
      default: {  // poll
        reproc_event_source src = { ch.p, (int) t.pick(16), 0 };
        int r = reproc_poll(&src, 1, 0);
        log.push_back("poll=" + std::to_string(r) + "/" + std::to_string(src.events));
        break;
      }
    }
    if (wrote[1] && wrote[2] && err_mode == 0) cls_interleaved = true;
  }

  // ---- drain everything to the end ----------------------------------------------
  if (res.kind == CaseResult::PASS) {
    if (!in_closed) {
      reproc_close(ch.p, REPROC_STREAM_IN);
      in_closed = true;
    }
    // the child consumes the rest of stdin, then ends (after all queued output is out)
    int eof_attempts = 0;
    for (int guard = 0; guard < 4000 && res.kind == CaseResult::PASS; guard++) {
      bool progress = false;
      for (int s = 1; s <= 2; s++) {
        bool piped = s == 1 || err_mode == 0;
        if (!piped || sc[s].parent_closed || sc[s].epipe) continue;
        uint64_t before = sc[s].delivered;
        uint64_t pend = written(s) - sc[s].delivered;
        if (pend > 0 || far_closed(s) || nonblocking) {
          do_read(s, 65536, true);
          if (sc[s].delivered != before || sc[s].epipe) progress = true;
        }
      }
      w.pump();
      if (k.alive && !k.closed[0] && !k.in_eof) {
        uint64_t before = k.in_read;
        w.perform({ kid, vt::A_READ, 0, 1 << 20 });
        if (k.in_read != before || k.in_eof) progress = true;
        else if (k.in_read == in_accepted && ++eof_attempts >= 3) {
          fail("stdin-no-eof", "stdin was closed by the parent and fully consumed (" + std::to_string(in_accepted) + " bytes), but the child's reads still do not see end-of-file");
          break;
        }
      }
      if (k.alive && !k.queued[1] && !k.queued[2] && (k.in_eof || k.closed[0])) {
        w.perform({ kid, vt::A_EXIT, 0, 0 });
        progress = true;
      }
      bool all_done = !k.alive;
      for (int s = 1; s <= 2; s++) {
        bool piped = s == 1 || err_mode == 0;
        if (piped && !sc[s].parent_closed && !sc[s].epipe) all_done = false;
      }
      if (all_done) break;
      if (!progress && guard > 50) {
        fail("stalled", "no progress while draining: delivered out " + std::to_string(sc[1].delivered) + "/" + std::to_string(written(1)) + ", err " + std::to_string(sc[2].delivered) + "/" + std::to_string(written(2)) + ", child alive=" + std::to_string(k.alive));
        break;
      }
    }
  }
  if (res.kind == CaseResult::PASS) {
    for (int s = 1; s <= 2; s++) {
      bool piped = s == 1 || err_mode == 0;
      if (!piped || sc[s].parent_closed) continue;
      if (!sc[s].epipe) fail("no-end-of-stream", std::string(s == 1 ? "stdout" : "stderr") + " never reported its end although the child is gone");
      else if (sc[s].delivered != written(s)) fail("data-lost-at-end", std::string(s == 1 ? "stdout" : "stderr") + ": delivered " + std::to_string(sc[s].delivered) + " of " + std::to_string(written(s)) + " bytes");
      else {
        int r = reproc_read(ch.p, s == 1 ? REPROC_STREAM_OUT : REPROC_STREAM_ERR, buf.data(), 16);
        if (r != REPROC_EPIPE) fail("epipe-not-sticky", "after the end of the stream a further read returned " + std::to_string(r));
      }
    }
    // stdin as the child saw it
    if (!k.closed[0] || k.in_eof) {
      if (k.in_mismatch != UINT64_MAX) fail("stdin-content", "the child's stdin differs from what was written at offset " + std::to_string(k.in_mismatch));
      else if (k.in_read > in_accepted) fail("stdin-invented", "the child read " + std::to_string(k.in_read) + " bytes, only " + std::to_string(in_accepted) + " were accepted by writes");
      else if (k.in_eof && k.in_read != in_accepted) fail("stdin-lost", "the child saw end-of-file after " + std::to_string(k.in_read) + " of " + std::to_string(in_accepted) + " accepted bytes");

    }
  }

  res.nontrivial = cls_big || cls_zero_buf || cls_interleaved || cls_input;
  res.cls("engine-V");
  if (cls_big) res.cls("stream-above-64KiB");
  if (cls_zero_buf) res.cls("zero-size-buffer");
  if (cls_interleaved) res.cls("stdout-and-stderr-interleaved");
  if (cls_input) res.cls("startup-input");
  if (cls_interrupted) res.cls("interrupted-read-or-write");
  if (err_mode == 1) res.cls("stderr-to-stdout");
  res.cls(nonblocking ? "nonblocking" : "blocking");
  uint64_t h = (uint64_t) nonblocking | (uint64_t) err_mode << 1 | (uint64_t) in_mode << 3;
  for (auto &l : log) h = mix(h, fnv(l));
  res.hash = h;
  std::vector<std::string> jl;
  for (size_t i = 0; i < log.size() && i < 40; i++) jl.push_back(jstr(log[i]));
  res.describe = J().kv("engine", "V").kv("nonblocking", nonblocking).kv("stderr", err_mode == 0 ? "pipe" : err_mode == 1 ? "to-stdout" : "discard").kv("stdin", in_mode == 0 ? "reproc_write" : in_mode == 1 ? "startup-input(" + std::to_string(input_size) + ")" : "closed-at-once").raw("steps", jarr(jl)).str();
  if (!w.trouble.empty()) {
    res.kind = CaseResult::INCONCLUSIVE;
    res.msg = "harness: " + w.trouble + (res.msg.empty() ? "" : " / " + res.msg);
  }
  teardown();
  std::string lsig, lp = hz::ledger_problems(ch.fds_before, lsig);
  if (!lp.empty() && res.kind == CaseResult::PASS) res.fail(lsig, "after destroy: " + lp);
  return res;
}

// ------------------------------------------------------------------ R ----
struct SinkState {
  uint64_t got[3] = { 0, 0, 0 };
  bool closed[3] = { false, false, false };
  std::string problem;
  bool merged = false;
};

int verify_sink(REPROC_STREAM stream, const uint8_t *buffer, size_t size, void *context)
{
  SinkState *st = (SinkState *) context;
  int s = stream == REPROC_STREAM_OUT ? 1 : stream == REPROC_STREAM_ERR ? 2 : 0;
  if (s == 0) return 0;
  if (size == 0) {
    st->closed[s] = true;
    return 0;
  }
  for (size_t i = 0; i < size; i++)
    if (buffer[i] != pup_pattern(s, st->got[s] + i)) {
      if (st->problem.empty()) st->problem = std::string(s == 1 ? "stdout" : "stderr") + " byte at offset " + std::to_string(st->got[s] + i) + " differs from what the child wrote";
      return 0;
    }
  st->got[s] += size;
  return 0;
}

CaseResult run_r(Tape &t)
{
  CaseResult res;
  vs_init();
  vs_reset();
  uint64_t cap = fw::tier() == "thorough" ? (64ull << 20) : (8ull << 20);
  uint64_t out_n = gen_size(t, cap), err_n = gen_size(t, cap), in_n = gen_size(t, cap);
  if (t.chance(1, 2)) out_n = std::max<uint64_t>(out_n, (1 << 20) + (uint64_t) t.range(0, 70000));
  bool use_drain = t.chance(1, 3);
  bool echo = !use_drain && t.chance(1, 4);
  bool nonblocking = true;
  uint64_t chunk = (uint64_t[]){ 1, 100, 4096, 65536 }[t.pick(4)];
  if (out_n + err_n > (1 << 20)) chunk = std::max<uint64_t>(chunk, 4096);
  // drain on a BLOCKING handle (drain asks poll before every read, so nothing may wait on one stream while the child is
  // stuck on the other); half of those with one stream an exact multiple of drain's buffer that then stays quiet but
  // open while the other stream carries more than a pipe holds
  if (use_drain && t.coin()) {
    nonblocking = false;
    if (t.coin()) {
      uint64_t quiet = 4096 * (uint64_t) t.range(1, 15), busy = 70000 + (uint64_t) t.range(0, 400000);
      bool out_quiet = t.coin();
      out_n = out_quiet ? quiet : busy;
      err_n = out_quiet ? busy : quiet;
      chunk = 4096;
    }
  }
  if (use_drain) in_n = std::min<uint64_t>(in_n, 60000);  // drain does not feed stdin: it must fit the pipe
  if (echo) err_n = std::min<uint64_t>(err_n, 65536);
  hz::Puppet pup(fw::case_dir() + "/ctl");
  reproc_options opt;
  memset(&opt, 0, sizeof(opt));
  opt.redirect.err.type = REPROC_REDIRECT_PIPE;
  opt.nonblocking = nonblocking;
  opt.stop = { { REPROC_STOP_WAIT, 10000 }, { REPROC_STOP_KILL, 5000 }, { REPROC_STOP_NOOP, 0 } };
  const char *argv[] = { pup.exe().c_str(), "bulk", nullptr };
  auto fds0 = hz::snapshot_self_fds();
  reproc_t *p = reproc_new();
  int r = reproc_start(p, argv, opt);
  res.describe = J().kv("engine", "R").kv("stdout_bytes", (unsigned long long) out_n).kv("stderr_bytes", (unsigned long long) err_n).kv("stdin_bytes", (unsigned long long) in_n).kv("child_chunk", (unsigned long long) chunk).kv("via_drain", use_drain).kv("echo", echo).str();
  res.cls("engine-R");
  res.nontrivial = out_n > 65536 || err_n > 65536 || in_n > 65536;
  if (res.nontrivial) res.cls("stream-above-64KiB");
  if (use_drain) res.cls(nonblocking ? "via-drain" : "via-drain:blocking-handle");
  res.hash = mix(mix(out_n, err_n), mix(in_n, chunk * 4 + use_drain * 2 + echo));
  if (r <= 0 || !pup.wait_ready(10000, reproc_pid(p))) {
    res.inconclusive("start/ready: " + std::to_string(r) + " " + pup.error());
    reproc_destroy(p);
    return res;
  }
  const int code = 42;
  pup_ack ack;
  // flags: 1 read stdin to EOF verifying the pattern, 2 echo stdin to stdout
  pup.cmd(PUP_RUN, (uint32_t) code, echo ? 0 : out_n, err_n, chunk, (uint64_t) (1 | (echo ? 2 : 0)), &ack);
  uint64_t sent = 0;
  uint64_t got[3] = { 0, 0, 0 };
  bool ended[3] = { false, false, false };
  std::vector<uint8_t> buf(1 << 16), wbuf(1 << 16);
  auto fail = [&](const std::string &sig, const std::string &m) { res.fail(sig, m); };
  uint64_t expect_out = echo ? in_n : out_n;
  int out_src = echo ? 0 : 1;  // pattern stream of the bytes arriving on stdout

  if (use_drain) {
    // stdin first (fits the pipe), then drain
    while (sent < in_n && res.kind == CaseResult::PASS) {
      size_t n = (size_t) std::min<uint64_t>(in_n - sent, wbuf.size());
      for (size_t i = 0; i < n; i++) wbuf[i] = pup_pattern(0, sent + i);
      int wr = reproc_write(p, wbuf.data(), n);
      if (wr > 0) sent += (uint64_t) wr;
      else if (wr != REPROC_EWOULDBLOCK) fail("write-error", "write returned " + std::to_string(wr));
      else usleep(200);
    }
    reproc_close(p, REPROC_STREAM_IN);
    SinkState st;
    reproc_sink sink = { verify_sink, &st };
    int dr = reproc_drain(p, sink, sink);
    if (dr != 0) fail("drain-result", "reproc_drain returned " + std::to_string(dr));
    if (!st.problem.empty()) fail("content", st.problem);
    got[1] = st.got[1];
    got[2] = st.got[2];
    ended[1] = st.closed[1];
    ended[2] = st.closed[2];
  } else {
    bool in_open = true;
    int idle = 0;
    while ((!ended[1] || !ended[2]) && res.kind == CaseResult::PASS) {
      int interests = 0;
      if (!ended[1]) interests |= REPROC_EVENT_OUT;
      if (!ended[2]) interests |= REPROC_EVENT_ERR;
      if (in_open) interests |= REPROC_EVENT_IN;
      reproc_event_source src = { p, interests, 0 };
      int pr = reproc_poll(&src, 1, 20000);
      if (pr == 0) {
        if (++idle >= 1) {
          fail("hang", "no event for 20 s of real time: out " + std::to_string(got[1]) + "/" + std::to_string(expect_out) + ", err " + std::to_string(got[2]) + "/" + std::to_string(err_n) + ", stdin " + std::to_string(sent) + "/" + std::to_string(in_n));
          break;
        }
        continue;
      }
      if (pr < 0) {
        fail("poll-error", "poll returned " + std::to_string(pr));
        break;
      }
      for (int s = 1; s <= 2; s++) {
        int bit = s == 1 ? REPROC_EVENT_OUT : REPROC_EVENT_ERR;
        if (!(src.events & bit)) continue;
        int rr = reproc_read(p, s == 1 ? REPROC_STREAM_OUT : REPROC_STREAM_ERR, buf.data(), buf.size());
        if (rr > 0) {
          int ps = s == 1 ? out_src : 2;
          for (int i = 0; i < rr; i++)
            if (buf[(size_t) i] != pup_pattern(ps, got[s] + (uint64_t) i)) {
              fail("content", std::string(s == 1 ? "stdout" : "stderr") + " byte at offset " + std::to_string(got[s] + (uint64_t) i) + " differs from what the child wrote there");
              break;
            }
          got[s] += (uint64_t) rr;
        } else if (rr == REPROC_EPIPE) {
          ended[s] = true;
        } else if (rr != REPROC_EWOULDBLOCK) {
          fail("read-error", "read returned " + std::to_string(rr));
        }
      }
      if ((src.events & REPROC_EVENT_IN) && in_open) {
        if (sent < in_n) {
          size_t n = (size_t) std::min<uint64_t>(in_n - sent, wbuf.size());
          for (size_t i = 0; i < n; i++) wbuf[i] = pup_pattern(0, sent + i);
          int wr = reproc_write(p, wbuf.data(), n);
          if (wr > 0) sent += (uint64_t) wr;
          else if (wr == REPROC_EPIPE) {
            fail("write-epipe-with-reader", "write returned the closed-pipe error while the child was still reading stdin");
          } else if (wr != REPROC_EWOULDBLOCK) fail("write-error", "write returned " + std::to_string(wr));
        }
        if (sent >= in_n) {
          reproc_close(p, REPROC_STREAM_IN);
          in_open = false;
        }
      }
    }
  }
  if (res.kind == CaseResult::PASS) {
    if (got[1] != expect_out) fail("data-lost-at-end", "stdout ended after " + std::to_string(got[1]) + " of " + std::to_string(expect_out) + " bytes");
    if (got[2] != err_n) fail("data-lost-at-end", "stderr ended after " + std::to_string(got[2]) + " of " + std::to_string(err_n) + " bytes");
    int st = reproc_wait(p, 20000);
    if (st != code) fail("exit-status", "the child was told to exit with " + std::to_string(code) + ", wait returned " + std::to_string(st));
    std::map<std::string, long long> rep;
    if (!pup.read_result(rep)) fail("no-child-report", "the child did not write its report");
    else {
      if (rep["in_mismatch"] >= 0) fail("stdin-content", "the child's stdin differs from what was written at offset " + std::to_string(rep["in_mismatch"]));
      if ((uint64_t) rep["in_total"] != sent) fail("stdin-lost", "the child read " + std::to_string(rep["in_total"]) + " bytes, writes accepted " + std::to_string(sent));
      if (!rep["in_eof"]) fail("stdin-no-eof", "the child never saw end-of-file on stdin");
    }
  }
  reproc_destroy(p);
  std::string lsig, lp = hz::ledger_problems(fds0, lsig);
  if (!lp.empty() && res.kind == CaseResult::PASS) res.fail(lsig, "after destroy: " + lp);
  return res;
}

// Fork mode on the real clock: the child is this process continuing after
// reproc_start returned 0. It writes its pattern, closes stdout and stderr and
// then lingers (it reads stdin to the end): the parent must see end-of-stream on
// both output streams while the child is still running, and the child must see
// end-of-file on stdin when the parent closes it.
int64_t real_ms()
{
  struct timespec ts;
  clock_gettime(CLOCK_MONOTONIC, &ts);
  return (int64_t) ts.tv_sec * 1000 + ts.tv_nsec / 1000000;
}

CaseResult run_f(Tape &t)
{
  CaseResult res;
  vs_init();
  vs_reset();
  size_t out_n = (size_t[]){ 0, 1, 4096, 65536, 65537, 200000 }[t.pick(6)];
  size_t err_n = (size_t[]){ 0, 1, 5000, 70000 }[t.pick(4)];
  bool err_to_out = t.chance(1, 4);
  reproc_options opt;
  memset(&opt, 0, sizeof(opt));
  opt.fork = true;
  opt.redirect.err.type = err_to_out ? REPROC_REDIRECT_STDOUT : REPROC_REDIRECT_PIPE;
  opt.stop = { { REPROC_STOP_WAIT, 5000 }, { REPROC_STOP_KILL, 5000 }, { REPROC_STOP_NOOP, 0 } };
  res.describe = J().kv("engine", "R, fork mode").kv("stdout_bytes", (unsigned long) out_n).kv("stderr_bytes", (unsigned long) err_n).kv("stderr_to_stdout", err_to_out).str();
  res.cls("engine:fork-mode");
  res.nontrivial = true;
  res.hash = mix(0xf02c, (uint64_t) out_n * 100003 + (uint64_t) err_n * 7 + err_to_out);
  auto fds0 = hz::snapshot_self_fds();
  reproc_t *p = reproc_new();
  fflush(nullptr);
  int r = reproc_start(p, nullptr, opt);
  if (r == 0) {
    // ---- child ----
    reproc_destroy(p);
    std::vector<uint8_t> buf(65536);
    for (int s = 1; s <= 2; s++) {
      size_t n = s == 1 ? out_n : err_n, off = 0;
      while (off < n) {
        size_t k = std::min(buf.size(), n - off);
        for (size_t i = 0; i < k; i++) buf[i] = pup_pattern(s, off + i);
        ssize_t w = write(s, buf.data(), k);
        if (w <= 0) _exit(3);
        off += (size_t) w;
      }
    }
    close(1);
    close(2);
    char c;
    while (read(0, &c, 1) > 0) {
    }
    _exit(7);
  }
  if (r < 0) {
    res.fail("fork-start-failed", "fork-mode start returned " + std::to_string(r));
    reproc_destroy(p);
    return res;
  }
  pid_t pid = reproc_pid(p);
  size_t got[3] = { 0, 0, 0 };
  bool eof[3] = { true, false, err_to_out };
  size_t want[3] = { 0, err_to_out ? out_n + err_n : out_n, err_to_out ? 0 : err_n };
  int64_t t_end = real_ms() + 8000;
  std::vector<uint8_t> buf(65536);
  while ((!eof[1] || !eof[2]) && res.kind == CaseResult::PASS) {
    int64_t left = t_end - real_ms();
    if (left <= 0) {
      res.fail("fork-child-closed-stream-not-seen", std::string("the forked child closed its ") + (!eof[1] ? "stdout" : "stderr") + " and is still running, but no end-of-stream is reported (read " + std::to_string(got[1]) + "/" + std::to_string(want[1]) + " and " + std::to_string(got[2]) + "/" + std::to_string(want[2]) + " bytes)");
      break;
    }
    reproc_event_source src = { p, (!eof[1] ? REPROC_EVENT_OUT : 0) | (!eof[2] ? REPROC_EVENT_ERR : 0), 0 };
    int pr = reproc_poll(&src, 1, (int) std::min<int64_t>(left, 500));
    if (pr < 0) {
      res.fail("poll-error", "reproc_poll returned " + std::to_string(pr));
      break;
    }
    for (int s = 1; s <= 2; s++) {
      if (!(src.events & (s == 1 ? REPROC_EVENT_OUT : REPROC_EVENT_ERR))) continue;
      int k = reproc_read(p, s == 1 ? REPROC_STREAM_OUT : REPROC_STREAM_ERR, buf.data(), buf.size());
      if (k == REPROC_EPIPE) {
        eof[s] = true;
        if (got[s] != want[s]) res.fail("epipe-before-all-data", std::string(s == 1 ? "stdout" : "stderr") + ": closed-stream error after " + std::to_string(got[s]) + " of " + std::to_string(want[s]) + " bytes");
      } else if (k > 0) {
        if (!err_to_out)
          for (int i = 0; i < k; i++)
            if (buf[(size_t) i] != pup_pattern(s, got[s] + (size_t) i)) {
              res.fail("bytes-differ", std::string(s == 1 ? "stdout" : "stderr") + " differs at offset " + std::to_string(got[s] + (size_t) i));
              break;
            }
        got[s] += (size_t) k;
        if (got[s] > want[s]) res.fail("bytes-invented", std::string(s == 1 ? "stdout" : "stderr") + ": more bytes than the child wrote");
      } else {
        res.fail("read-error", "reproc_read returned " + std::to_string(k));
      }
    }
  }
  if (res.kind == CaseResult::PASS && (hz::is_dead(pid) || !hz::pid_exists(pid))) res.inconclusive("the forked child ended before its stdin was closed");
  int c = reproc_close(p, REPROC_STREAM_IN);
  (void) c;
  int st = reproc_wait(p, 8000);
  if (res.kind == CaseResult::PASS && st != 7) res.fail(st == REPROC_ETIMEDOUT ? "stdin-no-eof" : "wrong-status", "after reproc_close(stdin) the forked child (which reads stdin to the end and exits with 7) gave " + std::to_string(st));
  reproc_destroy(p);
  if (hz::pid_exists(pid) && !hz::is_dead(pid)) {
    kill(pid, SIGKILL);
  }
  hz::reap_quietly(pid);
  std::string lsig, lp = hz::ledger_problems(fds0, lsig);
  if (!lp.empty() && res.kind == CaseResult::PASS) res.fail(lsig, "after destroy: " + lp);
  return res;
}

CaseResult run_case(Tape &t, long)
{
  // one case in ten is a real-clock bulk transfer, one in twenty a fork-mode child
  if (t.chance(1, 10)) return run_r(t);
  CaseResult v = run_v(t);
  if (v.kind == CaseResult::PASS && t.chance(1, 20)) {
    CaseResult f = run_f(t);
    for (auto &c : f.classes) v.classes.push_back(c);
    if (f.kind == CaseResult::FAIL) {
      v.fail(f.sig, f.msg);
      v.describe = f.describe;
    }
  }
  return v;
}

}  // namespace

fw::PropertyDef fw::make_property()
{
  PropertyDef p;
  p.id = "C02";
  p.isolate = true;
  p.case_timeout_s = 120;
  p.tape_len = 256;
  p.run = run_case;
  return p;
}
