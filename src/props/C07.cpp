// C07 — stop sequences escalate in order, report truthfully and respect their
// timeouts. Engine V (virtual time): all 5^3 action shapes are enumerated,
// timeouts / child behaviour / deadline / handle state are generated; an
// independent interpreter of the documented contract (model/stop_model.hpp)
// predicts the signal log, the virtual duration and the result exactly.
#include "common/fw.hpp"
#include "common/harness.hpp"
#include "common/ledger.hpp"
#include "common/vtime.hpp"
#include "model/stop_model.hpp"

using namespace fw;

namespace {

const int kActionKinds[5] = { 0, 1, 2, 3, 99 };  // noop, wait, terminate, kill, out-of-range

struct Case {
  model::StopAction act[3];
  int term_mode = 0;
  int64_t term_delay = 0;
  int64_t self_exit_after = model::T_INF;  // relative to start
  int exit_code = 0;
  int deadline = 0;            // option value, 0 = none
  int64_t stop_after = 0;      // stop is called this long after start
  int pre = 0;                 // 0 nothing, 1 wait(INFINITE) before stop (reaped state; needs a child that exits), 2 wait(0) before stop
  int64_t epoch = 1000000;
  int fail_wait = -1;          // the wait of this executed step is interrupted (EINTR) ...
  bool far = false;            // stop is called weeks after the start
  int64_t fail_offset = 0;     // ... by the first poll the library enters this long after the wait began
};

int gen_timeout(Tape &t, const Case &c)
{
  switch (t.weighted({ 3, 5, 2, 2 })) {
    case 0: return 0;
    case 1: {
      switch (t.pick(4)) {
        case 0: return (int) t.range(1, 50);
        case 1: return (int) t.range(51, 5000);
        case 2: return (int) t.range(5001, 10000000);
        default: {
          // constructed relative to the child's behaviour: around the delay / exit time
          int64_t ref = c.term_mode == 2 ? c.term_delay : (c.self_exit_after != model::T_INF ? c.self_exit_after - c.stop_after : 100);
          int64_t v = ref + (int64_t) t.pick(3) - 1;
          if (v < 0) v = 0;
          if (v > 10000000) v = 10000000;
          return (int) v;
        }
      }
    }
    case 2: return model::TO_INFINITE;
    default: return model::TO_DEADLINE;
  }
}

Case decode(Tape &t, long sweep)
{
  Case c;
  int shape[3];
  int behaviour;
  if (sweep >= 0) {
    long k = sweep;
    shape[0] = (int) (k % 5);
    k /= 5;
    shape[1] = (int) (k % 5);
    k /= 5;
    shape[2] = (int) (k % 5);
    k /= 5;
    behaviour = (int) (k % 8);
  } else {
    for (int i = 0; i < 3; i++) shape[i] = (int) t.pick(5);
    behaviour = (int) t.pick(8);
  }
  // child behaviours: 0 dies on TERM at once; 1 ignores TERM; 2 dies after a short delay; 3 dies after a long delay;
  // 4 exits by itself early (before stop); 5 exits by itself during the sequence; 6 exits by itself late; 7 exits by itself and ignores TERM
  c.stop_after = (int64_t) t.range(0, 2000);
  switch (behaviour) {
    case 0: c.term_mode = 0; break;
    case 1: c.term_mode = 1; break;
    case 2: c.term_mode = 2; c.term_delay = (int64_t) t.range(0, 50); break;
    case 3: c.term_mode = 2; c.term_delay = (int64_t) t.range(51, 200000); break;
    case 4: c.term_mode = (int) t.pick(3); c.term_delay = (int64_t) t.range(0, 100); c.self_exit_after = (int64_t) t.range(0, c.stop_after); break;
    case 5: c.term_mode = (int) t.pick(3); c.term_delay = (int64_t) t.range(0, 100); c.self_exit_after = c.stop_after + (int64_t) t.range(0, 3000); break;
    case 6: c.term_mode = (int) t.pick(3); c.term_delay = (int64_t) t.range(0, 100); c.self_exit_after = c.stop_after + (int64_t) t.range(3001, 20000000); break;
    default: c.term_mode = 1; c.self_exit_after = c.stop_after + (int64_t) t.range(1, 100000); break;
  }
  c.exit_code = (int) t.pick(256);
  switch (t.weighted({ 4, 3, 3 })) {
    case 0: c.deadline = 0; break;
    case 1: c.deadline = (int) (c.stop_after + t.range(1, 100000)); break;   // still in the future when stop is called
    default: c.deadline = (int) t.range(1, c.stop_after > 0 ? c.stop_after : 1); break;  // expired (or expiring) by then
  }
  for (int i = 0; i < 3; i++) {
    int kind = kActionKinds[shape[i]];
    if (kind == 99) {
      static const int bad[3] = { 4, 7, -1 };
      kind = bad[t.pick(3)];
    }
    c.act[i].action = kind;
    c.act[i].timeout = gen_timeout(t, c);
  }
  c.pre = (int) t.weighted({ 6, 2, 2 });
  if (c.pre == 1 && c.self_exit_after == model::T_INF) c.pre = 2;
  static const int64_t epochs[] = { 1000000, 1, 1700000000000LL, 2147483000LL, 2199023255000LL, 4102444800000LL };
  c.epoch = epochs[t.pick(6)];
  if (t.chance(1, 5)) {
    c.fail_wait = (int) t.pick(3);
    if (t.chance(1, 3)) c.fail_offset = (int64_t) t.range(1, 3000);
  }
  // a handle that lives for weeks: stop is called 2^31 .. 2^33 ms after the start, long after any deadline
  if (t.chance(1, 15)) {
    static const int64_t far[] = { 2147483647LL, 2147483648LL, 2147483700LL, 3000000000LL, 4294967296LL + 17, 6442450944LL, 8589934592LL + 3 };
    int64_t f = far[t.pick(7)];
    if (c.self_exit_after != model::T_INF && c.self_exit_after >= c.stop_after) c.self_exit_after += f;
    c.stop_after += f;
    c.far = true;
  }
  return c;
}

std::string to_name(int timeout)
{
  if (timeout == model::TO_INFINITE) return "INFINITE";
  if (timeout == model::TO_DEADLINE) return "DEADLINE";
  return std::to_string(timeout);
}

std::string action_name(int a)
{
  static const char *n[] = { "noop", "wait", "terminate", "kill" };
  return a >= 0 && a <= 3 ? n[a] : "out-of-range(" + std::to_string(a) + ")";
}

CaseResult run_case(Tape &t, long sweep)
{
  CaseResult res;
  Case c = decode(t, sweep);
  vs_init();
  vs_reset();
  vt::World w;
  w.now = c.epoch;
  w.install();

  reproc_options opt;
  memset(&opt, 0, sizeof(opt));
  opt.redirect.discard = true;
  opt.deadline = c.deadline;
  opt.stop = { { REPROC_STOP_KILL, 5000 }, { REPROC_STOP_NOOP, 0 }, { REPROC_STOP_NOOP, 0 } };
  vt::VChild ch;
  std::string err = vt::start_puppet(w, fw::case_dir() + "/ctl", opt, ch);
  std::vector<std::string> steps;
  for (int i = 0; i < 3; i++) steps.push_back(jstr(action_name(c.act[i].action) + "/" + to_name(c.act[i].timeout)));
  static const char *tm[] = { "dies-on-TERM", "ignores-TERM", "dies-after-delay" };
  res.describe = J().raw("stop", jarr(steps))
                     .kv("child_term", tm[c.term_mode])
                     .kv("term_delay", (long long) c.term_delay)
                     .kv("self_exit_after", c.self_exit_after == model::T_INF ? -1LL : (long long) c.self_exit_after)
                     .kv("exit_code", c.exit_code)
                     .kv("deadline", c.deadline)
                     .kv("stop_called_after", (long long) c.stop_after)
                     .kv("pre", c.pre)
                     .kv("epoch", (long long) c.epoch)
                     .kv("wait_interrupted_at_step", c.fail_wait)
                     .kv("interrupt_offset", (long long) c.fail_offset)
                     .str();
  if (!err.empty() || ch.start_result <= 0) {
    w.uninstall();
    res.inconclusive("start: " + err + " r=" + std::to_string(ch.start_result));
    if (ch.p) reproc_destroy(ch.p);
    return res;
  }
  int64_t t_start = ch.t_start;
  w.set_term_mode(ch.kid, c.term_mode, c.term_delay);
  if (c.self_exit_after != model::T_INF) w.schedule(t_start + c.self_exit_after, ch.kid, vt::A_EXIT, (uint32_t) c.exit_code);
  w.advance_to(t_start + c.stop_after);

  // handle state on entry
  bool reaped = false;
  int cached = -1;
  if (c.pre == 1) {
    int r0 = reproc_wait(ch.p, REPROC_INFINITE);
    if (r0 >= 0) {
      reaped = true;
      cached = r0;
    }
  } else if (c.pre == 2) {
    int r0 = reproc_wait(ch.p, 0);
    if (r0 >= 0) {
      reaped = true;
      cached = r0;
    }
  }
  // in a quarter of the cases with a deadline the caller polls first (timeout 0; an expired deadline is
  // reported as an event): reporting a deadline must not change what a later stop does with it
  if (c.deadline && !reaped && (c.stop_after + (int64_t) c.exit_code) % 4 == 0) {
    reproc_event_source src = { ch.p, REPROC_EVENT_EXIT, 0 };
    int64_t tp = w.now;
    int pr = reproc_poll(&src, 1, 0);
    res.cls((pr == 1 && (src.events & REPROC_EVENT_DEADLINE)) ? "polled-first:deadline-reported" : "polled-first");
    if (w.now != tp) res.fail("zero-timeout-poll-waited", "a poll with timeout 0 before the stop let " + std::to_string(w.now - tp) + " ms pass");
  }
  vt::Kid &k = w.kids[(size_t) ch.kid];
  model::ChildScript cs;
  cs.term_mode = c.term_mode;
  cs.term_delay = c.term_delay;
  cs.self_exit_at = c.self_exit_after == model::T_INF ? model::T_INF : t_start + c.self_exit_after;
  cs.exit_code = c.exit_code;
  if (!k.alive) {
    cs.dead = true;
    cs.died_at = k.died_at;
    cs.status = k.expected_status;
  }
  int64_t deadline_abs = c.deadline ? t_start + c.deadline : model::T_INF;
  int64_t t0 = w.now;
  size_t sig0 = w.signals.size();
  (void) w.polls;
  int reaps0 = vs_reaps(ch.pid);

  reproc_stop_actions sa = { { (REPROC_STOP) c.act[0].action, c.act[0].timeout }, { (REPROC_STOP) c.act[1].action, c.act[1].timeout }, { (REPROC_STOP) c.act[2].action, c.act[2].timeout } };
  // The interruption is placed in virtual time, not by counting the library's
  // calls: the first poll entered at or after the chosen moment fails with
  // EINTR, and the moment it was delivered at tells which wait it hit.
  if (c.fail_wait >= 0 && !reaped) {
    model::StopExpect at = model::interpret_stop(c.act, cs, t0, deadline_abs, reaped, cached, true, c.fail_wait, EINTR);
    if (at.kind == model::StopExpect::WAIT_ERROR) w.intr_poll_at = at.end + c.fail_offset;
  }
  // every finite bound of this request, so that an unbounded wait made of
  // bounded polls is still recognised as one
  {
    int64_t bound = 10000;
    for (int i = 0; i < 3; i++)
      if (c.act[i].timeout > 0) bound += c.act[i].timeout;
    if (c.deadline) bound += c.deadline;
    if (c.term_mode == 2) bound += c.term_delay;
    w.call_begins(bound);
  }
  int r = reproc_stop(ch.p, sa);
  w.intr_poll_at = -1;
  int64_t intr_at = w.intr_fired_at;
  int64_t t1 = w.now;

  // ---- compare with the interpreter (both tie resolutions; every wait an
  // observed interruption can have belonged to) ------------------------------
  std::string first_problem, first_sig;
  bool matched = false, any_candidate = false;
  model::StopExpect shown;
  for (int cand = 0; cand < (intr_at >= 0 ? 6 : 2) && !matched; cand++) {
    int variant = cand % 2;
    model::StopExpect e = model::interpret_stop(c.act, cs, t0, deadline_abs, reaped, cached, variant == 0, intr_at >= 0 ? cand / 2 : -1, EINTR, intr_at);
    if (intr_at >= 0 && e.kind != model::StopExpect::WAIT_ERROR) continue;  // the interruption cannot have hit this wait
    if (!any_candidate) shown = e;
    any_candidate = true;
    std::string problem, sig;
    auto bad = [&](const std::string &s, const std::string &m) {
      if (problem.empty()) {
        problem = m;
        sig = s;
      }
    };
    // signals
    std::vector<vt::SigEvent> got(w.signals.begin() + (long) sig0, w.signals.end());
    if (e.kind == model::StopExpect::HANG) {
      if (!w.hang) bad("returned-instead-of-waiting", "the contract makes this stop wait without bound (child never ends), but it returned " + std::to_string(r) + " at +" + std::to_string(t1 - t0) + " ms");
      else if (w.hang_by_horizon ? w.hang_at < e.end : w.hang_at != e.end) bad("wrong-duration", "unbounded wait began at +" + std::to_string(w.hang_at - t0) + " ms, expected +" + std::to_string(e.end - t0));
    } else {
      if (w.hang) bad("blocked-forever", "stop blocked without bound (" + w.hang_what + " at +" + std::to_string(w.hang_at - t0) + " ms) although the contract bounds it: " + e.trace);
    }
    if (got.size() != e.signals.size()) {
      std::string g;
      for (auto &s : got) g += (s.sig == 15 ? " TERM@+" : " KILL@+") + std::to_string(s.at - t0);
      std::string x;
      for (auto &s : e.signals) x += (s.sig == 15 ? " TERM@+" : " KILL@+") + std::to_string(s.at - t0);
      bad("wrong-signals", "signals sent:" + (g.empty() ? " none" : g) + "; expected:" + (x.empty() ? " none" : x));
    } else {
      for (size_t i = 0; i < got.size(); i++) {
        if (got[i].sig != e.signals[i].sig) bad("wrong-signal-order", "signal " + std::to_string(i) + " is " + std::to_string(got[i].sig) + ", expected " + std::to_string(e.signals[i].sig));
        else if (got[i].at != e.signals[i].at) bad("wrong-signal-time", "signal " + std::to_string(got[i].sig) + " sent at +" + std::to_string(got[i].at - t0) + " ms, expected +" + std::to_string(e.signals[i].at - t0));
      }
    }
    if (e.kind != model::StopExpect::HANG && !w.hang) {
      switch (e.kind) {
        case model::StopExpect::STATUS: {
          bool ok = false;
          for (int s : e.statuses) ok = ok || r == s;
          if (!ok) {
            std::string sg = r == REPROC_ETIMEDOUT ? "timeout-for-dead-child" : (r >= 0 ? "wrong-status" : "error-instead-of-status");
            bad(sg, "returned " + std::to_string(r) + ", expected exit status " + std::to_string(e.statuses[0]) + " (" + e.trace + ")");
          }
          break;
        }
        case model::StopExpect::TIMEDOUT:
          if (r != REPROC_ETIMEDOUT) {
            std::string sg = r >= 0 ? "status-for-live-child" : "wrong-error";
            bad(sg, "returned " + std::to_string(r) + " although every wait expired with the child alive (expected REPROC_ETIMEDOUT): " + e.trace);
          }
          break;
        case model::StopExpect::WAIT_ERROR:
          if (r != -e.error) bad(r >= 0 || r == REPROC_ETIMEDOUT ? "continued-after-failed-wait" : "wrong-error", "the wait of a step failed with " + std::to_string(-e.error) + "; stop returned " + std::to_string(r) + " instead of that error (" + e.trace + ")");
          break;
        case model::StopExpect::EINVAL_:
          if (r != REPROC_EINVAL) bad("out-of-range-not-rejected", "returned " + std::to_string(r) + " for an out-of-range action (expected REPROC_EINVAL)");
          break;
        default: break;
      }
      if (t1 != e.end) bad("wrong-duration", "stop took " + std::to_string(t1 - t0) + " ms of virtual time, the contract gives " + std::to_string(e.end - t0) + " (" + e.trace + ")");
      bool reaped_now = !vs_is_live(ch.pid);
      if (e.kind == model::StopExpect::STATUS && !reaped && !reaped_now) bad("status-without-reap", "a status was returned but the child has not been reaped");
      if (e.kind != model::StopExpect::STATUS && !reaped && reaped_now) bad("reaped-without-status", "the child was reaped but no status was returned");
    }
    if (reaped && vs_reaps(ch.pid) != reaps0) bad("cached-status-not-immediate", "stop on an already reaped child reaped again");
    if (problem.empty()) matched = true;
    else if (first_problem.empty()) {
      first_problem = problem;
      first_sig = sig;
    }
  }
  if (!any_candidate) res.fail("waited-outside-any-wait", "the library entered a poll at +" + std::to_string(intr_at - t0) + " ms, when no step of this request is waiting");
  else if (!matched) res.fail(first_sig, first_problem);

  // ---- classification -------------------------------------------------------
  int non_noop = 0;
  bool oor = false, timed_out_then_more = false;
  for (int i = 0; i < 3; i++) {
    non_noop += c.act[i].action != 0;
    oor = oor || c.act[i].action < 0 || c.act[i].action > 3;
  }
  bool ended_during = !k.alive && k.died_at >= t0 && !cs.dead;
  if (shown.trace.find("timed out") != std::string::npos) timed_out_then_more = true;
  res.nontrivial = non_noop >= 2 || timed_out_then_more || oor || ended_during;
  uint64_t h = 0;
  for (int i = 0; i < 3; i++) h = mix(h, (uint64_t) (c.act[i].action + 2) * 4 + (uint64_t) (c.act[i].timeout < 0 ? -c.act[i].timeout : c.act[i].timeout == 0 ? 0 : 3));
  h = mix(h, (uint64_t) c.term_mode | (uint64_t) (c.self_exit_after != model::T_INF) << 2 | (uint64_t) (c.deadline != 0) << 3 | (uint64_t) c.pre << 4 | (uint64_t) shown.kind << 6);
  h = mix(h, (uint64_t) c.stop_after ^ (uint64_t) c.term_delay << 20 ^ (uint64_t) c.self_exit_after << 7);
  res.hash = h;
  static const char *kinds[] = { "expect-status", "expect-timeout", "expect-einval", "expect-unbounded-wait", "expect-wait-error" };
  res.cls(kinds[shown.kind]);
  if (non_noop == 0) res.cls("all-noop");
  if (oor) res.cls("out-of-range-action");
  if (timed_out_then_more) res.cls("step-timed-out");
  if (ended_during) res.cls("child-ended-during-stop");
  if (reaped) res.cls("already-reaped");
  if (cs.dead && !reaped) res.cls("exited-not-reaped");
  if (c.deadline) res.cls("with-deadline");
  if (c.far) res.cls("stopped-weeks-after-start");
  if (!w.trouble.empty() && res.kind != CaseResult::FAIL) res.inconclusive("harness: " + w.trouble);
  if (!w.trouble.empty() && res.kind == CaseResult::FAIL) {
    res.kind = CaseResult::INCONCLUSIVE;
    res.msg = "harness: " + w.trouble + " / " + res.msg;
  }

  // ---- tear down (real time) -----------------------------------------------
  w.uninstall();
  for (auto &kk : w.kids)
    if (kk.alive) {
      kill(kk.pid, SIGKILL);
      hz::wait_dead(kk.pid, 5000);
    }
  reproc_destroy(ch.p);
  std::string lsig, lp = hz::ledger_problems(ch.fds_before, lsig);
  if (!lp.empty()) res.fail(lsig, "after destroy: " + lp);
  return res;
}

}  // namespace

fw::PropertyDef fw::make_property()
{
  PropertyDef p;
  p.id = "C07";
  p.isolate = true;
  p.case_timeout_s = 60;
  p.tape_len = 96;
  p.run = run_case;
  p.sweep_count = [](const std::string &tier) { return tier == "thorough" ? 125L * 8 * 40 : 125L * 8 * 4; };
  return p;
}
