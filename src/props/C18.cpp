// C18 — Windows command line and environment block encode argv/env
// losslessly, in bounds. Engine W: process.windows.c / utf.windows.c /
// handle.windows.c compiled unmodified on stub headers; the oracle is a
// round-trip through independent splitters (C18_oracle.hpp).
#include "common/fw.hpp"

#include "C18_oracle.hpp"

using namespace fw;

namespace {

const char kAlpha[7] = { ' ', '\t', '\n', '\v', '"', '\\', 'a' };

// number of strings of length <= L over the 7-letter alphabet
long count_upto(int L)
{
  long n = 0, p = 1;
  for (int l = 0; l <= L; l++) {
    n += p;
    p *= 7;
  }
  return n;
}

// idx-th string (shortlex order) of length <= L
std::string nth_string(long idx, int L)
{
  long p = 1;
  for (int l = 0; l <= L; l++) {
    if (idx < p) {
      std::string s((size_t) l, 'a');
      for (int k = l - 1; k >= 0; k--) {
        s[(size_t) k] = kAlpha[idx % 7];
        idx /= 7;
      }
      return s;
    }
    idx -= p;
    p *= 7;
  }
  return "";
}

int single_len(const std::string &tier) { return tier == "thorough" ? 8 : 6; }
int pair_len(const std::string &tier) { return tier == "thorough" ? 4 : 3; }

std::string gen_arg(Tape &t)
{
  size_t n;
  switch (t.weighted({ 2, 8, 3, 1 })) {
    case 0: n = 0; break;
    case 1: n = (size_t) t.range(1, 8); break;
    case 2: n = (size_t) t.range(9, 60); break;
    default: n = (size_t) t.range(100, 5000); break;
  }
  std::string s;
  int style = (int) t.pick(4);
  for (size_t i = 0; i < n; i++) {
    if (style == 3 && t.chance(1, 6)) {
      // multi-byte UTF-8 (2, 3 or 4 bytes)
      static const char *mb[] = { "\xC3\xA9", "\xE2\x82\xAC", "\xF0\x9F\x98\x80", "\xED\x9F\xBF", "\xEF\xBF\xBD" };
      s += mb[t.pick(5)];
    } else if (style == 2 && t.chance(1, 40)) {
      s += (char) (0x80 + t.pick(0x80));  // mostly invalid UTF-8
    } else {
      s += t.chance(3, 5) ? kAlpha[t.pick(6)] : (char) ('a' + t.pick(3));
    }
  }
  return s;
}

std::string gen_env_entry(Tape &t, size_t i)
{
  std::string name = "V" + std::to_string(i);
  size_t n = (size_t) t.range(0, 6);
  for (size_t k = 0; k < n; k++) name += (char) ('A' + t.pick(26));
  std::string val;
  size_t m = t.chance(1, 20) ? (size_t) t.range(100, 2000) : (size_t) t.range(0, 12);
  for (size_t k = 0; k < m; k++) {
    static const char odd[] = " =\"\\;%\t";
    if (t.chance(1, 4)) val += odd[t.pick(sizeof(odd) - 1)];
    else if (t.chance(1, 12)) val += "\xE2\x82\xAC";
    else val += (char) ('a' + t.pick(26));
  }
  return name + "=" + val;
}

std::string gen_prog(Tape &t)
{
  static const char *progs[] = { "prog.exe", "C:\\tools\\x.exe", "C:\\Program Files\\App\\a.exe", "a", "..\\rel\\p.exe", "dir with space\\p" };
  return progs[t.pick(6)];
}

void gen_env(Tape &t, c18::Input &in)
{
  in.extend = !t.chance(1, 3);
  in.extra_null = t.chance(1, 4);
  size_t ne = t.weighted({ 2, 6, 1 }) == 0 ? 0 : (size_t) t.range(1, 6);
  if (t.chance(1, 25)) ne = (size_t) t.range(20, 50);
  for (size_t i = 0; i < ne; i++) in.extra.push_back(gen_env_entry(t, i));
  size_t np = t.weighted({ 1, 6, 1 }) == 0 ? 0 : (size_t) t.range(1, 8);
  if (t.chance(1, 25)) np = (size_t) t.range(20, 50);
  for (size_t i = 0; i < np; i++) {
    if (i == 0 && t.coin()) in.parent.push_back("=C:=C:\\some dir");
    else if (i == 1 && t.coin()) in.parent.push_back("=ExitCode=00000000");
    else in.parent.push_back("P" + gen_env_entry(t, i));
  }
}

bool interesting(const std::string &a)
{
  if (a.empty()) return true;
  bool needs_quote = a.find_first_of(" \t\n\v\"") != std::string::npos;
  if (a.find('"') != std::string::npos) return true;
  for (size_t i = 0; i < a.size(); i++) {
    if (a[i] == '\\' && (i + 1 == a.size() ? needs_quote : a[i + 1] == '"')) return true;
  }
  return false;
}

CaseResult run_case(Tape &t, long sweep)
{
  CaseResult res;
  c18::Input in;
  const std::string &tr = fw::tier();
  long n_single = count_upto(single_len(tr));
  long n_pair1 = count_upto(pair_len(tr));
  std::string kind;
  if (sweep >= 0 && sweep < n_single) {
    kind = "sweep-single";
    in.argv = { "prog.exe", nth_string(sweep, single_len(tr)) };
    in.extra_null = true;
    if (sweep % 64 == 0) gen_env(t, in);
  } else if (sweep >= n_single) {
    kind = "sweep-pair";
    long k = sweep - n_single;
    in.argv = { "prog.exe", nth_string(k / n_pair1, pair_len(tr)), nth_string(k % n_pair1, pair_len(tr)) };
    in.extra_null = true;
  } else {
    kind = "random";
    in.argv.push_back(gen_prog(t));
    size_t n = t.weighted({ 1, 8, 2 }) == 0 ? 0 : (size_t) t.range(1, 6);
    if (t.chance(1, 20)) n = (size_t) t.range(10, 40);
    for (size_t i = 0; i < n; i++) in.argv.push_back(gen_arg(t));
    // long command lines around the 32767-unit limit of CreateProcessW: more than that many UTF-8 bytes, fewer UTF-16 units
    if (t.chance(1, 40)) {
      static const char *mb[] = { "\xC3\xA9", "\xE6\x97\xA5", "\xF0\x9F\x98\x80", "a" };
      size_t which = t.pick(4);
      size_t units_per = which == 2 ? 2 : 1;
      size_t budget = (size_t) t.range(9000, 30000) / units_per;  // UTF-16 units in total
      size_t parts = (size_t) t.range(1, 3);
      for (size_t k = 0; k < parts; k++) {
        std::string a;
        for (size_t i = 0; i < budget / parts; i++) a += mb[which];
        if (t.coin()) a += " x\"";
        in.argv.push_back(a);
      }
      kind = "random-long";
    }
    gen_env(t, in);
    if (t.chance(1, 12)) in.fail_alloc = (int) t.pick(8);
  }

  c18::Outcome o = c18::check(in);

  bool nt = false;
  uint64_t h = 0;
  for (size_t i = 1; i < in.argv.size(); i++) {
    nt = nt || interesting(in.argv[i]);
    h = mix(h, fnv(in.argv[i]));
  }
  h = mix(h, in.argv.size());
  if (kind == "random" || kind == "random-long") {
    for (auto &e : in.extra) h = mix(h, fnv(e));
    h = mix(h, (uint64_t) in.extend * 2 + in.extra_null);
  }
  res.nontrivial = nt;
  res.hash = h;
  res.cls(kind);
  if (o.started) res.cls("started");
  if (!o.started && o.ok) res.cls("cleanly-rejected");
  if (in.fail_alloc >= 0) res.cls("alloc-fault");
  for (size_t i = 1; i < in.argv.size(); i++)
    if (in.argv[i].empty()) {
      res.cls("empty-argument");
      break;
    }
  if (!in.extra.empty() && !in.extra_null && in.extend && !in.parent.empty()) res.cls("env-extend-with-extras");

  std::vector<std::string> ja;
  for (size_t i = 0; i < in.argv.size() && i < 8; i++) ja.push_back(jbytes(in.argv[i]));
  res.describe = J().kv("kind", kind)
                     .raw("argv", jarr(ja))
                     .kv("argc", (unsigned long) in.argv.size())
                     .kv("env_extend", in.extend)
                     .kv("extra", in.extra_null ? -1 : (int) in.extra.size())
                     .kv("parent_entries", (unsigned long) in.parent.size())
                     .kv("fail_alloc", in.fail_alloc)
                     .kv("command_line", o.cmdline.size() > 200 ? o.cmdline.substr(0, 200) + "..." : o.cmdline)
                     .str();
  if (!o.ok) res.fail(o.sig, o.msg);
  return res;
}

}  // namespace

fw::PropertyDef fw::make_property()
{
  PropertyDef p;
  p.id = "C18";
  p.isolate = false;
  p.tape_len = 512;
  p.run = run_case;
  p.sweep_count = [](const std::string &tier) {
    long a = count_upto(single_len(tier));
    long b = count_upto(pair_len(tier));
    return a + b * b;
  };
  return p;
}
