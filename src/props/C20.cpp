// C20 — documented thread-safety: distinct operations on one child and
// distinct children from different threads are race-free and do not cross-talk.
// Engine T: the unmodified library built with ThreadSanitizer; generated plans
// of N threads running complete start / communicate / wait / destroy cycles on
// their own children, reader + writer thread pairs on one child with payloads
// above the pipe capacity in both directions, threads hammering
// reproc_strerror; seeded yields at every libc boundary call diversify the
// interleavings. Oracles: (1) any ThreadSanitizer report (the process dies
// with the report as evidence); (2) no cross-talk: every child's descriptor
// table at entry is {0, 1, 2, exit handle}, every child sees end-of-file on
// stdin exactly when its own parent closes it and echoes exactly its own
// bytes, every wait returns that child's own exit code; (3) reproc_strerror
// agrees with strerror_r in every thread.
#include "common/fw.hpp"
#include "common/harness.hpp"

#include <reproc/drain.h>
#include <reproc/reproc.h>
#include <reproc/run.h>

#include <atomic>
#include <csignal>
#include <cstring>
#include <pthread.h>
#include <thread>

extern "C" {
void vsmt_configure(uint64_t seed, int yield_level);
int vsmt_max_concurrent_forks(void);
void vsmt_enter_start(void);
void vsmt_leave_start(void);
}

using namespace fw;

namespace {

struct Cycle {
  uint64_t bytes;     // stdin payload (echoed back on stdout)
  size_t chunk;
  int code;
  bool pair;          // separate reader and writer threads
  int read_mode;      // 0 reproc_read loop, 1 reproc_drain with a verifying sink, 2 reproc_poll + reproc_read
  bool closed_stdin = false;  // the child closes its stdin at once: the writer thread runs into the closed-pipe error while the reader thread goes on reading
};

struct ThreadPlan {
  int kind;           // 0 worker (cycles), 1 strerror hammer, 2 reproc_run_ex loop
  std::vector<Cycle> cycles;
  int iterations = 0;
};

struct ThreadResult {
  std::string problem, sig;
  int cycles_done = 0;
  bool pair_overlapped = false;
  void fail(const std::string &s, const std::string &m)
  {
    if (problem.empty()) {
      sig = s;
      problem = m;
    }
  }
};

std::atomic<int> g_barrier_count;
std::atomic<bool> g_go;

void wait_go()
{
  g_barrier_count++;
  while (!g_go.load()) sched_yield();
}

struct DrainCtx {
  std::atomic<uint64_t> *echoed;
  std::string *problem;
};

int drain_sink(REPROC_STREAM stream, const uint8_t *buffer, size_t size, void *context)
{
  DrainCtx *c = (DrainCtx *) context;
  if (stream != REPROC_STREAM_OUT) return 0;
  // look at the chunk twice with a pause in between: the buffer handed to a
  // sink must stay this child's while the sink runs
  for (int pass = 0; pass < 2; pass++) {
    for (size_t i = 0; i < size; i++)
      if (buffer[i] != pup_pattern(0, c->echoed->load() + i)) {
        if (c->problem->empty()) *c->problem = "echoed byte at offset " + std::to_string(c->echoed->load() + i) + " is not this child's own input";
        return 0;
      }
    if (pass == 0) sched_yield();
  }
  *c->echoed += size;
  return 0;
}

void run_cycle(int tid, int ci, const Cycle &cy, ThreadResult &res)
{
  std::string dir = fw::case_dir() + "/t" + std::to_string(tid) + "c" + std::to_string(ci);
  hz::Puppet pup(dir);
  if (!pup.error().empty()) {
    res.fail("harness", "puppet: " + pup.error());
    return;
  }
  reproc_options opt;
  memset(&opt, 0, sizeof(opt));
  opt.redirect.err.type = REPROC_REDIRECT_DISCARD;
  opt.stop = { { REPROC_STOP_WAIT, 10000 }, { REPROC_STOP_KILL, 5000 }, { REPROC_STOP_NOOP, 0 } };
  const char *argv[] = { pup.exe().c_str(), "t", nullptr };
  reproc_t *p = reproc_new();
  vsmt_enter_start();
  int r = reproc_start(p, argv, opt);
  vsmt_leave_start();
  std::string who = "thread " + std::to_string(tid) + " cycle " + std::to_string(ci) + ": ";
  if (r <= 0) {
    res.fail("start-failed", who + "reproc_start returned " + std::to_string(r));
    reproc_destroy(p);
    return;
  }
  if (!pup.wait_ready(20000, reproc_pid(p))) {
    res.fail("no-hello", who + "the child did not come up: " + pup.error());
    reproc_kill(p);
    reproc_wait(p, 5000);
    reproc_destroy(p);
    return;
  }
  // (2a) nothing of a sibling leaked into this child
  {
    const hz::Hello &h = pup.hello();
    std::string extra;
    int n_extra = 0;
    for (auto &f : h.fds)
      if (f.fd > 2) {
        n_extra++;
        extra += " " + std::to_string(f.fd);
      }
    if (n_extra != 1) res.fail("sibling-descriptor-inherited", who + "the started program sees descriptors beyond 0, 1, 2 and the exit handle:" + extra);
  }
  pup_ack ack;
  pup.cmd(PUP_RUN, (uint32_t) cy.code, 0, 0, 4096, 1 | 2, &ack);  // read stdin to EOF, echo to stdout

  std::atomic<uint64_t> echoed{ 0 };
  std::string rproblem;
  auto reader = [&](bool until_eof) {
    std::vector<uint8_t> buf(65536);
    if (cy.read_mode == 1) {
      DrainCtx dc = { &echoed, &rproblem };
      reproc_sink sink = { drain_sink, &dc };
      int dr = reproc_drain(p, sink, REPROC_SINK_NULL);
      if (dr != 0 && rproblem.empty()) rproblem = "reproc_drain returned " + std::to_string(dr);
      return;
    }
    for (;;) {
      if (cy.read_mode == 2) {
        reproc_event_source src = { p, REPROC_EVENT_OUT, 0 };
        int pr = reproc_poll(&src, 1, 30000);
        if (pr <= 0) {
          rproblem = "poll returned " + std::to_string(pr);
          break;
        }
      }
      int rr = reproc_read(p, REPROC_STREAM_OUT, buf.data(), buf.size());
      if (rr == REPROC_EPIPE) break;
      if (rr <= 0) {
        rproblem = "read returned " + std::to_string(rr);
        break;
      }
      for (int i = 0; i < rr; i++)
        if (buf[(size_t) i] != pup_pattern(0, echoed.load() + (uint64_t) i)) {
          rproblem = "echoed byte at offset " + std::to_string(echoed.load() + (uint64_t) i) + " is not this child's own input";
          i = rr;
        }
      echoed += (uint64_t) rr;
      if (!until_eof && echoed.load() >= cy.bytes) break;
      if (!rproblem.empty()) break;
    }
  };
  auto writer = [&]() -> std::string {
    std::vector<uint8_t> buf(cy.chunk);
    uint64_t sent = 0;
    while (sent < cy.bytes) {
      size_t n = (size_t) std::min<uint64_t>(cy.bytes - sent, buf.size());
      for (size_t i = 0; i < n; i++) buf[i] = pup_pattern(0, sent + i);
      int w = reproc_write(p, buf.data(), n);
      if (w <= 0) return "write returned " + std::to_string(w);
      sent += (uint64_t) w;
    }
    reproc_close(p, REPROC_STREAM_IN);
    return "";
  };
  std::string wproblem;
  if (cy.pair) {
    std::atomic<bool> reader_running{ false };
    std::thread rt([&] {
      reader_running = true;
      reader(true);
    });
    wproblem = writer();
    if (reader_running && echoed.load() < cy.bytes) res.pair_overlapped = true;
    rt.join();
  } else {
    wproblem = writer();
    reader(true);
  }
  if (!wproblem.empty()) res.fail("io", who + wproblem);
  if (!rproblem.empty()) res.fail(rproblem.find("not this child") != std::string::npos ? "cross-talk" : "io", who + rproblem);
  if (echoed.load() != cy.bytes && res.problem.empty()) res.fail("cross-talk", who + "echo ended after " + std::to_string(echoed.load()) + " of " + std::to_string(cy.bytes) + " bytes");
  int st = (cy.code & 1) ? reproc_wait(p, 30000) : reproc_stop(p, (reproc_stop_actions){ { REPROC_STOP_WAIT, 30000 }, { REPROC_STOP_NOOP, 0 }, { REPROC_STOP_NOOP, 0 } });
  if (st != cy.code) res.fail("wrong-status", who + "the child was told to exit with " + std::to_string(cy.code) + ", wait returned " + std::to_string(st));
  std::map<std::string, long long> rep;
  if (pup.read_result(rep)) {
    if ((uint64_t) rep["in_total"] != cy.bytes || rep["in_mismatch"] >= 0 || !rep["in_eof"]) res.fail("cross-talk", who + "the child read " + std::to_string(rep["in_total"]) + " bytes (sent " + std::to_string(cy.bytes) + "), eof=" + std::to_string(rep["in_eof"]) + ", mismatch at " + std::to_string(rep["in_mismatch"]));
  } else if (res.problem.empty()) {
    res.fail("no-child-report", who + "the child left no report");
  }
  if (st == REPROC_ETIMEDOUT) reproc_kill(p);
  reproc_destroy(p);
  res.cycles_done++;
}

// Reader and writer on one child whose stdin is already closed: every write fails with the closed-pipe error
// (and keeps failing), which is the writer's business alone - the reader thread still receives every byte the
// child writes to stdout afterwards, and the wait returns this child's status.
void run_closed_stdin_cycle(int tid, int ci, const Cycle &cy, ThreadResult &res)
{
  std::string dir = fw::case_dir() + "/t" + std::to_string(tid) + "c" + std::to_string(ci);
  hz::Puppet pup(dir);
  if (!pup.error().empty()) {
    res.fail("harness", "puppet: " + pup.error());
    return;
  }
  reproc_options opt;
  memset(&opt, 0, sizeof(opt));
  opt.redirect.err.type = REPROC_REDIRECT_DISCARD;
  opt.stop = { { REPROC_STOP_WAIT, 10000 }, { REPROC_STOP_KILL, 5000 }, { REPROC_STOP_NOOP, 0 } };
  const char *argv[] = { pup.exe().c_str(), "t", nullptr };
  reproc_t *p = reproc_new();
  vsmt_enter_start();
  int r = reproc_start(p, argv, opt);
  vsmt_leave_start();
  std::string who = "thread " + std::to_string(tid) + " cycle " + std::to_string(ci) + " (child closed its stdin): ";
  if (r <= 0) {
    res.fail("start-failed", who + "reproc_start returned " + std::to_string(r));
    reproc_destroy(p);
    return;
  }
  pup_ack ack;
  if (!pup.wait_ready(20000, reproc_pid(p)) || !pup.cmd(PUP_CLOSE, 0, 0, &ack)) {
    res.fail("no-hello", who + "the child did not come up: " + pup.error());
    reproc_kill(p);
    reproc_wait(p, 5000);
    reproc_destroy(p);
    return;
  }
  std::atomic<uint64_t> got{ 0 };
  std::atomic<bool> reader_running{ false };
  std::string rproblem;
  std::thread rt([&] {
    reader_running = true;
    std::vector<uint8_t> buf(4096);
    for (;;) {
      if (cy.read_mode == 2) {
        reproc_event_source src = { p, REPROC_EVENT_OUT, 0 };
        int pr = reproc_poll(&src, 1, 30000);
        if (pr <= 0) {
          rproblem = "poll returned " + std::to_string(pr);
          break;
        }
      }
      int rr = reproc_read(p, REPROC_STREAM_OUT, buf.data(), buf.size());
      if (rr == REPROC_EPIPE) break;
      if (rr <= 0) {
        rproblem = "read returned " + std::to_string(rr);
        break;
      }
      for (int i = 0; i < rr; i++)
        if (buf[(size_t) i] != pup_pattern(1, got.load() + (uint64_t) i)) {
          rproblem = "output byte at offset " + std::to_string(got.load() + (uint64_t) i) + " is not this child's own";
          i = rr;
        }
      got += (uint64_t) rr;
      if (!rproblem.empty()) break;
    }
  });
  // the writer: writes that must fail, between rounds of output from the child
  uint64_t total = 0;
  std::string wproblem;
  int rounds = 3 + cy.code % 6;
  bool refused = false;
  std::vector<uint8_t> wbuf(std::min<size_t>(cy.chunk, 4096), 7);
  for (int k = 0; k < rounds && wproblem.empty(); k++) {
    int w = reproc_write(p, wbuf.data(), wbuf.size());
    // (a sibling being forked by another thread at the wrong moment can hold a copy of the pipe's other end until it
    // execs: a write that is still accepted then is not the library's doing; once refused, always refused)
    if (w == REPROC_EPIPE) refused = true;
    else if (w < 0 || refused) wproblem = "write #" + std::to_string(k) + " to a stdin the child has closed returned " + std::to_string(w) + (refused ? " after an earlier write had been refused with the closed-pipe error" : " instead of the closed-pipe error");
    uint64_t n = 1 + (uint64_t) ((tid * 131 + ci * 17 + k * 977) % 4000);
    if (!pup.cmd(PUP_WRITE, 1, n, &ack) || ack.v[1] != 0) {
      // (at most 4 KiB per round against a reader that keeps reading: the pipe always has room)
      for (int spin = 0; spin < 2000 && ack.v[1] != 0; spin++) {
        usleep(1000);
        if (!pup.cmd(PUP_PUMP, 1, 0, &ack)) break;
      }
    }
    total += n;
    if (reader_running && got.load() < total) res.pair_overlapped = true;
  }
  pup.send(PUP_EXIT, (uint32_t) cy.code);
  rt.join();
  if (!wproblem.empty()) res.fail("io", who + wproblem);
  if (!rproblem.empty()) res.fail(rproblem.find("not this child") != std::string::npos ? "cross-talk" : "io", who + rproblem);
  if (got.load() != total && res.problem.empty()) res.fail("cross-talk", who + "the reader thread received " + std::to_string(got.load()) + " of the " + std::to_string(total) + " bytes the child wrote after the writer thread's write had failed");
  int st = reproc_wait(p, 30000);
  if (st != cy.code) res.fail("wrong-status", who + "the child was told to exit with " + std::to_string(cy.code) + ", wait returned " + std::to_string(st));
  if (st == REPROC_ETIMEDOUT) reproc_kill(p);
  reproc_destroy(p);
  res.cycles_done++;
}

struct RunCtx {
  uint64_t got[3];
  std::string problem;
};

int run_sink(REPROC_STREAM stream, const uint8_t *buffer, size_t size, void *context)
{
  RunCtx *c = (RunCtx *) context;
  int s = stream == REPROC_STREAM_OUT ? 1 : stream == REPROC_STREAM_ERR ? 2 : 0;
  if (s == 0) return 0;
  for (size_t i = 0; i < size; i++)
    if (buffer[i] != pup_pattern(s, c->got[s] + i)) {
      if (c->problem.empty()) c->problem = std::string(s == 1 ? "stdout" : "stderr") + " byte at offset " + std::to_string(c->got[s] + i) + " is not this child's output";
      return 0;
    }
  c->got[s] += size;
  return 0;
}

// Whole start / drain / stop / destroy cycles through reproc_run_ex with an
// autonomous child.
void run_loop(int tid, int iterations, ThreadResult &res)
{
  for (int i = 0; i < iterations && res.problem.empty(); i++) {
    std::string dir = fw::case_dir() + "/t" + std::to_string(tid) + "run" + std::to_string(i);
    hz::Puppet pup(dir);
    if (!pup.error().empty()) {
      res.fail("harness", "puppet: " + pup.error());
      return;
    }
    uint64_t out_n = 1000 + (uint64_t) ((tid * 7919 + i * 104729) % 90000), err_n = (uint64_t) ((tid * 31 + i * 17) % 9000);
    int code = 1 + (tid * 13 + i) % 200;
    std::string a2 = std::to_string(out_n), a3 = std::to_string(err_n), a6 = std::to_string(code);
    const char *argv[] = { pup.exe().c_str(), "--auto", a2.c_str(), a3.c_str(), "4096", "0", a6.c_str(), "0", nullptr };
    reproc_options opt;
    memset(&opt, 0, sizeof(opt));
    opt.redirect.in.type = REPROC_REDIRECT_DISCARD;
    opt.redirect.err.type = REPROC_REDIRECT_PIPE;
    opt.stop = { { REPROC_STOP_WAIT, 20000 }, { REPROC_STOP_KILL, 5000 }, { REPROC_STOP_NOOP, 0 } };
    RunCtx ctx = { { 0, 0, 0 }, "" };
    reproc_sink sink = { run_sink, &ctx };
    vsmt_enter_start();
    int r = reproc_run_ex(argv, opt, sink, sink);
    vsmt_leave_start();
    std::string who = "thread " + std::to_string(tid) + " run " + std::to_string(i) + ": ";
    if (!ctx.problem.empty()) res.fail("cross-talk", who + ctx.problem);
    else if (r != code) res.fail("wrong-status", who + "reproc_run_ex returned " + std::to_string(r) + ", the child exits with " + std::to_string(code));
    else if (ctx.got[1] != out_n || ctx.got[2] != err_n) res.fail("cross-talk", who + "sinks received " + std::to_string(ctx.got[1]) + "/" + std::to_string(ctx.got[2]) + " bytes of " + std::to_string(out_n) + "/" + std::to_string(err_n));
    res.cycles_done++;
  }
}

void strerror_hammer(int iterations, ThreadResult &res)
{
  static const int codes[] = { 1, 2, 4, 9, 11, 12, 13, 22, 24, 32, 110 };
  for (int i = 0; i < iterations; i++) {
    int code = codes[(size_t) i % (sizeof(codes) / sizeof(codes[0]))];
    const char *a = reproc_strerror(-code);
    char buf[512];
    const char *b = strerror_r(code, buf, sizeof(buf));
    std::string sa = a, sb = b;
    if ((i & 7) == 0) sched_yield();
    // re-read our own string after giving other threads a chance to overwrite theirs
    std::string sa2 = a;
    if (sa != sb || sa2 != sb) {
      res.fail("strerror", "reproc_strerror(" + std::to_string(-code) + ") gave \"" + sa2 + "\" in this thread, strerror_r says \"" + sb + "\"");
      return;
    }
  }
}

CaseResult run_case(Tape &t, long)
{
  CaseResult res;
  bool thorough = fw::tier() == "thorough";
  bool fds_only = getenv("VERIF_C20_FDS_ONLY") != nullptr;
  int nthreads = (int) t.range(2, thorough ? 24 : 8);
  int yield_level = (int) t.pick(3);
  uint64_t seed = ((uint64_t) t.next() << 32) | t.next();
  std::vector<ThreadPlan> plan((size_t) nthreads);
  int code = 1;
  int n_pairs = 0, n_hammers = 0, n_runs = 0;
  for (int i = 0; i < nthreads; i++) {
    ThreadPlan &tp = plan[(size_t) i];
    tp.kind = (!fds_only && t.chance(1, 6)) ? 1 : 0;
    if (tp.kind == 1) {
      tp.iterations = (int) t.range(200, 3000);
      n_hammers++;
      continue;
    }
    if (!fds_only && t.chance(1, 5)) {
      tp.kind = 2;
      tp.iterations = (int) t.range(1, 4);
      n_runs++;
      continue;
    }
    size_t nc = (size_t) t.range(1, 3);
    for (size_t c = 0; c < nc; c++) {
      Cycle cy;
      cy.pair = !fds_only && t.chance(1, 3);
      static const uint64_t small[] = { 0, 1, 1000, 4096, 60000 };
      static const uint64_t big[] = { 65537, 100000, 300000, 1 << 20 };
      cy.bytes = cy.pair ? big[t.pick(4)] : small[t.pick(5)];
      static const size_t chunks[] = { 1000, 4096, 65536 };
      cy.chunk = chunks[t.pick(3)];
      cy.code = code++ % 250;
      cy.read_mode = (int) t.pick(3);
      if (cy.pair) n_pairs++;
      tp.cycles.push_back(cy);
    }
  }
  // (decided last on the tape: plans recorded earlier keep their meaning)
  int n_closed = 0;
  for (auto &tp : plan)
    for (auto &cy : tp.cycles)
      if (!fds_only && t.chance(1, cy.pair ? 3 : 8)) {
        cy.closed_stdin = true;
        n_closed++;
      }
  vsmt_configure(seed, yield_level);
  hz::puppet_source_binary();  // initialise the cache before threads exist
  signal(SIGPIPE, SIG_IGN);

  std::vector<ThreadResult> results((size_t) nthreads);
  g_barrier_count = 0;
  g_go = false;
  std::vector<std::thread> threads;
  for (int i = 0; i < nthreads; i++) {
    threads.emplace_back([&, i] {
      wait_go();
      const ThreadPlan &tp = plan[(size_t) i];
      if (tp.kind == 1) strerror_hammer(tp.iterations, results[(size_t) i]);
      else if (tp.kind == 2) run_loop(i, tp.iterations, results[(size_t) i]);
      else
        for (size_t c = 0; c < tp.cycles.size() && results[(size_t) i].problem.empty(); c++) {
          if (tp.cycles[c].closed_stdin) run_closed_stdin_cycle(i, (int) c, tp.cycles[c], results[(size_t) i]);
          else run_cycle(i, (int) c, tp.cycles[c], results[(size_t) i]);
        }
    });
  }
  while (g_barrier_count.load() < nthreads) sched_yield();
  g_go = true;
  for (auto &th : threads) th.join();

  int maxc = vsmt_max_concurrent_forks();
  bool overlapped = false;
  int cycles = 0;
  for (auto &r : results) {
    overlapped = overlapped || r.pair_overlapped;
    cycles += r.cycles_done;
    if (!r.problem.empty()) {
      if (fds_only && r.sig != "sibling-descriptor-inherited" && r.sig != "cross-talk") continue;
      res.fail(r.sig, r.problem);
    }
  }
  res.nontrivial = maxc >= 2 || overlapped;
  res.hash = mix(mix(seed, (uint64_t) nthreads * 64 + (uint64_t) n_pairs * 8 + (uint64_t) n_hammers), (uint64_t) yield_level);
  if (maxc >= 2) res.cls("concurrent-starts");
  if (maxc >= 4) res.cls("four-or-more-concurrent-starts");
  if (overlapped) res.cls("reader-writer-overlap");
  if (n_hammers) res.cls("strerror-threads");
  if (n_pairs) res.cls("reader-writer-pair");
  if (n_runs) res.cls("run-threads");
  if (n_closed) res.cls("writer-fails-while-reader-reads");
  res.describe = J().kv("threads", nthreads).kv("reader_writer_pairs", n_pairs).kv("strerror_threads", n_hammers).kv("run_ex_threads", n_runs).kv("cycles_with_child_stdin_closed", n_closed).kv("yield_level", yield_level).kv("cycles_completed", cycles).kv("max_concurrent_starts", maxc).kv("fds_only", fds_only).str();
  return res;
}

}  // namespace

fw::PropertyDef fw::make_property()
{
  PropertyDef p;
  p.id = "C20";
  p.isolate = true;
  p.case_timeout_s = 120;
  p.tape_len = 160;
  p.run = run_case;
  return p;
}
