// C13 — conflicting or unsatisfiable options are rejected up front with no
// side effect; allowed combinations resolve to the documented effective
// redirect. Engine D (DRY): the real reproc_start runs against a fake kernel
// inside the vsys shim, so millions of option combinations can be pushed
// through and judged at the call boundary against model/options_model.hpp.
#include "common/fw.hpp"
#include "model/options_model.hpp"
#include "vsys/vsys.h"

#include <reproc/reproc.h>

#include <cerrno>
#include <cstring>
#include <fcntl.h>

using namespace fw;

namespace {

const int kTypes[11] = { 0, 1, 2, 3, 4, 5, 6, 7, 8, -1, 1000 };
const long kStreamCells = 11 * 8;                       // 88
const long kCube = kStreamCells * kStreamCells * kStreamCells;  // 681 472
const long kShort = 16;
const long kFull = kCube * kShort;                      // 10 903 552
const int kForms = 19;                                  // (input, forkargv) != (0, 0)

FILE *g_file_a, *g_file_b, *g_file_c, *g_file_s;
int g_base_pipes = -1;  // pipes created when no stream is piped (exit + error pipes)

model::StreamOpt stream_cell(long c)
{
  model::StreamOpt s;
  s.type = kTypes[c / 8];
  int f = (int) (c % 8);
  s.handle = f & 1;
  s.file = f & 2;
  s.path = f & 4;
  return s;
}

model::Opt cell(long idx, int form)
{
  model::Opt o;
  long cube = idx % kCube;
  long sh = (idx / kCube) % kShort;
  o.in = stream_cell(cube % kStreamCells);
  o.out = stream_cell((cube / kStreamCells) % kStreamCells);
  o.err = stream_cell(cube / (kStreamCells * kStreamCells));
  o.parent = sh & 1;
  o.discard = sh & 2;
  o.sfile = sh & 4;
  o.spath = sh & 8;
  // form 0 = (0,0); forms 1..19 enumerate (input, forkargv) pairs
  o.input = form % 4;
  o.forkargv = form / 4;
  return o;
}

struct Counts {
  int pipes = 0, opens_null = 0, opens_other = 0, forks = 0, filenos = 0, allocs = 0, closes = 0;
  int bad_open_mode = 0;
};

Counts count_trace(uint32_t from, uint32_t to, const int want_mode[3], const uint64_t path_hash[3])
{
  Counts c;
  for (uint32_t i = from; i < to && i < VS_MAXREC; i++) {
    const vs_rec &r = vs_sh->rec[i];
    switch (r.fn) {
      case VS_PIPE: c.pipes++; break;
      case VS_OPEN:
        if (r.a1 == 1) c.opens_null++;  // DRY: a1 = path is the null device
        else {
          c.opens_other++;
          bool ok = false;
          for (int s = 0; s < 3; s++)
            if ((uint64_t) r.a2 == path_hash[s] && (int) (r.a0 & O_ACCMODE) == want_mode[s]) ok = true;
          if (!ok) c.bad_open_mode++;
        }
        break;
      case VS_FORK: c.forks++; break;
      case VS_FILENO: c.filenos++; break;
      case VS_MALLOC:
      case VS_CALLOC:
      case VS_REALLOC:
      case VS_STRDUP: c.allocs++; break;
      case VS_CLOSE: c.closes++; break;
      default: break;
    }
  }
  return c;
}

uint64_t path_hash_of(const char *p)
{
  uint64_t h = 1469598103934665603ull;
  for (; *p; p++) h = (h ^ (unsigned char) *p) * 1099511628211ull;
  return h;
}

const char *kPaths[4] = { "/verif-dry/in-path", "/verif-dry/out-path", "/verif-dry/err-path", "/verif-dry/shorthand-path" };

struct Run {
  int r = 0;
  Counts at_start;
  int w = 0, pout = 0, perr = 0;
  int viol = 0;
  std::string violtext;
  bool leak = false;
};

Run execute(const model::Opt &o)
{
  Run out;
  vs_reset_light();
  vs_dry(1);
  reproc_options opt;
  memset(&opt, 0, sizeof(opt));
  FILE *files[3] = { g_file_a, g_file_b, g_file_c };
  const model::StreamOpt *so[3] = { &o.in, &o.out, &o.err };
  reproc_redirect *ro[3] = { &opt.redirect.in, &opt.redirect.out, &opt.redirect.err };
  for (int s = 0; s < 3; s++) {
    ro[s]->type = (REPROC_REDIRECT) so[s]->type;
    ro[s]->handle = so[s]->handle ? 5000 + s : 0;
    ro[s]->file = so[s]->file ? files[s] : nullptr;
    ro[s]->path = so[s]->path ? kPaths[s] : nullptr;
  }
  opt.redirect.parent = o.parent;
  opt.redirect.discard = o.discard;
  opt.redirect.file = o.sfile ? g_file_s : nullptr;
  opt.redirect.path = o.spath ? kPaths[3] : nullptr;
  static const uint8_t data[4] = { 'd', 'a', 't', 'a' };
  if (o.input == 1) { opt.input.data = data; opt.input.size = 4; }
  if (o.input == 2) { opt.input.data = data; opt.input.size = 0; }
  if (o.input == 3) { opt.input.data = nullptr; opt.input.size = 4; }
  const char *good[] = { "/verif-dry/program", "arg", nullptr };
  const char *empty[] = { nullptr };
  const char *const *argv = good;
  switch (o.forkargv) {
    case 1: argv = nullptr; break;
    case 2: argv = empty; break;
    case 3: opt.fork = true; argv = nullptr; break;
    case 4: opt.fork = true; break;
    case 5: opt.fork = true; argv = empty; break;  // fork mode with an argv that is there but empty
    default: break;
  }
  int want_mode[3] = { O_RDONLY, O_WRONLY, O_WRONLY };
  uint64_t ph[3];
  for (int s = 0; s < 3; s++) ph[s] = path_hash_of(so[s]->path ? kPaths[s] : kPaths[3]);

  reproc_t *p = reproc_new();
  uint32_t a = vs_sh->nrec;
  out.r = reproc_start(p, argv, opt);
  uint32_t b = vs_sh->nrec;
  out.at_start = count_trace(a, b, want_mode, ph);
  if (out.r > 0) {
    uint8_t byte = 'x';
    out.w = reproc_write(p, &byte, 1);
    reproc_event_source so1 = { p, REPROC_EVENT_OUT, 0 };
    out.pout = reproc_poll(&so1, 1, 0);
    reproc_event_source se1 = { p, REPROC_EVENT_ERR, 0 };
    out.perr = reproc_poll(&se1, 1, 0);
  }
  reproc_destroy(p);
  out.viol = vs_nviol();
  if (out.viol) out.violtext = vs_viol(0);
  out.leak = vs_own_open_fds(nullptr, 0) != 0 || vs_heap_live_blocks() != 0;
  vs_dry(0);
  return out;
}

std::string describe(const model::Opt &o, const model::Spec &sp, const Run &run)
{
  auto st = [](const model::StreamOpt &s) {
    return J().kv("type", s.type).kv("handle", s.handle).kv("file", s.file).kv("path", s.path).str();
  };
  return J().raw("in", st(o.in))
      .raw("out", st(o.out))
      .raw("err", st(o.err))
      .kv("parent", o.parent)
      .kv("discard", o.discard)
      .kv("file_shorthand", o.sfile)
      .kv("path_shorthand", o.spath)
      .kv("input_form", o.input)
      .kv("fork_argv_form", o.forkargv)
      .kv("model", sp.verdict == model::VALID ? "valid" : sp.verdict == model::INVALID ? "invalid" : "unspecified")
      .kv("model_reason", sp.why)
      .kv("effective", std::string(model::type_name(sp.eff[0])) + "/" + model::type_name(sp.eff[1]) + "/" + model::type_name(sp.eff[2]))
      .kv("start_result", run.r)
      .str();
}

void judge(const model::Opt &o, CaseResult &res)
{
  model::Spec sp = model::spec(o);
  Run run = execute(o);
  res.describe = describe(o, sp, run);
  res.nontrivial = sp.rules_touched >= 2;
  const Counts &c = run.at_start;

  if (run.viol) res.fail("ledger", "shim ledger: " + run.violtext);
  if (run.leak) res.fail("leak", "descriptors or memory of the library left behind after destroy");

  if (sp.verdict == model::INVALID) {
    res.cls("model-invalid");
    if (run.r != REPROC_EINVAL) {
      std::string sig = "accepted-invalid";
      if (sp.why.find("redirect-to-stdout") != std::string::npos) sig = "stdout-type-not-rejected";
      res.fail(sig, "the documentation forbids this combination (" + sp.why + ") but reproc_start returned " + std::to_string(run.r) + " instead of REPROC_EINVAL");
    } else if (c.pipes || c.opens_null || c.opens_other || c.forks || c.filenos || c.allocs) {
      res.fail("einval-with-side-effects", "REPROC_EINVAL was returned after side effects (pipes " + std::to_string(c.pipes) + ", opens " + std::to_string(c.opens_null + c.opens_other) + ", forks " + std::to_string(c.forks) + ", fileno " + std::to_string(c.filenos) + ", allocations " + std::to_string(c.allocs) + "): " + sp.why);
    }
    return;
  }
  if (sp.verdict == model::UNSPECIFIED) {
    res.cls("model-unspecified");
    res.cls(run.r == REPROC_EINVAL ? "unspecified-rejected" : "unspecified-accepted");
    return;
  }
  res.cls("model-valid");
  if (run.r == REPROC_EINVAL) {
    res.fail("rejected-valid", "the documentation allows this combination but reproc_start returned REPROC_EINVAL");
    return;
  }
  if (run.r <= 0) {
    res.fail("valid-failed", "valid combination: reproc_start returned " + std::to_string(run.r) + " on the fake kernel");
    return;
  }
  // How many pipes / opens / FILE lookups a valid combination costs is an
  // implementation matter (one null-device descriptor could serve several
  // streams, say) and is not judged; what the child's streams really are is
  // C10's identity oracle. Here: the parent gets a pipe end exactly for piped
  // streams, and exactly one process is created.
  if (c.forks > 1) res.fail("effective:fork", "start forked " + std::to_string(c.forks) + " times");
  // the parent holds a pipe end exactly for piped streams
  bool in_piped = sp.eff[0] == model::T_PIPE && o.input == 0;
  if ((run.w == 1) != in_piped)
    res.fail("parent-end:stdin", std::string("stdin is ") + (in_piped ? "" : "not ") + "a pipe still open in the parent, but a 1-byte reproc_write returned " + std::to_string(run.w));
  if ((run.pout != REPROC_EPIPE) != (sp.eff[1] == model::T_PIPE))
    res.fail("parent-end:stdout", std::string("stdout is ") + (sp.eff[1] == model::T_PIPE ? "" : "not ") + "a pipe, but polling it returned " + std::to_string(run.pout));
  if ((run.perr != REPROC_EPIPE) != (sp.eff[2] == model::T_PIPE))
    res.fail("parent-end:stderr", std::string("stderr is ") + (sp.eff[2] == model::T_PIPE ? "" : "not ") + "a pipe, but polling it returned " + std::to_string(run.perr));
}

// Stream cells that are locally acceptable (type in range and consistent with
// the fields): every combination of these, with every shorthand combination
// and every input/fork form, is enumerated in both tiers - that is where the
// valid part of the table lives.
std::vector<long> g_local_ok[3];

void init_local_ok()
{
  for (int s = 0; s < 3; s++) {
    g_local_ok[s].clear();
    for (long c = 0; c < kStreamCells; c++) {
      model::Opt o;
      model::Spec sp;
      model::StreamOpt so = stream_cell(c);
      model::resolve_stream(so, s, o, sp);
      if (sp.verdict == model::VALID) g_local_ok[s].push_back(c);
    }
  }
}

long valid_phase_total()
{
  return (long) (g_local_ok[0].size() * g_local_ok[1].size() * g_local_ok[2].size()) * kShort * (kForms + 1);
}

long sweep_total_rest(const std::string &tier);

long sweep_total(const std::string &tier)
{
  if (g_local_ok[0].empty()) init_local_ok();
  return valid_phase_total() + sweep_total_rest(tier);
}

long sweep_total_rest(const std::string &tier)
{
  // thorough: the whole cube x shorthands, then every (input, fork) form on a
  // 1/16 stride of it. quick: 1/8 stride of the cube x shorthands (phase
  // rotating with the shorthand so that every cube cell is hit for two
  // shorthand values), all "one stream varies" planes, forms on a 1/512 stride.
  if (tier == "thorough") return kFull + kForms * (kFull / 16);
  return kFull / 8 + 3 * kStreamCells * kShort + kForms * (kFull / 512);
}

CaseResult run_case(Tape &t, long sweep)
{
  CaseResult res;
  model::Opt o;
  const bool thorough = fw::tier() == "thorough";
  if (g_local_ok[0].empty()) init_local_ok();
  long vphase = valid_phase_total();
  if (sweep >= 0 && sweep < vphase) {
    long k = sweep;
    long n0 = (long) g_local_ok[0].size(), n1 = (long) g_local_ok[1].size(), n2 = (long) g_local_ok[2].size();
    long c0 = g_local_ok[0][(size_t) (k % n0)];
    k /= n0;
    long c1 = g_local_ok[1][(size_t) (k % n1)];
    k /= n1;
    long c2 = g_local_ok[2][(size_t) (k % n2)];
    k /= n2;
    long sh = k % kShort;
    k /= kShort;
    int form = (int) k;
    o = cell(c0 + c1 * kStreamCells + c2 * kStreamCells * kStreamCells + sh * kCube, form);
    res.cls("sweep-valid-streams");
    res.hash = (uint64_t) sweep;
    res.unique_by_construction = true;
  } else if (sweep >= 0) {
    sweep -= vphase;
    long a_count = thorough ? kFull : kFull / 8;
    long planes = thorough ? 0 : 3 * kStreamCells * kShort;
    if (sweep < a_count) {
      long idx = thorough ? sweep : (sweep * 8 + (sweep / (kCube / 8)) % 8) % kFull;
      o = cell(idx, 0);
      res.cls("sweep-cube");
    } else if (sweep < a_count + planes) {
      long k = sweep - a_count;
      int which = (int) (k / (kStreamCells * kShort));
      long rest = k % (kStreamCells * kShort);
      long sc = rest % kStreamCells, sh = rest / kStreamCells;
      long cube = which == 0 ? sc : which == 1 ? sc * kStreamCells : sc * kStreamCells * kStreamCells;
      o = cell(cube + sh * kCube, 0);
      res.cls("sweep-plane");
    } else {
      long k = sweep - a_count - planes;
      long per = thorough ? kFull / 16 : kFull / 512;
      int form = 1 + (int) (k / per);
      long j = k % per;
      long stride = thorough ? 16 : 512;
      o = cell((j * stride + (form * 7) % stride) % kFull, form);
      res.cls("sweep-forms");
    }
    res.hash = (uint64_t) (sweep + vphase);
    res.unique_by_construction = true;
  } else {
    // random: every dimension independent
    long idx = (long) t.range(0, kFull - 1);
    int form = t.chance(1, 2) ? (int) t.range(1, kForms) : 0;
    o = cell(idx, form);
    // (a form outside the enumerated sweep, so that the sweep's numbering stays what the saved cases refer to)
    if (t.chance(1, 12)) {
      o.forkargv = 5;
      form = 100 + o.input;
      res.cls("fork-with-empty-argv");
    }
    res.cls("random");
    res.hash = mix((uint64_t) idx, (uint64_t) form);
  }
  judge(o, res);
  if (sweep < 0) res.nontrivial = false;  // random cases may repeat sweep cells: not counted as distinct
  return res;
}

}  // namespace

fw::PropertyDef fw::make_property()
{
  PropertyDef p;
  p.id = "C13";
  p.isolate = false;
  p.tape_len = 16;
  p.run = run_case;
  p.sweep_count = sweep_total;
  p.setup = [] {
    vs_init();
    g_file_a = fopen("/dev/null", "r");
    g_file_b = fopen("/dev/null", "w");
    g_file_c = fopen("/dev/null", "w");
    g_file_s = fopen("/dev/null", "w");
    // measure the number of pipes start creates when no stream is piped
    model::Opt o;
    o.in.type = o.out.type = o.err.type = model::T_DISCARD;
    Run r = execute(o);
    g_base_pipes = r.at_start.pipes;
  };
  return p;
}
