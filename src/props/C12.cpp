// C12 — start leaves the caller untouched and gives the child a clean signal
// state. Engine R + FAULT: snapshot equality of the calling thread's signal
// mask, all dispositions, working directory and environment around
// reproc_start on every return path (fault enumeration of all scenarios, with
// a generated parent signal state), and the child's own SigBlk/SigIgn/SigCgt
// at entry.
#include "common/faultengine.hpp"

using namespace fw;

namespace {

CaseResult judge(const fe::Obs &o, const fe::RunConfig &cfg, const std::string &kind)
{
  CaseResult res;
  res.describe = J().raw("run", fe::obs_json(o))
                     .kv("parent_blocked", hz::hex_sigset(cfg.parent_signals.blocked))
                     .kv("parent_ignored", hz::hex_sigset(cfg.parent_signals.ignored))
                     .kv("parent_handled", hz::hex_sigset(cfg.parent_signals.handled))
                     .kv("parent_sigchld", cfg.parent_signals.sigchld == 0 ? "default" : cfg.parent_signals.sigchld == 1 ? "ignored" : cfg.parent_signals.sigchld == 3 ? "default with SA_NOCLDWAIT" : "handler with SA_NOCLDWAIT")
                     .kv("child_SigBlk", hz::hex_sigset(o.child_sigblk))
                     .kv("child_SigIgn", hz::hex_sigset(o.child_sigign))
                     .kv("child_SigCgt", hz::hex_sigset(o.child_sigcgt))
                     .str();
  res.cls(kind);
  if (!o.setup_error.empty()) {
    res.inconclusive("setup: " + o.setup_error);
    return res;
  }
  uint64_t h = (uint64_t) o.scenario;
  bool any_fault = false, fault_after_mask = false;
  for (size_t i = 0; i < o.faults.size(); i++) {
    const fe::FaultSpec &f = o.faults[i];
    h = mix(h, (uint64_t) f.side | (uint64_t) f.index << 1 | (uint64_t) f.fn << 12 | (uint64_t) f.err << 20 | (uint64_t) f.kind << 30);
    if (i < o.fired.size() && o.fired[i]) {
      any_fault = true;
      // did the fault hit at or after the parent's mask change?
      for (auto &r : o.trace)
        if (r.side == VS_PARENT && r.fn == VS_SIGMASK && (f.side == VS_CHILD || r.fidx <= f.index)) fault_after_mask = true;
    }
  }
  h = mix(h, cfg.parent_signals.blocked);
  h = mix(h, cfg.parent_signals.ignored ^ (cfg.parent_signals.handled << 1));
  res.hash = h;
  bool rich_parent = cfg.parent_signals.blocked != 0 && (cfg.parent_signals.ignored | cfg.parent_signals.handled) != 0;
  res.nontrivial = rich_parent || fault_after_mask;
  if (rich_parent) res.cls("parent-blocks-and-handles");
  if (fault_after_mask) res.cls("fault-at-or-after-mask-change");
  if (o.r < 0) res.cls("failed-start");
  if (o.r > 0) res.cls("successful-start");

  std::string ctx = std::string("scenario ") + fe::scenario_name(o.scenario) + ", faults " + fe::fault_json(o.faults) + ", start returned " + std::to_string(o.r) + ": ";
  // the one excluded fault: the restoring call itself cannot restore if it fails
  bool restoring_call_faulted = false;
  {
    int masks_seen = 0;
    for (auto &r : o.trace) {
      if (r.side != VS_PARENT || r.fn != VS_SIGMASK) continue;
      masks_seen++;
      if (masks_seen >= 2 && r.faulted) restoring_call_faulted = true;
    }
  }
  if (!o.caller_diff.empty()) {
    if (restoring_call_faulted && o.caller_sig == "caller-mask-changed") res.cls("restoring-call-faulted(excluded)");
    else res.fail(o.caller_sig, ctx + o.caller_diff);
  }
  // A disposition or the working directory changed in the parent *during* the
  // call and put back before it returns satisfies the statement ("on every
  // return path ... exactly what they were before"); it is recorded, not judged.
  // What counts is the comparison of the caller's state before and after, above.
  for (auto &v : o.vs_violations)
    if (v.find("chdir(") != std::string::npos || v.find("sigaction(") != std::string::npos) res.cls("parent-state-touched-during-start");
  if (!o.child_sigflags.empty()) res.fail("child-disposition-flags", ctx + "the forked child's dispositions still carry flags of the parent's actions (signal:flags " + o.child_sigflags + "): with SA_NOCLDWAIT left on SIGCHLD the child's own children are reaped behind its back");
  if (cfg.parent_signals.sigchld >= 2 && o.scenario == fe::S_FORK && cfg.faults.empty()) res.cls("fork-child-with-parent-nocldwait");
  else if (cfg.parent_signals.sigchld) res.cls(cfg.parent_signals.sigchld == 1 ? "sigchld-ignored+fork-fails" : "sigchld-nocldwait+fork-fails");
  if (o.r > 0 && o.hello) {
    const uint64_t std_signals = 0x7fffffffull;  // 1..31
    if (o.child_sigblk != 0)
      res.fail("child-mask-not-empty", ctx + "the started program begins with blocked signals: SigBlk=" + hz::hex_sigset(o.child_sigblk));
    if (o.child_sigign & std_signals)
      res.fail("child-ignores-signals", ctx + "the started program begins with ignored standard signals: SigIgn=" + hz::hex_sigset(o.child_sigign));
    if ((o.child_sigcgt & std_signals) && o.scenario != fe::S_FORK)
      res.fail("child-handles-signals", ctx + "the started program begins with caught standard signals: SigCgt=" + hz::hex_sigset(o.child_sigcgt));
    if ((o.child_sigcgt & std_signals & (cfg.parent_signals.handled)) && o.scenario == fe::S_FORK)
      res.fail("child-handles-signals", ctx + "the forked child still has the parent's handlers installed: SigCgt=" + hz::hex_sigset(o.child_sigcgt));
  }
  return res;
}

CaseResult run_case(Tape &t, long sweep)
{
  fe::RunConfig cfg;
  std::string kind;
  fe::SweepTable &tb = fe::table();
  if (!tb.ok) {
    CaseResult r;
    r.inconclusive("fault table: " + tb.error);
    return r;
  }
  if (sweep >= 0) {
    if (!fe::decode_sweep(sweep, t, cfg, fw::case_dir(), kind)) {
      CaseResult r;
      r.cls("beyond-last-fault-point");
      return r;
    }
  } else {
    fe::decode_random(t, cfg, kind);
  }
  cfg.do_history = true;
  fe::Obs o = fe::run(cfg, fw::case_dir());
  return judge(o, cfg, kind);
}

}  // namespace

fw::PropertyDef fw::make_property()
{
  PropertyDef p;
  p.id = "C12";
  p.isolate = true;
  p.case_timeout_s = 60;
  p.tape_len = 200;
  p.run = run_case;
  p.sweep_count = [](const std::string &) { return fe::sweep_total(); };
  p.setup = [] { fe::table(); };
  return p;
}
