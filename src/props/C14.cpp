// C14 — any call sequence follows the documented life cycle; misuse errors,
// never UB. Engine V, sanitizer build with asserts on: generated sequences of
// 1-40 API calls over up to three handles (valid, invalid and failing starts;
// pid, write, read, close, poll, wait, terminate, kill, stop, destroy; NULL
// handles; out-of-range streams and actions; fork mode continuing on the child
// side) against scripted children. After every call the return value must lie
// in the set the reference model of a handle (DESIGN 3.2) allows, and the case
// process must survive (ASan / UBSan / assert = violation).
#include "common/fw.hpp"
#include <climits>
#include "common/harness.hpp"
#include "common/ledger.hpp"
#include "common/vtime.hpp"
#include "model/stop_model.hpp"

#include <algorithm>
#include <set>

using namespace fw;

namespace {

enum St { NOT_STARTED, RUNNING, EXITED, DESTROYED };

struct H {
  reproc_t *p = nullptr;
  St st = DESTROYED;
  bool pipe[3] = { false, false, false };  // parent ends open: in, out, err
  bool nonblocking = false;
  int deadline = 0;
  int64_t t_start = 0;
  int status = -1;
  vt::VChild ch;   // when started
  uint64_t read_total[2] = { 0, 0 };
  uint64_t in_written = 0;
  bool in_reader_gone = false;
};

enum OpKind { K_NEW, K_START, K_PID, K_WRITE, K_READ, K_CLOSE, K_POLL, K_WAIT, K_TERMINATE, K_KILL, K_STOP, K_DESTROY, K_CHILD, K_NKINDS };

std::string rname(int r)
{
  if (r == REPROC_EINVAL) return "EINVAL";
  if (r == REPROC_EPIPE) return "EPIPE";
  if (r == REPROC_ETIMEDOUT) return "ETIMEDOUT";
  if (r == REPROC_EWOULDBLOCK) return "EWOULDBLOCK";
  if (r == REPROC_ENOMEM) return "ENOMEM";
  return std::to_string(r);
}

CaseResult run_case(Tape &t, long)
{
  CaseResult res;
  vs_init();
  vs_reset();
  vt::World w;
  w.install();
  auto fds0 = hz::snapshot_self_fds();
  H hs[3];
  std::vector<std::string> log;
  int misuse = 0, good_starts = 0, nsteps = 0, transient_faults = 0, transient_hit = 0;
  uint64_t h = 0;
  bool in_child_side = false;
  size_t nops = (size_t) t.range(1, fw::tier() == "thorough" ? 120 : 40);
  int puppet_seq = 0;

  auto unread = [&](H &x, int k) -> uint64_t {
    if (x.ch.kid < 0) return 0;
    uint64_t wr = w.kids[(size_t) x.ch.kid].written[k + 1];
    return wr > x.read_total[k] ? wr - x.read_total[k] : 0;
  };
  auto kid_of = [&](H &x) -> vt::Kid * { return x.ch.kid >= 0 ? &w.kids[(size_t) x.ch.kid] : nullptr; };

  for (size_t step = 0; step < nops && res.kind == CaseResult::PASS && !w.hang; step++) {
    int hi = (int) t.weighted({ 6, 2, 1 });
    H &x = hs[hi];
    bool use_null = t.chance(1, 25);
    int kind = (int) t.weighted({ 3, 5, 2, 3, 4, 3, 3, 4, 2, 2, 3, 2, 5 });
    // bias towards making progress: a handle that does not exist gets created
    if (x.st == DESTROYED && kind != K_NEW && !use_null && t.chance(3, 4)) kind = K_NEW;
    if (x.st == NOT_STARTED && t.chance(1, 2)) kind = K_START;
    reproc_t *p = use_null ? nullptr : x.p;
    if (!use_null && x.st == DESTROYED && kind != K_NEW) continue;  // no dangling pointers: valid pointers only
    std::set<int> allowed;
    bool any_nonneg = false, any_positive = false;  // wildcard classes
    // Now and then the next boundary call of one kind is interrupted (EINTR):
    // the call may fail with that error, but it must leave the handle exactly
    // as it was - the rest of the sequence checks that.
    int armed = -1;
    vs_fail_nth(-1, -1);  // nothing left armed by a step that was skipped
    if (kind != K_START && kind != K_NEW && kind != K_DESTROY && kind != K_CHILD && t.chance(1, 10)) {
      static const int fns[] = { VS_POLL, VS_WAITPID, VS_READ, VS_WRITE };
      armed = fns[t.pick(4)];
      vs_fail_nth(armed, 0);
      transient_faults++;
    }
    unsigned faults_before = vs_nth_fired();
    int r = 0;
    std::string desc;
    nsteps++;
    h = mix(h, (uint64_t) kind * 16 + (uint64_t) (use_null ? 15 : x.st));
    auto misused = [&]() { misuse++; };

    switch (kind) {
      case K_NEW: {
        if (use_null) continue;
        if (x.st != DESTROYED) continue;
        x = H();
        x.p = reproc_new();
        x.st = NOT_STARTED;
        desc = "new";
        log.push_back("h" + std::to_string(hi) + " new");
        continue;
      }
      case K_START: {
        int variant = (int) t.weighted({ 6, 2, 2, 1 });  // valid, invalid options, missing program, fork mode
        reproc_options opt;
        memset(&opt, 0, sizeof(opt));
        opt.stop = { { REPROC_STOP_KILL, 5000 }, { REPROC_STOP_NOOP, 0 }, { REPROC_STOP_NOOP, 0 } };
        bool pipes[3] = { !t.chance(1, 4), !t.chance(1, 4), t.coin() };
        opt.redirect.in.type = pipes[0] ? REPROC_REDIRECT_PIPE : REPROC_REDIRECT_DISCARD;
        opt.redirect.out.type = pipes[1] ? REPROC_REDIRECT_PIPE : REPROC_REDIRECT_DISCARD;
        opt.redirect.err.type = pipes[2] ? REPROC_REDIRECT_PIPE : REPROC_REDIRECT_DISCARD;
        opt.nonblocking = t.coin();
        opt.deadline = t.chance(1, 3) ? (int) t.range(1, 50000) : 0;
        desc = "start(" + std::string(variant == 0 ? "valid" : variant == 1 ? "invalid-options" : variant == 2 ? "missing-program" : "fork") + ")";
        if (use_null) {
          const char *argv[] = { "/bin/true", nullptr };
          r = reproc_start(nullptr, argv, opt);
          allowed = { REPROC_EINVAL };
          misused();
          break;
        }
        if (x.st != NOT_STARTED) {
          // starting an already started handle is rejected
          const char *argv[] = { "/bin/true", nullptr };
          w.in_start = true;
          r = reproc_start(x.p, argv, opt);
          w.in_start = false;
          allowed = { REPROC_EINVAL };
          misused();
          break;
        }
        if (variant == 1) {
          switch (t.pick(4)) {
            case 0: opt.redirect.parent = opt.redirect.discard = true; opt.redirect.in.type = REPROC_REDIRECT_DEFAULT; break;
            case 1: opt.redirect.out.type = REPROC_REDIRECT_HANDLE; break;
            case 2: opt.input.size = 5; break;
            default: opt.fork = true; break;  // with an argv
          }
          const char *argv[] = { "/bin/true", nullptr };
          w.in_start = true;
          r = reproc_start(x.p, argv, opt);
          w.in_start = false;
          allowed = { REPROC_EINVAL };
          misused();
          break;
        }
        if (variant == 2) {
          // a program that does not exist, named in every shape a name can have
          // (absolute, bare, relative with a slash, empty), with and without a
          // working directory; the strings live in exactly sized heap blocks so
          // that reading past their ends is seen by the sanitizer
          std::string missing;
          switch (t.pick(5)) {
            case 0: missing = fw::case_dir() + "/no-such-program"; break;
            case 1: missing = "no-such-program-c14"; break;
            case 2: missing = "./no-such-program"; break;
            case 3: missing = "no-such-dir/prog"; break;
            default: missing = ""; break;
          }
          bool with_wd = t.coin();
          std::string wd = fw::case_dir();
          char *a0 = (char *) malloc(missing.size() + 1);
          memcpy(a0, missing.c_str(), missing.size() + 1);
          char *wdc = (char *) malloc(wd.size() + 1);
          memcpy(wdc, wd.c_str(), wd.size() + 1);
          const char *argv[] = { a0, nullptr };
          if (with_wd) opt.working_directory = wdc;
          desc = "start(missing-program \"" + missing + "\"" + (with_wd ? ", working directory" : "") + ")";
          w.in_start = true;
          r = reproc_start(x.p, argv, opt);
          w.in_start = false;
          free(a0);
          free(wdc);
          allowed = { -ENOENT };
          break;
        }
        if (variant == 3) {
          opt.fork = true;
          std::string report = fw::case_dir() + "/fork-child-" + std::to_string(step);
          w.in_start = true;
          r = reproc_start(x.p, nullptr, opt);
          w.in_start = false;
          if (r == 0) {
            // child side: everything except destroy must be refused
            in_child_side = true;
            std::string bad;
            uint8_t b[4] = { 1, 2, 3, 4 };
            struct { const char *n; int v; } calls[] = {
              { "pid", reproc_pid(x.p) }, { "wait", reproc_wait(x.p, 0) }, { "terminate", reproc_terminate(x.p) }, { "kill", reproc_kill(x.p) },
              { "stop", reproc_stop(x.p, opt.stop) }, { "read", reproc_read(x.p, REPROC_STREAM_OUT, b, 4) }, { "write", reproc_write(x.p, b, 4) }, { "close", reproc_close(x.p, REPROC_STREAM_IN) },
            };
            for (auto &c : calls)
              if (c.v != REPROC_EINVAL) bad += std::string(c.n) + "=" + std::to_string(c.v) + " ";
            reproc_t *ret = reproc_destroy(x.p);
            if (ret) bad += "destroy!=NULL ";
            int fd = open(report.c_str(), O_WRONLY | O_CREAT | O_TRUNC, 0644);
            if (fd >= 0) {
              std::string line = bad.empty() ? "ok\n" : bad + "\n";
              hz::write_all(fd, line.data(), line.size());
              close(fd);
            }
            _exit(0);
          }
          any_positive = true;
          in_child_side = true;  // (this is the parent: the child side ran its checks and reports by file)
          if (r > 0) {
            x.st = RUNNING;
            x.pipe[0] = pipes[0];
            x.pipe[1] = pipes[1];
            x.pipe[2] = pipes[2];
            x.nonblocking = opt.nonblocking;
            x.deadline = opt.deadline;
            x.t_start = w.now;
            good_starts++;
            // the forked child exits by itself after its checks
            pid_t pid = reproc_pid(x.p);
            hz::wait_dead(pid, 10000);
            std::string rep = hz::slurp(report);
            if (rep != "ok\n") res.fail("fork-child-misuse-not-refused", "child side of a fork: calls other than destroy were not refused with EINVAL: " + rep);
            // model it as a child that has exited with 0 and that we do not script
            x.ch.kid = -1;
            x.ch.pid = pid;
          }
          log.push_back("h" + std::to_string(hi) + " start(fork)=" + rname(r));
          if (r < 0) res.fail("fork-start-failed", "fork-mode start returned " + rname(r));
          continue;
        }
        // valid start of a puppet
        x.ch = vt::VChild();
        // reuse the handle created by new: start_puppet creates its own, so do it by hand
        x.ch.pup.reset(new hz::Puppet(fw::case_dir() + "/ctl" + std::to_string(puppet_seq++)));
        {
          const char *argv[] = { x.ch.pup->exe().c_str(), "c14", nullptr };
          x.t_start = w.now;
          w.in_start = true;
          r = reproc_start(x.p, argv, opt);
          w.in_start = false;
        }
        any_positive = true;
        if (r > 0) {
          x.ch.pid = reproc_pid(x.p);
          if (!x.ch.pup->wait_ready(10000, x.ch.pid)) {
            res.inconclusive("puppet not ready: " + x.ch.pup->error());
            break;
          }
          x.ch.kid = w.add_kid(x.ch.pup.get(), x.ch.pid);
          if (t.chance(1, 4)) w.set_term_mode(x.ch.kid, vt::TERM_IGNORE, 0);
          x.st = RUNNING;
          x.pipe[0] = pipes[0];
          x.pipe[1] = pipes[1];
          x.pipe[2] = pipes[2];
          x.nonblocking = opt.nonblocking;
          x.deadline = opt.deadline;
          good_starts++;
        }
        break;
      }
      case K_PID: {
        r = reproc_pid(p);
        desc = "pid";
        if (use_null || x.st == NOT_STARTED) {
          allowed = { REPROC_EINVAL };
          misused();
        } else {
          allowed = { x.ch.pid };
        }
        break;
      }
      case K_WRITE: {
        static uint8_t buf[4096];
        int form = (int) t.weighted({ 6, 1, 1 });  // data, NULL/0, NULL/n
        size_t n = (size_t) t.range(0, 3000);
        if (!use_null && x.st != NOT_STARTED && x.in_written + n > 40000) n = 0;  // never fill the pipe: a blocking write must not block
        for (size_t i = 0; i < n; i++) buf[i] = pup_pattern(0, x.in_written + i);
        desc = form == 0 ? "write(" + std::to_string(n) + ")" : form == 1 ? "write(NULL,0)" : "write(NULL,7)";
        if (form == 0) r = reproc_write(p, buf, n);
        else if (form == 1) r = reproc_write(p, nullptr, 0);
        else r = reproc_write(p, nullptr, 7);
        if (use_null) {
          allowed = { REPROC_EINVAL };
          misused();
        } else if (form == 1) {
          allowed = { 0 };
        } else if (form == 2) {
          allowed = { REPROC_EINVAL };
          misused();
        } else if (x.st == NOT_STARTED) {
          allowed = { REPROC_EPIPE, REPROC_EINVAL };
          misused();
        } else if (!x.pipe[0]) {
          allowed = { REPROC_EPIPE };
          misused();
        } else {
          vt::Kid *k = kid_of(x);
          bool reader_gone = x.in_reader_gone || !k || !k->alive;
          if (n == 0 && reader_gone) allowed = { 0, REPROC_EPIPE };  // a zero-length write does not probe the far side
          else if (n == 0) allowed = { 0 };
          else if (reader_gone) allowed = { REPROC_EPIPE };
          else
            for (int v = 1; v <= (int) n; v++) allowed.insert(v);
          if (r == REPROC_EPIPE) x.pipe[0] = false;
          if (r > 0) x.in_written += (uint64_t) r;
        }
        break;
      }
      case K_READ: {
        static uint8_t buf[8192];
        int stream = (int) t.weighted({ 1, 6, 6, 1 });  // IN, OUT, ERR, out-of-range
        size_t n = (size_t) t.range(1, 8192);
        static const int oor_r[] = { 3, 4, 7, -1, 99, INT_MAX, INT_MIN, 256 };
        int sv = stream == 3 ? oor_r[t.pick(8)] : stream;
        desc = "read(" + std::to_string(sv) + "," + std::to_string(n) + ")";
        bool valid_stream = stream == 1 || stream == 2;
        if (!use_null && valid_stream && x.st != NOT_STARTED && x.pipe[stream]) {
          // only issue a read that cannot block for ever
          vt::Kid *k = kid_of(x);
          bool far_closed = !k || !k->alive || k->closed[stream];
          if (!x.nonblocking && unread(x, stream - 1) == 0 && !far_closed) continue;
        }
        r = reproc_read(p, (REPROC_STREAM) sv, buf, n);
        if (use_null || !valid_stream) {
          allowed = { REPROC_EINVAL };
          misused();
        } else if (x.st == NOT_STARTED) {
          allowed = { REPROC_EPIPE, REPROC_EINVAL };
          misused();
        } else if (!x.pipe[stream]) {
          allowed = { REPROC_EPIPE };
          misused();
        } else {
          vt::Kid *k = kid_of(x);
          bool far_closed = !k || !k->alive || k->closed[stream];
          uint64_t u = unread(x, stream - 1);
          if (u > 0)
            for (uint64_t v = 1; v <= std::min<uint64_t>(u, n); v++) allowed.insert((int) v);
          else if (far_closed) allowed = { REPROC_EPIPE };
          else allowed = { REPROC_EWOULDBLOCK };
          if (!k) {  // unscripted (forked) child: nothing was written
            allowed = { REPROC_EPIPE };
          }
          if (r > 0) x.read_total[stream - 1] += (uint64_t) r;
          if (r == REPROC_EPIPE) x.pipe[stream] = false;
        }
        break;
      }
      case K_CLOSE: {
        int stream = (int) t.weighted({ 3, 3, 3, 1 });
        static const int oor_c[] = { 3, 4, 9, -1, 99, INT_MAX, INT_MIN, 256 };
        int sv = stream == 3 ? oor_c[t.pick(8)] : stream;
        desc = "close(" + std::to_string(sv) + ")";
        r = reproc_close(p, (REPROC_STREAM) sv);
        if (use_null || stream == 3) {
          allowed = { REPROC_EINVAL };
          misused();
        } else if (x.st == NOT_STARTED) {
          allowed = { 0, REPROC_EINVAL };
          misused();
        } else {
          allowed = { 0 };
          if (!x.pipe[stream]) misused();  // closing twice: idempotent
          x.pipe[stream] = false;
        }
        break;
      }
      case K_POLL: {
        size_t n = (size_t) t.range(1, 4);
        std::vector<reproc_event_source> src;
        std::vector<int> which;
        bool any_pollable = false, deadline_expired = false, any_proc = false;
        for (size_t i = 0; i < n; i++) {
          int j = (int) t.pick(4);  // 3 = NULL source
          int interests = (int) t.pick(32);
          reproc_t *pp = j < 3 && hs[j].st != DESTROYED ? hs[j].p : nullptr;
          src.push_back({ pp, interests, 0x7fff });
          which.push_back(pp ? j : -1);
          if (!pp) continue;
          any_proc = true;
          H &y = hs[j];
          if (y.st == NOT_STARTED) continue;
          if ((interests & 1) && y.pipe[0]) any_pollable = true;
          if ((interests & 2) && y.pipe[1]) any_pollable = true;
          if ((interests & 4) && y.pipe[2]) any_pollable = true;
          if ((interests & 8) && y.st == RUNNING) any_pollable = true;
          if (y.deadline && w.now >= y.t_start + y.deadline) deadline_expired = true;
        }
        (void) any_proc;
        int form = (int) t.weighted({ 10, 1, 1 });
        desc = "poll(" + std::to_string(n) + " sources)";
        if (form == 1) {
          r = reproc_poll(nullptr, n, 0);
          allowed = { REPROC_EINVAL };
          misused();
          break;
        }
        if (form == 2) {
          r = reproc_poll(src.data(), 0, 0);
          allowed = { REPROC_EINVAL };
          misused();
          break;
        }
        r = reproc_poll(src.data(), n, 0);
        if (deadline_expired) {
          allowed = { 1 };
        } else if (!any_pollable) {
          allowed = { REPROC_EPIPE };
        } else {
          any_nonneg = true;
        }
        if (r >= 0) {
          int count = 0;
          for (size_t i = 0; i < n; i++) {
            if (!src[i].process && src[i].events != 0) res.fail("poll:null-source-events", "poll: a source without a process reports events");
            if (src[i].process && (src[i].events & ~(src[i].interests | REPROC_EVENT_DEADLINE))) res.fail("poll:event-not-requested", "poll: events outside the interests");
            if (src[i].process && (src[i].events & REPROC_EVENT_DEADLINE) && which[i] >= 0) {
              H &y = hs[which[i]];
              bool expired = y.st != NOT_STARTED && y.deadline && w.now >= y.t_start + y.deadline;
              if (!expired) res.fail("poll:deadline-event-without-deadline", "poll reports the deadline event for a process that " + std::string(y.deadline ? "has not reached its deadline" : "was started without a deadline"));
            }
            count += src[i].events != 0;
          }
          if (count != r) res.fail("poll:wrong-count", "poll returned " + std::to_string(r) + " but " + std::to_string(count) + " sources carry events");
        }
        break;
      }
      case K_WAIT: {
        int to;
        switch (t.weighted({ 4, 3, 1, 1 })) {
          case 0: to = 0; break;
          case 1: to = (int) t.range(1, 3000); break;
          case 2: to = REPROC_DEADLINE; break;
          default: to = REPROC_INFINITE; break;
        }
        desc = "wait(" + std::to_string(to) + ")";
        if (!use_null && x.st == RUNNING) {
          vt::Kid *k = kid_of(x);
          bool dead = !k || !k->alive;
          bool unbounded = to == REPROC_INFINITE || (to == REPROC_DEADLINE && x.deadline == 0);
          if (unbounded && !dead) to = 50;
        }
        r = reproc_wait(p, to);
        if (use_null || x.st == NOT_STARTED) {
          allowed = { REPROC_EINVAL };
          misused();
        } else if (x.st == EXITED) {
          allowed = { x.status };
          misused();
        } else {
          vt::Kid *k = kid_of(x);
          bool dead = !k || !k->alive;
          if (dead) allowed = { k ? k->expected_status : 0 };
          else allowed = { REPROC_ETIMEDOUT };
          if (r >= 0) {
            x.st = EXITED;
            x.status = r;
          }
        }
        break;
      }
      case K_TERMINATE:
      case K_KILL: {
        desc = kind == K_TERMINATE ? "terminate" : "kill";
        r = kind == K_TERMINATE ? reproc_terminate(p) : reproc_kill(p);
        if (use_null || x.st == NOT_STARTED) {
          allowed = { REPROC_EINVAL };
          misused();
        } else {
          allowed = { 0 };
          if (x.st == EXITED) misused();
        }
        break;
      }
      case K_STOP: {
        model::StopAction a[3];
        bool oor = false;
        for (int i = 0; i < 3; i++) {
          a[i].action = (int) t.weighted({ 3, 3, 2, 2, 1 });
          if (a[i].action == 4) {
            a[i].action = t.coin() ? 9 : -3;
            oor = true;
          }
          a[i].timeout = t.coin() ? 0 : (int) t.range(1, 2000);
        }
        (void) oor;
        desc = "stop(" + std::to_string(a[0].action) + "," + std::to_string(a[1].action) + "," + std::to_string(a[2].action) + ")";
        bool all_noop = a[0].action == 0 && a[1].action == 0 && a[2].action == 0;
        if (all_noop) a[0] = { model::STOP_WAIT, 10 };  // the default policy may wait for ever; C15 covers it
        reproc_stop_actions sa = { { (REPROC_STOP) a[0].action, a[0].timeout }, { (REPROC_STOP) a[1].action, a[1].timeout }, { (REPROC_STOP) a[2].action, a[2].timeout } };
        int64_t entry = w.now;
        model::ChildScript cs;
        vt::Kid *k = (!use_null && x.st != NOT_STARTED) ? kid_of(x) : nullptr;
        if (k) {
          cs.term_mode = k->term_mode == vt::TERM_IGNORE ? 1 : 0;
          if (!k->alive) {
            cs.dead = true;
            cs.died_at = k->died_at;
            cs.status = k->expected_status;
          }
        } else {
          cs.dead = true;
          cs.died_at = entry;
          cs.status = 0;
        }
        r = reproc_stop(p, sa);
        if (use_null || x.st == NOT_STARTED) {
          allowed = { REPROC_EINVAL };
          misused();
        } else {
          int64_t dl = x.deadline ? x.t_start + x.deadline : model::T_INF;
          for (int variant = 0; variant < 2; variant++) {
            model::StopExpect e = model::interpret_stop(a, cs, entry, dl, x.st == EXITED, x.status, variant == 0);
            if (e.kind == model::StopExpect::STATUS)
              for (int s : e.statuses) allowed.insert(s);
            else if (e.kind == model::StopExpect::TIMEDOUT) allowed.insert(REPROC_ETIMEDOUT);
            else if (e.kind == model::StopExpect::EINVAL_) allowed.insert(REPROC_EINVAL);
            else any_nonneg = true;
          }
          if (x.st == EXITED) misused();
          if (r >= 0 && x.st == RUNNING && !vs_is_live(x.ch.pid)) {
            x.st = EXITED;
            x.status = r;
          }
        }
        break;
      }
      case K_DESTROY: {
        desc = "destroy";
        if (use_null) {
          reproc_t *ret = reproc_destroy(nullptr);
          if (ret) res.fail("destroy-null", "destroy(NULL) did not return NULL");
          misused();
          log.push_back("destroy(NULL)");
          continue;
        }
        // make sure destroy cannot wait for ever on a scripted child
        vt::Kid *k = kid_of(x);
        if (k && k->alive) w.perform({ x.ch.kid, vt::A_EXIT, 0, 0 });
        pid_t dpid = x.ch.pid;
        bool had_child = x.st == RUNNING || x.st == EXITED;
        reproc_t *ret = reproc_destroy(x.p);
        if (ret) res.fail("destroy-non-null", "destroy did not return NULL");
        // the child is dead by now: whatever happened earlier in the sequence
        // (failed or interrupted calls included), destroy's stop policy reaps it
        if (had_child && dpid > 0 && vs_is_live(dpid)) res.fail("destroy-left-child-unreaped", "destroy returned but the (already dead) child of this handle was not reaped");
        x.ch.pup.reset();
        x.p = nullptr;
        x.st = DESTROYED;
        log.push_back("h" + std::to_string(hi) + " destroy");
        continue;
      }
      case K_CHILD: {
        if (use_null || x.st == NOT_STARTED || x.st == DESTROYED) continue;
        vt::Kid *k = kid_of(x);
        if (!k || !k->alive) continue;
        int what = (int) t.weighted({ 5, 2, 2, 2 });
        uint32_t s = 1 + t.pick(2);
        nsteps--;
        switch (what) {
          case 0:
            w.perform({ x.ch.kid, vt::A_WRITE, s, (uint64_t) t.range(1, 5000) });
            log.push_back("h" + std::to_string(hi) + " child writes to " + std::to_string(s));
            break;
          case 1:
            w.perform({ x.ch.kid, vt::A_CLOSE, t.pick(3), 0 });
            if (k->closed[0]) x.in_reader_gone = true;
            log.push_back("h" + std::to_string(hi) + " child closes a stream");
            break;
          case 2:
            w.perform({ x.ch.kid, vt::A_EXIT, (uint32_t) t.pick(256), 0 });
            log.push_back("h" + std::to_string(hi) + " child exits");
            break;
          default:
            w.advance_to(w.now + (int64_t) t.range(1, 20000));
            log.push_back("time passes");
            break;
        }
        continue;
      }
      default: continue;
    }
    bool interrupted = false;
    if (armed >= 0) {
      vs_fail_nth(-1, -1);
      interrupted = vs_nth_fired() != faults_before;
      if (interrupted) transient_hit++;
    }
    log.push_back((use_null ? std::string("NULL ") : "h" + std::to_string(hi) + " ") + desc + "=" + rname(r) + (interrupted ? " [a call was interrupted]" : ""));
    bool ok = allowed.count(r) != 0 || (any_nonneg && r >= 0) || (any_positive && r > 0) || (interrupted && r == -EINTR);
    if (!ok && res.kind == CaseResult::PASS) {
      std::string want;
      for (int v : allowed) {
        if (want.size() > 60) {
          want += " ...";
          break;
        }
        want += (want.empty() ? "" : " | ") + rname(v);
      }
      if (any_nonneg) want += (want.empty() ? "" : " | ") + std::string(">= 0");
      if (any_positive) want += (want.empty() ? "" : " | ") + std::string("> 0");
      static const char *stn[] = { "not started", "running", "exited", "destroyed" };
      std::string sig = "diverged:" + desc.substr(0, desc.find('(')) + ":" + (use_null ? "null" : stn[x.st]);
      res.fail(sig, "step " + std::to_string(step) + ": " + (use_null ? "NULL handle" : std::string("handle ") + stn[x.st]) + ", " + desc + " returned " + rname(r) + "; the life cycle allows " + want);
    }
  }

  res.nontrivial = misuse > 0 && good_starts > 0;
  res.hash = h;
  if (misuse > 0) res.cls("misuse-call");
  if (good_starts > 0) res.cls("successful-start");
  if (good_starts >= 2) res.cls("several-children");
  if (in_child_side) res.cls("fork-child-side");
  if (transient_hit > 0) res.cls("interrupted-call");
  std::vector<std::string> jl;
  for (size_t i = 0; i < log.size() && i < 60; i++) jl.push_back(jstr(log[i]));
  res.describe = J().kv("calls", nsteps).raw("sequence", jarr(jl)).str();
  if (!w.trouble.empty()) {
    res.kind = CaseResult::INCONCLUSIVE;
    res.msg = "harness: " + w.trouble + (res.msg.empty() ? "" : " / " + res.msg);
  }
  // ---- tear down -----------------------------------------------------------------
  for (auto &kk : w.kids)
    if (kk.alive) {
      kill(kk.pid, SIGKILL);
      hz::wait_dead(kk.pid, 5000);
      kk.alive = false;
    }
  w.uninstall();
  for (auto &x : hs) {
    if (x.st != DESTROYED && x.p) reproc_destroy(x.p);
    x.ch.pup.reset();
  }
  std::string lsig, lp = hz::ledger_problems(fds0, lsig);
  if (!lp.empty() && res.kind == CaseResult::PASS) res.fail(lsig, "after destroying every handle: " + lp);
  return res;
}

}  // namespace

fw::PropertyDef fw::make_property()
{
  PropertyDef p;
  p.id = "C14";
  p.isolate = true;
  p.case_timeout_s = 90;
  p.tape_len = 1400;
  p.run = run_case;
  return p;
}
