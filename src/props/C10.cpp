// C10 — each standard stream of the child is connected exactly where the
// options say. Engine R: all 6 x 6 x 7 effective type combinations x the 8
// open/closed subsets of the parent's descriptors 0-2 x every way of
// expressing the combination (explicit types, field only, shorthands) are
// enumerated; identity comparison (st_dev, st_ino, st_rdev, access mode) of
// the child's descriptors 0-2 against the requested objects.
#include "common/fw.hpp"
#include "common/harness.hpp"
#include "common/ledger.hpp"
#include "common/scenario.hpp"
#include "vsys/vsys.h"

#include <cerrno>

using namespace fw;
using namespace hz;

namespace {

const int kIn[6] = { sc::T_PIPE, sc::T_PARENT, sc::T_DISCARD, sc::T_HANDLE, sc::T_FILE, sc::T_PATH };
const int kErr[7] = { sc::T_PIPE, sc::T_PARENT, sc::T_DISCARD, sc::T_HANDLE, sc::T_FILE, sc::T_PATH, sc::T_STDOUT };

long sweep_total(const std::string &) { return 252L * 8 * 6; }

// Functional check of a piped stream: bytes really travel between the parent
// end the library holds and the child's descriptor.
std::string pipe_traffic(reproc_t *p, Puppet &pup, int s, bool nonblocking)
{
  pup_ack a;
  if (s == 0) {
    uint8_t buf[5];
    for (int i = 0; i < 5; i++) buf[i] = pup_pattern(0, (uint64_t) i);
    int w = reproc_write(p, buf, 5);
    if (w != 5) return "reproc_write of 5 bytes to a piped stdin returned " + std::to_string(w);
    if (!pup.cmd(PUP_READ, 0, 64, &a)) return "puppet: " + pup.error();
    if (a.v[0] != 5 || a.v[3] != UINT64_MAX) return "the child read " + std::to_string(a.v[0]) + " byte(s) from stdin after the parent wrote 5";
    return "";
  }
  if (!pup.cmd(PUP_WRITE, (uint32_t) s, 7, &a)) return "puppet: " + pup.error();
  if (a.v[0] != 7) return "the child could not write to its piped " + std::string(sc::stream_name(s));
  uint8_t buf[32];
  size_t got = 0;
  for (int tries = 0; tries < 50 && got < 7; tries++) {
    int r = reproc_read(p, s == 1 ? REPROC_STREAM_OUT : REPROC_STREAM_ERR, buf + got, sizeof(buf) - got);
    if (r == REPROC_EWOULDBLOCK && nonblocking) continue;
    if (r <= 0) return "reproc_read on piped " + std::string(sc::stream_name(s)) + " returned " + std::to_string(r) + " with 7 bytes pending";
    got += (size_t) r;
  }
  if (got != 7) return "read " + std::to_string(got) + " of 7 bytes from piped " + sc::stream_name(s);
  for (size_t i = 0; i < 7; i++)
    if (buf[i] != pup_pattern(s, i)) return "bytes read from " + std::string(sc::stream_name(s)) + " are not what the child wrote to it (streams crossed?)";
  return "";
}

CaseResult run_case(Tape &t, long sweep)
{
  CaseResult res;
  vs_init();
  vs_reset();
  const std::string root = fw::case_dir();
  Puppet pup(root + "/ctl");
  if (!pup.error().empty()) {
    res.inconclusive("puppet setup: " + pup.error());
    return res;
  }

  sc::Plan plan;
  int mask = 0;  // bit s set = parent's descriptor s closed before the call
  int variant = 0;
  if (sweep >= 0) {
    long k = sweep;
    variant = (int) (k % 6);
    k /= 6;
    mask = (int) (k % 8);
    k /= 8;
    plan.eff[0] = kIn[k % 6];
    k /= 6;
    plan.eff[1] = kIn[k % 6];
    k /= 6;
    plan.eff[2] = kErr[k % 7];
  } else {
    plan.eff[0] = kIn[t.pick(6)];
    plan.eff[1] = kIn[t.pick(6)];
    plan.eff[2] = kErr[t.pick(7)];
    mask = (int) t.pick(8);
    variant = (int) t.pick(6);
  }
  // variant: 0 explicit types; 1 minimal settings without shorthand; 2 parent;
  // 3 discard; 4 file shorthand; 5 path shorthand. Inapplicable shorthands fall
  // back to variant 1 with field-only settings.
  bool applied = true;
  if (variant >= 1) {
    int sh = variant - 1;
    if (!sc::apply_shorthand(plan, sh)) {
      applied = false;
      sc::apply_shorthand(plan, sc::SH_NONE);
    }
    for (int s = 0; s < 3; s++) plan.field_only[s] = true;
  }
  bool fclose_instead = t.coin();
  for (int s = 0; s < 3; s++) {
    plan.place[s] = (int) t.pick(2);
    if (plan.eff[s] == sc::T_HANDLE && t.chance(1, 4)) plan.force_fd[s] = 1 + (int) t.pick(2);  // 1 or 2 (0 means unset)
  }
  plan.nonblocking = t.chance(1, 4);
  if (plan.eff[0] == sc::T_PIPE && t.chance(1, 5)) plan.input_size = (long) t.range(0, 2000);
  // a path for stdin that does not exist yet (derived from the draws above so that the sweep's cases keep their tapes)
  if (plan.eff[0] == sc::T_PATH && !plan.unset[0] && (plan.place[1] + plan.place[2] + (int) plan.nonblocking) % 2 == 1) plan.in_path_fresh = true;

  // ---- arrange the parent's 0-2 -----------------------------------------------
  FILE *std[3] = { stdin, stdout, stderr };
  for (int s = 0; s < 3; s++) {
    if (mask & (1 << s)) {
      if (fclose_instead) fclose(std[s]);
      else close(s);
    }
  }
  sc::Built b;
  if (!sc::build(plan, root, b)) {
    res.inconclusive("build: " + b.err);
    return res;
  }
  for (int s = 0; s < 3; s++)
    if (plan.eff[s] == sc::T_PARENT && (mask & (1 << s)) && b.expect[s].kind == sc::Expect::OBJECT) b.expect[s].alt_nulldev = true;
  bool user_low = false;
  for (int fd : b.watch_fds) user_low = user_low || (fd >= 0 && fd <= 2);

  const char *argv[] = { pup.exe().c_str(), "c10", nullptr };
  auto fds_before = snapshot_self_fds();
  reproc_t *p = reproc_new();
  int r = reproc_start(p, argv, b.opt);

  int nonpipe_kinds = 0;
  {
    bool seen[8] = { false };
    for (int s = 0; s < 3; s++)
      if (plan.eff[s] != sc::T_PIPE && !seen[plan.eff[s]]) {
        seen[plan.eff[s]] = true;
        nonpipe_kinds++;
      }
  }
  res.nontrivial = mask != 0 || user_low || plan.eff[2] == sc::T_STDOUT || nonpipe_kinds >= 2;
  res.hash = mix(mix((uint64_t) plan.eff[0] | (uint64_t) plan.eff[1] << 4 | (uint64_t) plan.eff[2] << 8 | (uint64_t) mask << 12 | (uint64_t) variant << 16 | (uint64_t) applied << 20,
                     (uint64_t) plan.place[0] | (uint64_t) plan.place[1] << 1 | (uint64_t) plan.place[2] << 2 | (uint64_t) (plan.force_fd[0] + 1) << 4 | (uint64_t) (plan.force_fd[1] + 1) << 8 | (uint64_t) (plan.force_fd[2] + 1) << 12),
                 (uint64_t) fclose_instead | (uint64_t) plan.nonblocking << 1 | (uint64_t) (plan.input_size >= 0) << 2 | (uint64_t) plan.in_path_fresh << 3);
  if (mask) res.cls("parent-fd-closed");
  if (mask == 7) res.cls("parent-0-1-2-all-closed");
  if (user_low) res.cls("user-object-on-0-2");
  if (plan.eff[2] == sc::T_STDOUT) res.cls("stderr-to-stdout");
  if (variant >= 2 && applied) res.cls("via-shorthand");
  if (variant == 1 || !applied) res.cls("field-only/defaults");
  if (variant == 0) res.cls("explicit-types");
  if (fclose_instead && mask) res.cls("closed-with-fclose");
  res.describe = J().raw("plan", sc::plan_json(plan))
                     .kv("closed_parent_fds_mask", mask)
                     .kv("closed_with", fclose_instead ? "fclose" : "close")
                     .kv("variant", variant)
                     .kv("start_result", r)
                     .str();

  if (r < 0) {
    res.fail("start-failed", "valid redirect combination: reproc_start failed with " + std::to_string(r) + " (" + strerror(-r) + ")");
    reproc_destroy(p);
    return res;
  }
  std::string why, sig;
  if (!pup.wait_ready(10000, reproc_pid(p))) {
    res.fail("no-hello", "reproc_start reported success but the program did not come up: " + pup.error());
  } else {
    why = sc::check_child_streams(plan, b, pup.hello(), sig);
    if (!why.empty()) res.fail(sig, why);
    // pipes: the parent holds the other end
    for (int s = 0; s < 3 && res.kind == CaseResult::PASS; s++) {
      bool piped_now = plan.eff[s] == sc::T_PIPE && !(s == 0 && plan.input_size >= 0);
      if (plan.eff[s] == sc::T_PIPE) {
        const FdInfo *c = pup.hello().fd(s);
        int own[16];
        int n = vs_own_open_fds(own, 16);
        bool found = false;
        for (int i = 0; i < n && i < 16; i++) {
          FdId id = fd_id(own[i]);
          if (c && id.open && id.dev == c->dev && id.ino == c->ino) found = true;
        }
        if (piped_now && !found) res.fail("parent-end-missing", std::string("the parent holds no end of the pipe that is the child's ") + sc::stream_name(s));
      }
      if (piped_now) {
        why = pipe_traffic(p, pup, s, plan.nonblocking);
        if (!why.empty()) res.fail(std::string("pipe-traffic:") + sc::stream_name(s), why);
      } else if (s == 0) {
        uint8_t x = 'x';
        int w = reproc_write(p, &x, 1);
        if (w != REPROC_EPIPE) res.fail("non-pipe-write", "stdin is not a pipe held by the parent, yet reproc_write returned " + std::to_string(w));
      } else {
        uint8_t buf[8];
        int rr = reproc_read(p, s == 1 ? REPROC_STREAM_OUT : REPROC_STREAM_ERR, buf, sizeof(buf));
        if (rr != REPROC_EPIPE) res.fail("non-pipe-read", std::string(sc::stream_name(s)) + " is not a pipe, yet reproc_read returned " + std::to_string(rr));
      }
    }
    if (plan.input_size >= 0 && res.kind == CaseResult::PASS) {
      pup_ack a;
      if (pup.cmd(PUP_READ, 0, (uint64_t) plan.input_size + 10, &a)) {
        if (a.v[1] != (uint64_t) plan.input_size || !a.v[2] || a.v[3] != UINT64_MAX)
          res.fail("input", "start-up input of " + std::to_string(plan.input_size) + " bytes: the child read " + std::to_string(a.v[1]) + ", eof=" + std::to_string(a.v[2]));
      }
    }
  }
  why = sc::check_user_objects(b, sig);
  if (!why.empty()) res.fail(sig, why);
  if (pup.ready()) pup.send(PUP_EXIT, 0);
  else reproc_kill(p);
  reproc_wait(p, 5000);
  reproc_destroy(p);
  sig.clear();
  why = ledger_problems(fds_before, sig);
  if (!why.empty()) res.fail(sig, "after destroy: " + why);
  // Precondition of one known family of failures: a descriptor that start had
  // to hand to the child (created by the library, or supplied by the user) was
  // itself numbered 0-2.
  bool low_source = user_low;
  {
    // descriptors the library created on 0-2 and did not move away again
    bool low[3] = { false, false, false };
    for (uint32_t i = 0; i < vs_sh->nrec && i < VS_MAXREC; i++) {
      const vs_rec &rec = vs_sh->rec[i];
      if (rec.side != VS_PARENT) continue;
      if (rec.fn == VS_PIPE && rec.ret == 0) {
        if (rec.a0 >= 0 && rec.a0 <= 2) low[rec.a0] = true;
        if (rec.a1 >= 0 && rec.a1 <= 2) low[rec.a1] = true;
      }
      if (rec.fn == VS_OPEN && rec.ret >= 0 && rec.ret <= 2) low[rec.ret] = true;
      if (rec.fn == VS_FCNTL && (rec.a1 == F_DUPFD || rec.a1 == F_DUPFD_CLOEXEC) && rec.ret > 2 && rec.a0 >= 0 && rec.a0 <= 2) low[rec.a0] = false;
    }
    low_source = low_source || low[0] || low[1] || low[2];
  }
  if (low_source) res.cls("source-descriptor-on-0-2");
  if (res.kind == CaseResult::FAIL && low_source) {
    res.msg = "[a descriptor start had to pass to the child was itself numbered 0-2] " + res.msg + " (" + res.sig + ")";
    res.sig = "low-fd-collision";
  }
  return res;
}

}  // namespace

fw::PropertyDef fw::make_property()
{
  PropertyDef p;
  p.id = "C10";
  p.isolate = true;
  p.case_timeout_s = 40;
  p.tape_len = 64;
  p.run = run_case;
  p.sweep_count = sweep_total;
  return p;
}
