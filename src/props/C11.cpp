// C11 — the child inherits no descriptor besides its three streams and the
// exit handle. Engine R: generated sets of extra descriptors in the parent
// (any number, up to the highest permitted number, with and without
// close-on-exec, of several kinds), generated descriptor limits and redirect
// configurations; the oracle is the child's own /proc/self/fd listing at entry.
#include "common/fw.hpp"
#include "common/harness.hpp"
#include "common/ledger.hpp"
#include "common/scenario.hpp"
#include "vsys/vsys.h"

#include <algorithm>
#include <cerrno>
#include <set>
#include <sys/eventfd.h>
#include <sys/resource.h>
#include <sys/socket.h>

using namespace fw;
using namespace hz;

namespace {

const int kIn[6] = { sc::T_PIPE, sc::T_PARENT, sc::T_DISCARD, sc::T_HANDLE, sc::T_FILE, sc::T_PATH };
const int kErr[7] = { sc::T_PIPE, sc::T_PARENT, sc::T_DISCARD, sc::T_HANDLE, sc::T_FILE, sc::T_PATH, sc::T_STDOUT };

int make_object(int kind, const std::string &dir)
{
  switch (kind) {
    case 0: return open((dir + "/extra-file").c_str(), O_RDWR | O_CREAT, 0644);
    case 1: {
      int p[2];
      if (pipe(p) != 0) return -1;
      close(p[0]);
      return p[1];
    }
    case 2: return socket(AF_UNIX, SOCK_STREAM, 0);
    case 3: return eventfd(0, 0);
    default: return open(dir.c_str(), O_RDONLY | O_DIRECTORY);
  }
}

bool is_free(int fd) { return fcntl(fd, F_GETFD) < 0 && errno == EBADF; }

// One start under one generated limit / descriptor set. Several rounds run in
// the same process: whatever the library remembers from an earlier start (a
// cached limit, say) must not matter for a later one.
CaseResult one_round(Tape &t, int round)
{
  CaseResult res;
  vs_reset();
  const std::string root = fw::case_dir() + "/r" + std::to_string(round);
  mkdir(root.c_str(), 0755);
  Puppet pup(root + "/ctl");
  if (!pup.error().empty()) {
    res.inconclusive("puppet setup: " + pup.error());
    return res;
  }

  // ---- generate ---------------------------------------------------------
  static const int kLimitsQuick[] = { 16, 20, 24, 32, 64, 100, 256, 1024, 4096 };
  static const int kLimitsThorough[] = { 16, 20, 24, 32, 64, 100, 256, 1024, 4096, 8192, 20000 };
  bool thorough = fw::tier() == "thorough";
  int limit = thorough ? kLimitsThorough[t.pick(11)] : kLimitsQuick[t.pick(9)];
  // one launch in ten from a parent with thousands of descriptors open (more than one batch of a directory listing of
  // /proc/self/fd, more than FD_SETSIZE, more than any small table)
  bool many = t.chance(1, 10);
  if (many) limit = std::max(limit, thorough ? 8192 : 4096);
  sc::Plan plan;
  plan.eff[0] = kIn[t.pick(6)];
  plan.eff[1] = kIn[t.pick(6)];
  plan.eff[2] = kErr[t.pick(7)];
  if (t.coin()) {
    int sh = (int) t.pick(5);
    if (!sc::apply_shorthand(plan, sh)) sc::apply_shorthand(plan, sc::SH_NONE);
    for (int s = 0; s < 3; s++) plan.field_only[s] = true;
  }
  if (plan.eff[0] == sc::T_PIPE && t.chance(1, 6)) plan.input_size = (long) t.range(0, 500);
  plan.nonblocking = t.chance(1, 5);
  // fork mode: "the started program" is the forked copy of this process; it
  // lists its own descriptors and leaves
  bool fork_round = t.chance(1, 6);
  if (fork_round) plan.fork = true;

  struct Extra {
    int fd;
    int kind;
    bool cloexec;
  };
  std::vector<Extra> want;
  std::set<int> numbers;
  auto add = [&](int fd) {
    if (fd >= 3 && fd < limit && fd < 600 && !numbers.count(fd)) {
      numbers.insert(fd);
      want.push_back({ fd, (int) t.pick(5), t.chance(1, 3) });
    } else if (fd >= 3 && fd < limit && fd >= 1000 && !numbers.count(fd)) {
      numbers.insert(fd);
      want.push_back({ fd, (int) t.pick(5), t.chance(1, 3) });
    }
  };
  bool top = t.chance(2, 3), top2 = t.chance(1, 2);
  if (top) add(limit - 1);
  if (top2) add(limit - 2);
  switch (many ? 9 : t.weighted({ 2, 5, 3, 2 })) {
    case 0: break;
    case 9: {
      // a block of 1400-3000 consecutive numbers (with a few holes) above the harness's own descriptors, plus a handful below
      int n = (int) t.range(1400, std::min(3000, limit - 1100));
      int hole_every = (int) t.range(0, 50);
      for (int i = 0; i < n; i++)
        if (hole_every < 7 || i % hole_every != 3) add(1000 + i);
      int low = (int) t.range(0, 6);
      for (int i = 0; i < low; i++) add((int) t.range(3, 599));
      break;
    }
    case 1: {
      int n = (int) t.range(1, 6);
      for (int i = 0; i < n; i++) add((int) t.range(3, limit - 1));
      break;
    }
    case 2: {
      int a = (int) t.range(3, std::max(3, limit - 1));
      int len = (int) t.range(1, 40);
      for (int i = 0; i < len; i++) add(a + i);
      break;
    }
    default: {
      int n = limit >= 1024 ? (int) t.range(100, 1000) : (int) t.range(1, std::max(1, limit / 3));
      for (int i = 0; i < n; i++) add((int) t.range(3, limit - 1));
      break;
    }
  }
  // leave room below the limit for what start itself has to create
  std::sort(want.begin(), want.end(), [](const Extra &a, const Extra &b) { return a.fd > b.fd; });
  auto free_below = [&]() {
    int used = 3;  // 0-2
    for (auto &e : want) used += e.fd < limit;
    return limit - used;
  };
  int need = 7;  // exit pipe, two error pipes, one spare
  for (int s = 0; s < 3; s++) need += plan.eff[s] == sc::T_PIPE ? 2 : (plan.eff[s] == sc::T_DISCARD || plan.eff[s] == sc::T_PATH || plan.eff[s] == sc::T_PARENT) ? 1 : 0;
  while (!want.empty() && free_below() < need) {
    // drop from the middle, keep the top of the range
    want.erase(want.begin() + (long) std::min<size_t>(want.size() - 1, 2));
  }
  if (free_below() < need) {
    res.inconclusive("limit too small for a start");
    return res;
  }

  // ---- arrange ------------------------------------------------------------
  // a daemon-style parent: some of its own 0-2 closed, so that whatever the
  // library creates first lands there
  int closed_mask = t.chance(1, 3) ? 1 + (int) t.pick(7) : 0;
  if (round > 0) closed_mask = 0;  // (later rounds inherit what round 0 closed)
  for (int s = 0; s < 3; s++)
    if (closed_mask & (1 << s)) close(s);
  sc::Built b;
  if (!sc::build(plan, root, b)) {
    res.inconclusive("build: " + b.err);
    return res;
  }
  int placed = 0, inheritable = 0;
  bool placed_top = false;
  std::vector<int> placed_fds;
  for (auto &e : want) {
    if (!is_free(e.fd)) continue;
    int obj = make_object(e.kind, root);
    if (obj < 0) continue;
    if (obj != e.fd) {
      if (dup2(obj, e.fd) < 0) {
        close(obj);
        continue;
      }
      close(obj);
    }
    if (e.cloexec) fcntl(e.fd, F_SETFD, FD_CLOEXEC);
    else inheritable++;
    placed++;
    placed_fds.push_back(e.fd);
    if (e.fd == limit - 1 && !e.cloexec) placed_top = true;
  }
  // user handles built by the scenario live >= 600: they count as "open in the
  // parent" too when the limit is above them.
  struct rlimit rl;
  getrlimit(RLIMIT_NOFILE, &rl);
  struct rlimit lowered = rl;
  lowered.rlim_cur = (rlim_t) limit;
  if (setrlimit(RLIMIT_NOFILE, &lowered) != 0) {
    res.inconclusive("setrlimit");
    return res;
  }

  const char *argv_exec[] = { pup.exe().c_str(), "c11", nullptr };
  const char *const *argv = fork_round ? nullptr : argv_exec;
  std::string fork_report = root + "/fork-fds";
  auto fds_before = snapshot_self_fds();
  reproc_t *p = reproc_new();
  // In one launch of seven the forked child cannot learn the descriptor limit (getrlimit fails there, as under a
  // seccomp policy): refusing to start is fine, starting is fine - but then the program still sees only 0-2 and the exit handle.
  bool rlimit_fault = !fork_round && (limit + placed) % 7 == 0;
  if (rlimit_fault) {
    vs_fault vf;
    memset(&vf, 0, sizeof(vf));
    vf.side = VS_CHILD;
    vf.index = -1;  // the first getrlimit on the child's side, wherever it comes in the call sequence
    vf.fn = VS_GETRLIMIT;
    vf.kind = VS_FK_ERRNO;
    vf.err = EPERM;
    vs_add_fault(vf);
  }
  int r = reproc_start(p, argv, b.opt);
  if (rlimit_fault) vs_clear_faults();
  if (fork_round && r == 0) {
    // child side
    std::string out;
    for (auto &kv : snapshot_self_fds()) {
      out += std::to_string(kv.first) + " " + std::to_string((unsigned long long) kv.second.ino) + " " + std::to_string(S_ISFIFO(kv.second.mode) ? 1 : 0) + " " + std::to_string(kv.second.fl & O_ACCMODE) + "\n";
    }
    int fd = open((fork_report + ".tmp").c_str(), O_WRONLY | O_CREAT | O_TRUNC, 0644);
    if (fd >= 0) {
      // the report descriptor itself is not part of what was inherited
      out = "self " + std::to_string(fd) + "\n" + out;
      write_all(fd, out.data(), out.size());
      close(fd);
      rename((fork_report + ".tmp").c_str(), fork_report.c_str());
    }
    reproc_destroy(p);
    _exit(0);
  }
  setrlimit(RLIMIT_NOFILE, &rl);

  res.nontrivial = inheritable > 0 || placed_top;
  res.hash = mix(mix((uint64_t) limit, (uint64_t) placed * 1000003u + (uint64_t) inheritable), (uint64_t) plan.eff[0] | (uint64_t) plan.eff[1] << 4 | (uint64_t) plan.eff[2] << 8 | (uint64_t) plan.shorthand << 12);
  for (int fd : placed_fds) res.hash = mix(res.hash, (uint64_t) fd);
  if (inheritable) res.cls("inheritable-extra-descriptor");
  if (placed_top) res.cls("highest-permitted-descriptor-open");
  if (placed >= 100) res.cls("hundreds-of-descriptors");
  if (limit <= 32) res.cls("tiny-limit");
  if (closed_mask) res.cls("parent-0-2-partly-closed");
  if (limit >= 4096) res.cls("large-limit");
  if (placed >= 1366) res.cls("thousands-of-descriptors-open");
  std::vector<int> head(placed_fds.begin(), placed_fds.begin() + (long) std::min<size_t>(placed_fds.size(), 12));
  res.describe = J().kv("limit", limit)
                     .kv("closed_parent_fds_mask", closed_mask)
                     .kv("extra_descriptors", placed)
                     .kv("inheritable", inheritable)
                     .raw("extra_numbers_head", jnums(head))
                     .raw("plan", sc::plan_json(plan))
                     .kv("start_result", r)
                     .str();

  if (rlimit_fault) res.cls(r < 0 ? "child-cannot-read-limit:start-refused" : "child-cannot-read-limit:started");
  if (r < 0) {
    if (r == -EMFILE) {
      res.inconclusive("start ran out of descriptors under the generated limit");
    } else if (rlimit_fault) {
      // refused: nothing was started, nothing can have been inherited
    } else {
      res.fail("start-failed", "reproc_start failed with " + std::to_string(r) + " (" + strerror(-r) + ")");
    }
    reproc_destroy(p);
  } else if (fork_round) {
    res.cls("fork-mode");
    wait_dead(reproc_pid(p), 10000);
    std::string rep = slurp(fork_report);
    if (rep.empty()) res.fail("fork-child-no-report", "the forked child left no descriptor report");
    else {
      std::set<uint64_t> parent_pipe_inodes;
      int own[32];
      int n = vs_own_open_fds(own, 32);
      for (int i = 0; i < n && i < 32; i++) {
        FdId id = fd_id(own[i]);
        if (id.open && S_ISFIFO(id.mode)) parent_pipe_inodes.insert(id.ino);
      }
      // lines: "<fd> <ino> <fifo> <accmode>"; the snapshot was taken while /proc/self/fd
      // was open, which snapshot_self_fds already leaves out
      std::vector<int> leaked;
      int exit_like = 0;
      // Without an exec the child keeps its own ends of the redirects open next
      // to 0-2 (the caller closes them; code comment in process_start): an extra
      // descriptor that is the same object, in the same direction, as one of
      // the child's standard streams is therefore expected. Anything else -
      // notably the *parent's* end of one of those pipes - is not.
      struct Ent { int fd; unsigned long long ino; int fifo, acc; };
      std::vector<Ent> ents;
      size_t pos = 0;
      while (pos < rep.size()) {
        size_t e = rep.find('\n', pos);
        if (e == std::string::npos) break;
        Ent en;
        if (sscanf(rep.c_str() + pos, "%d %llu %d %d", &en.fd, &en.ino, &en.fifo, &en.acc) == 4) ents.push_back(en);
        pos = e + 1;
      }
      for (auto &en : ents) {
        if (en.fd <= 2 || en.fd >= limit) continue;
        bool own_stream_copy = false;
        for (auto &st : ents)
          if (st.fd <= 2 && st.ino == en.ino && st.acc == en.acc) own_stream_copy = true;
        bool is_exit = en.fifo && parent_pipe_inodes.count(en.ino) && en.acc == O_WRONLY && !own_stream_copy && exit_like == 0;
        if (is_exit) exit_like++;
        else if (!own_stream_copy) leaked.push_back(en.fd);
      }
      if (!leaked.empty()) {
        std::string l;
        for (size_t i = 0; i < leaked.size() && i < 10; i++) l += " " + std::to_string(leaked[i]);
        res.fail("inherited-extra", "fork mode: below the descriptor limit (" + std::to_string(limit) + ") the forked child holds descriptors beyond 0, 1, 2 and the exit handle:" + l);
      }
    }
    reproc_wait(p, 5000);
    reproc_destroy(p);
  } else {
    if (!pup.wait_ready(10000, reproc_pid(p))) {
      res.fail("no-hello", "reproc_start reported success but the program did not come up: " + pup.error());
    } else {
      const Hello &h = pup.hello();
      std::vector<int> extra_in_child;
      for (auto &f : h.fds)
        if (f.fd > 2) extra_in_child.push_back(f.fd);
      // the exit handle: one descriptor that is the write end of a pipe whose
      // read end the parent holds
      std::set<uint64_t> parent_pipe_inodes;
      int own[32];
      int n = vs_own_open_fds(own, 32);
      for (int i = 0; i < n && i < 32; i++) {
        FdId id = fd_id(own[i]);
        if (id.open && S_ISFIFO(id.mode)) parent_pipe_inodes.insert(id.ino);
      }
      int exit_like = 0;
      std::vector<int> leaked;
      for (auto &f : h.fds) {
        if (f.fd <= 2) continue;
        bool is_exit = S_ISFIFO(f.mode) && parent_pipe_inodes.count(f.ino) && (f.fl & O_ACCMODE) == O_WRONLY;
        // a pipe that is also one of the child's standard streams is not the exit handle
        for (int s = 0; s < 3; s++) {
          const FdInfo *c = h.fd(s);
          if (c && c->ino == f.ino && c->dev == f.dev) is_exit = false;
        }
        if (is_exit && exit_like == 0) exit_like++;
        else leaked.push_back(f.fd);
      }
      if (!leaked.empty()) {
        std::string l;
        for (size_t i = 0; i < leaked.size() && i < 10; i++) l += " " + std::to_string(leaked[i]);
        std::string sig = "inherited-extra";
        if (leaked.size() == 1 && leaked[0] == limit - 1) sig = "inherited-highest-permitted";
        res.fail(sig, "the started program sees descriptors beyond 0, 1, 2 and the exit handle:" + l + " (descriptor limit " + std::to_string(limit) + ")");
      }
      for (int s = 0; s < 3 && res.kind == CaseResult::PASS; s++)
        if (!h.fd(s)) res.fail("stream-closed-in-child", std::string("the child's ") + sc::stream_name(s) + " is not open");
    }
    if (pup.ready()) pup.send(PUP_EXIT, 0);
    else reproc_kill(p);
    reproc_wait(p, 5000);
    reproc_destroy(p);
  }
  std::string sig, why = ledger_problems(fds_before, sig);
  if (!why.empty()) res.fail(sig, "after destroy: " + why);
  for (int fd : placed_fds) close(fd);
  return res;
}

CaseResult run_case(Tape &t, long)
{
  vs_init();
  int rounds = (int) t.weighted({ 5, 3, 2 }) + 1;
  CaseResult all;
  std::vector<std::string> descs;
  uint64_t h = 0;
  for (int r = 0; r < rounds; r++) {
    CaseResult one = one_round(t, r);
    descs.push_back(one.describe);
    h = mix(h, one.hash);
    all.nontrivial = all.nontrivial || one.nontrivial;
    for (auto &c : one.classes) all.classes.push_back(c);
    if (one.kind == CaseResult::FAIL) {
      all.fail(one.sig, "start #" + std::to_string(r + 1) + " of " + std::to_string(rounds) + " in this process: " + one.msg);
      break;
    }
    if (one.kind == CaseResult::INCONCLUSIVE && all.kind == CaseResult::PASS && r == 0) all.inconclusive(one.msg);
  }
  if (rounds > 1) all.cls("several-starts-in-one-process");
  all.hash = mix(h, (uint64_t) rounds);
  all.describe = J().kv("starts", rounds).raw("rounds", jarr(descs)).str();
  return all;
}

}  // namespace

fw::PropertyDef fw::make_property()
{
  PropertyDef p;
  p.id = "C11";
  p.isolate = true;
  p.case_timeout_s = 60;
  p.tape_len = 2200;
  p.run = run_case;
  return p;
}
