// C09 — poll reports exactly the events that are true and nothing else.
// Engine V: 1-5 sources (NULL sources included), every interest mask, every
// per-stream state reached constructively and acknowledged before the poll
// (so with timeout 0 the state is settled), child running / exited / reaped.
// Oracle: subset + count clauses, the closed-pipe clause from the parent-side
// pipe model, completeness for settled states, and a *truthfulness probe*
// (read / 1-byte write / zero-timeout wait) for every reported bit, which must
// complete without a blocking episode.
#include "common/fw.hpp"
#include "common/harness.hpp"
#include "common/ledger.hpp"
#include "common/vtime.hpp"

#include <algorithm>

using namespace fw;

namespace {

enum OutState { O_NOT_PIPE, O_IDLE, O_PENDING, O_CLOSED_BY_CHILD, O_CLOSED_BY_PARENT, O_NSTATES };
enum InState { I_NOT_PIPE, I_EMPTY, I_FULL, I_READER_GONE, I_CLOSED_BY_PARENT, I_NSTATES };
enum ChildState { CH_RUNNING, CH_EXITED, CH_REAPED };

struct Src {
  bool null = false;
  int interests = 0;
  int out[2] = { O_IDLE, O_IDLE };  // stdout, stderr
  uint64_t pending[2] = { 0, 0 };
  int in = I_EMPTY;
  int child = CH_RUNNING;
  bool nonblocking = false;
  int later_event = 0;     // 0 none, 1 write stdout, 2 write stderr, 3 exit (only with a waiting poll)
  int64_t later_after = 0;
  int deadline_kind = 0;   // 0 none, 1 far beyond everything this case does, 2 may pass during a waiting poll, 3 passed before the first poll
  int deadline = 0;
};

struct Case {
  std::vector<Src> src;
  int timeout = 0;          // 0, finite or INFINITE
  bool second_round = false;
};

Case decode(Tape &t)
{
  Case c;
  size_t n = (size_t) t.weighted({ 4, 4, 2, 1, 1 }) + 1;
  bool any = false;
  for (size_t i = 0; i < n; i++) {
    Src s;
    s.null = t.chance(1, 6);
    if (i == n - 1 && !any) s.null = false;
    any = any || !s.null;
    s.interests = (int) t.pick(32);
    for (int k = 0; k < 2; k++) {
      s.out[k] = (int) t.weighted({ 2, 4, 4, 2, 2 });
      if (s.out[k] == O_PENDING) {
        static const uint64_t sizes[] = { 1, 10, 4096, 65536, 70000 };
        s.pending[k] = sizes[t.pick(5)];
      }
    }
    s.in = (int) t.weighted({ 2, 5, 2, 2, 2 });
    s.child = (int) t.weighted({ 5, 3, 2 });
    s.nonblocking = t.coin();
    c.src.push_back(s);
  }
  switch (t.weighted({ 7, 2, 1 })) {
    case 0: c.timeout = 0; break;
    case 1: c.timeout = (int) t.range(1, 100000); break;
    default: c.timeout = REPROC_INFINITE; break;
  }
  if (c.timeout != 0) {
    // a later event on one running source so that a waiting poll has something to wait for
    Src &s = c.src[t.pick((uint32_t) n)];
    if (!s.null && s.child == CH_RUNNING) {
      s.later_event = 1 + (int) t.pick(3);
      s.later_after = (int64_t) t.range(1, 50000);
    }
  }
  c.second_round = t.coin();
  // (decoded last: cases recorded before sources had deadlines keep their meaning)
  for (auto &s : c.src) {
    if (s.null) continue;
    s.deadline_kind = (int) t.weighted({ 6, 2, 2, 1 });
    switch (s.deadline_kind) {
      case 1: s.deadline = 1000000000; break;
      case 2: s.deadline = (int) t.range(1, 60000); break;
      case 3: s.deadline = (int) t.range(1, 50); break;
      default: break;
    }
  }
  return c;
}

const char *out_name(int s)
{
  static const char *n[] = { "not-a-pipe", "open-idle", "data-pending", "closed-by-child", "closed-by-parent" };
  return n[s];
}
const char *in_name(int s)
{
  static const char *n[] = { "not-a-pipe", "empty", "full", "reader-gone", "closed-by-parent" };
  return n[s];
}

// Parent-side model of one process (DESIGN 3.2), advanced by set-up and probes.
struct Model {
  bool pipe_open[4] = { false, false, false, false };  // in, out, err, exit (parent ends)
  uint64_t read_total[2] = { 0, 0 };                     // bytes the parent has read per output stream
  bool child_closed[3] = { false, false, false };       // child closed its end of in/out/err
  bool dead = false, reaped = false;
  bool in_full = false;
};

CaseResult run_case(Tape &t, long)
{
  CaseResult res;
  Case c = decode(t);
  vs_init();
  vs_reset();
  vt::World w;
  w.install();
  size_t n = c.src.size();
  std::vector<vt::VChild> kids(n);
  std::vector<Model> mod(n);
  std::vector<int64_t> deadline_abs(n, vt::INF);
  std::map<int, hz::FdId> fds_before = hz::snapshot_self_fds();
  std::string err;

  {
    std::vector<std::string> js;
    for (auto &s : c.src)
      js.push_back(s.null ? std::string("null")
                          : J().kv("interests", s.interests).kv("stdout", out_name(s.out[0])).kv("stderr", out_name(s.out[1])).kv("pending_out", (unsigned long long) s.pending[0]).kv("pending_err", (unsigned long long) s.pending[1]).kv("stdin", in_name(s.in)).kv("child", s.child == CH_RUNNING ? "running" : s.child == CH_EXITED ? "exited" : "reaped").kv("nonblocking", s.nonblocking).kv("later_event", s.later_event).kv("later_after", (long long) s.later_after).kv("deadline", s.deadline).str());
    res.describe = J().raw("sources", jarr(js)).kv("timeout", c.timeout).kv("second_round", c.second_round).str();
  }

  // ---- construct the states ------------------------------------------------
  for (size_t i = 0; i < n && err.empty(); i++) {
    const Src &s = c.src[i];
    if (s.null) continue;
    reproc_options opt;
    memset(&opt, 0, sizeof(opt));
    opt.redirect.in.type = s.in == I_NOT_PIPE ? REPROC_REDIRECT_DISCARD : REPROC_REDIRECT_PIPE;
    opt.redirect.out.type = s.out[0] == O_NOT_PIPE ? REPROC_REDIRECT_DISCARD : REPROC_REDIRECT_PIPE;
    opt.redirect.err.type = s.out[1] == O_NOT_PIPE ? REPROC_REDIRECT_DISCARD : REPROC_REDIRECT_PIPE;
    opt.nonblocking = s.nonblocking;
    opt.deadline = s.deadline;
    opt.stop = { { REPROC_STOP_KILL, 5000 }, { REPROC_STOP_NOOP, 0 }, { REPROC_STOP_NOOP, 0 } };
    err = vt::start_puppet(w, fw::case_dir() + "/ctl" + std::to_string(i), opt, kids[i]);
    if (err.empty() && kids[i].start_result <= 0) err = "start returned " + std::to_string(kids[i].start_result);
    if (!err.empty()) break;
    if (s.deadline) deadline_abs[i] = kids[i].t_start + s.deadline;
    Model &m = mod[i];
    m.pipe_open[0] = s.in != I_NOT_PIPE;
    m.pipe_open[1] = s.out[0] != O_NOT_PIPE;
    m.pipe_open[2] = s.out[1] != O_NOT_PIPE;
    m.pipe_open[3] = true;
    int kid = kids[i].kid;
    for (int k = 0; k < 2; k++) {
      uint32_t stream = (uint32_t) k + 1;
      switch (s.out[k]) {
        case O_PENDING:
          w.perform({ kid, vt::A_WRITE, stream, s.pending[k] });
          break;
        case O_CLOSED_BY_CHILD:
          if (s.pending[k] == 0 && (s.interests & 1)) {
            // sometimes leave data behind before closing
            w.perform({ kid, vt::A_WRITE, stream, 5 });
          }
          w.perform({ kid, vt::A_CLOSE, stream, 0 });
          m.child_closed[stream] = true;
          break;
        case O_CLOSED_BY_PARENT:
          reproc_close(kids[i].p, k == 0 ? REPROC_STREAM_OUT : REPROC_STREAM_ERR);
          m.pipe_open[stream] = false;
          break;
        default: break;
      }
    }
    switch (s.in) {
      case I_FULL: {
        // exactly the pipe capacity in page-sized writes: every slot full
        std::vector<uint8_t> page(4096);
        int cap = fcntl(0, F_GETPIPE_SZ);
        (void) cap;
        uint64_t off = 0;
        bool ok = true;
        for (int j = 0; j < 16 && ok; j++) {
          for (size_t b = 0; b < page.size(); b++) page[b] = pup_pattern(0, off + b);
          int wr = reproc_write(kids[i].p, page.data(), page.size());
          if (wr != (int) page.size()) ok = false;
          off += page.size();
        }
        m.in_full = ok;
        if (!ok) err = "could not fill the stdin pipe";
        break;
      }
      case I_READER_GONE:
        w.perform({ kid, vt::A_CLOSE, 0, 0 });
        m.child_closed[0] = true;
        break;
      case I_CLOSED_BY_PARENT:
        reproc_close(kids[i].p, REPROC_STREAM_IN);
        m.pipe_open[0] = false;
        break;
      default: break;
    }
    if (s.child != CH_RUNNING) {
      w.perform({ kid, vt::A_EXIT, 9, 0 });
      m.dead = true;
      if (s.child == CH_REAPED) {
        int st = reproc_wait(kids[i].p, 0);
        if (st != 9) err = "set-up wait(0) on an exited child returned " + std::to_string(st);
        m.reaped = true;
        m.pipe_open[3] = false;
      }
    }
    if (s.later_event) {
      int64_t at = w.now + s.later_after;
      if (s.later_event == 1) w.schedule(at, kid, vt::A_WRITE, 1, 3);
      else if (s.later_event == 2) w.schedule(at, kid, vt::A_WRITE, 2, 3);
      else w.schedule(at, kid, vt::A_EXIT, 9);
    }
  }
  auto teardown = [&]() {
    w.uninstall();
    for (auto &kk : w.kids)
      if (kk.alive) {
        kill(kk.pid, SIGKILL);
        hz::wait_dead(kk.pid, 5000);
      }
    for (auto &k : kids)
      if (k.p) reproc_destroy(k.p);
    for (auto &k : kids) k.pup.reset();
  };
  if (!err.empty() || !w.trouble.empty()) {
    res.inconclusive("set-up: " + err + " " + w.trouble);
    teardown();
    return res;
  }

  {
    // deadlines of kind 3 have passed by the time of the first poll
    bool any3 = false;
    for (auto &s : c.src) any3 = any3 || (!s.null && s.deadline_kind == 3);
    if (any3) w.advance_to(w.now + 60);
  }
  bool cls_deadline_passed = false, cls_deadline_far = false, cls_deadline_during = false;
  bool cls_multi = false, cls_closed = false, cls_reaped = false, cls_empty = false, cls_waiting = false, cls_probe = false;
  {
    size_t np = 0;
    for (auto &s : c.src) {
      np += !s.null;
      if (s.null) continue;
      if (s.child == CH_REAPED) cls_reaped = true;
      for (int k = 0; k < 2; k++)
        if (s.out[k] == O_NOT_PIPE || s.out[k] == O_CLOSED_BY_CHILD || s.out[k] == O_CLOSED_BY_PARENT) cls_closed = true;
      if (s.in == I_NOT_PIPE || s.in == I_READER_GONE || s.in == I_CLOSED_BY_PARENT) cls_closed = true;
    }
    cls_multi = c.src.size() >= 2;
  }

  // bytes the child has written (acknowledged) and the parent has not read yet
  auto unread = [&](size_t i, int k) -> uint64_t {
    uint64_t wr = w.kids[(size_t) kids[i].kid].written[k + 1];
    return wr > mod[i].read_total[k] ? wr - mod[i].read_total[k] : 0;
  };
  int rounds = c.second_round ? 2 : 1;
  for (int round = 0; round < rounds && res.kind == CaseResult::PASS; round++) {
    int timeout = round == 0 ? c.timeout : 0;
    // ---- expectation ----------------------------------------------------------
    bool any_pollable = false;
    std::vector<int> must(n, 0);  // bits that must be reported (settled states)
    bool something_true_now = false;
    for (size_t i = 0; i < n; i++) {
      if (c.src[i].null) continue;
      const Model &m = mod[i];
      int in = c.src[i].interests;
      if ((in & REPROC_EVENT_IN) && m.pipe_open[0]) {
        any_pollable = true;
        if (m.child_closed[0] || m.dead || !m.in_full) must[i] |= REPROC_EVENT_IN;
      }
      for (int k = 0; k < 2; k++) {
        int bit = k == 0 ? REPROC_EVENT_OUT : REPROC_EVENT_ERR;
        if ((in & bit) && m.pipe_open[k + 1]) {
          any_pollable = true;
          if (unread(i, k) > 0 || m.child_closed[k + 1] || m.dead) must[i] |= bit;
        }
      }
      if ((in & REPROC_EVENT_EXIT) && m.pipe_open[3]) {
        any_pollable = true;
        if (m.dead) must[i] |= REPROC_EVENT_EXIT;
      }
      if (must[i]) something_true_now = true;
    }
    // A deadline that has passed is reported instead of everything else (C08 says how); the clauses about what must be
    // reported and about the closed-pipe error then have nothing to say. What is reported must still be true.
    bool any_expired = false;
    for (size_t i = 0; i < n; i++) {
      if (c.src[i].null) continue;
      if (deadline_abs[i] <= w.now) any_expired = true;
      else if (c.src[i].deadline_kind == 1) cls_deadline_far = true;
    }
    if (any_expired) cls_deadline_passed = true;
    if (!any_pollable && !any_expired) cls_empty = true;
    if (timeout != 0 && !something_true_now) cls_waiting = true;

    std::vector<reproc_event_source> srcs(n);
    for (size_t i = 0; i < n; i++) srcs[i] = { c.src[i].null ? nullptr : kids[i].p, c.src[i].interests, 0x7fff };
    bool hang_before = w.hang;
    int64_t entry = w.now;
    w.call_begins((timeout > 0 ? timeout : 0) + 100000);
    int r = reproc_poll(srcs.data(), n, timeout);
    bool hung = w.hang && !hang_before;
    std::string evs;
    for (auto &s : srcs) evs += " " + std::to_string(s.events);
    auto fail = [&](const std::string &sig, const std::string &mm) { res.fail(sig, "poll round " + std::to_string(round) + " (timeout " + std::to_string(timeout) + "): " + mm + " [returned " + std::to_string(r) + ", events:" + evs + "]"); };

    if (!any_pollable && !any_expired) {
      if (r != REPROC_EPIPE) fail("epipe-expected", "no requested stream of any source can still be polled: expected REPROC_EPIPE");
      continue;
    }
    if (r == REPROC_EPIPE && !any_pollable) continue;  // (with a passed deadline: either answer)
    if (r == REPROC_EPIPE) {
      fail("epipe-unexpected", "at least one requested stream can still be polled, yet REPROC_EPIPE was returned");
      continue;
    }
    if (r < 0) {
      fail("poll-error", "unexpected error");
      continue;
    }
    if (hung) {
      // a waiting poll in a world where nothing more happens: legitimate only if nothing was true
      if (something_true_now) fail("event-missed", "a requested event was already true, yet poll waited without bound");
      break;
    }
    // scripted events may have fired during a waiting poll
    for (size_t i = 0; i < n; i++) {
      if (c.src[i].null) continue;
      if (!w.kids[(size_t) kids[i].kid].alive) mod[i].dead = true;
    }
    int count = 0;
    for (size_t i = 0; i < n; i++) {
      int ev = srcs[i].events;
      if (c.src[i].null) {
        if (ev != 0) fail("null-source-events", "a source without a process reports events");
        continue;
      }
      if (ev & ~(c.src[i].interests | REPROC_EVENT_DEADLINE)) fail("event-not-requested", "source " + std::to_string(i) + " reports " + std::to_string(ev) + " outside its interests " + std::to_string(c.src[i].interests));
      if ((ev & REPROC_EVENT_DEADLINE) && deadline_abs[i] == vt::INF) fail("deadline-without-deadline", "source " + std::to_string(i) + " reports a deadline event but has no deadline");
      else if ((ev & REPROC_EVENT_DEADLINE) && w.now < deadline_abs[i]) fail("deadline-not-passed", "source " + std::to_string(i) + " reports its deadline " + std::to_string(deadline_abs[i] - w.now) + " ms before it passes");
      else if ((ev & REPROC_EVENT_DEADLINE) && !any_expired) cls_deadline_during = true;
      if (ev != 0) count++;
      if (!any_expired && !(ev & REPROC_EVENT_DEADLINE) && (must[i] & ev) != must[i]) {
        int missing = must[i] & ~ev;
        std::string what = missing & REPROC_EVENT_OUT ? "stdout (data pending / closed / child gone)" : missing & REPROC_EVENT_ERR ? "stderr (data pending / closed / child gone)" : missing & REPROC_EVENT_IN ? "stdin (room / reader gone)" : "exit (child dead)";
        fail("event-missed", "source " + std::to_string(i) + ": " + what + " was true and requested but not reported");
      }
    }
    if (res.kind != CaseResult::PASS) break;
    if (r != count) {
      fail("wrong-count", "return value differs from the number of sources with events (" + std::to_string(count) + ")");
      break;
    }
    // ---- truthfulness probes ---------------------------------------------------
    for (size_t i = 0; i < n && res.kind == CaseResult::PASS; i++) {
      if (c.src[i].null) continue;
      int ev = srcs[i].events;
      Model &m = mod[i];
      for (int k = 0; k < 2; k++) {
        int bit = k == 0 ? REPROC_EVENT_OUT : REPROC_EVENT_ERR;
        if (!(ev & bit)) continue;
        cls_probe = true;
        size_t ep0 = w.episodes.size();
        bool hb = w.hang;
        static uint8_t buf[8192];
        int rr = reproc_read(kids[i].p, k == 0 ? REPROC_STREAM_OUT : REPROC_STREAM_ERR, buf, sizeof(buf));
        bool blocked = w.episodes.size() != ep0 || (w.hang && !hb);
        if (blocked) fail("reported-but-read-blocks", std::string("source ") + std::to_string(i) + ": " + (k == 0 ? "stdout" : "stderr") + " was reported readable but the read had to wait");
        else if (rr == REPROC_EWOULDBLOCK) fail("reported-but-read-would-block", std::string("source ") + std::to_string(i) + ": " + (k == 0 ? "stdout" : "stderr") + " was reported readable but the read would block");
        else if (rr > 0) {
          for (int b = 0; b < rr && res.kind == CaseResult::PASS; b++) {
            // content check is C02's; here only that data is the child's
          }
          m.read_total[k] += (uint64_t) rr;
        } else if (rr == REPROC_EPIPE) {
          m.pipe_open[k + 1] = false;
          if (unread(i, (int) k) > 0) fail("epipe-with-data-pending", std::string("source ") + std::to_string(i) + ": read returned the closed-stream error while " + std::to_string(unread(i, (int) k)) + " byte(s) were still undelivered");
        } else {
          fail("probe-read-error", "read after a reported event returned " + std::to_string(rr));
        }
      }
      if (ev & REPROC_EVENT_IN) {
        cls_probe = true;
        size_t ep0 = w.episodes.size();
        bool hb = w.hang;
        uint8_t x = pup_pattern(0, 0);
        int wr = reproc_write(kids[i].p, &x, 1);
        bool blocked = w.episodes.size() != ep0 || (w.hang && !hb);
        if (blocked) fail("reported-but-write-blocks", "source " + std::to_string(i) + ": stdin was reported writable but a 1-byte write had to wait");
        else if (wr == REPROC_EWOULDBLOCK) fail("reported-but-write-would-block", "source " + std::to_string(i) + ": stdin was reported writable but a 1-byte write would block");
        else if (wr == REPROC_EPIPE) m.pipe_open[0] = false;
        else if (wr != 1) fail("probe-write-error", "1-byte write after a reported event returned " + std::to_string(wr));
      }
      if (ev & REPROC_EVENT_EXIT) {
        cls_probe = true;
        int st = reproc_wait(kids[i].p, 0);
        if (st == REPROC_ETIMEDOUT) fail("reported-exit-but-wait-times-out", "source " + std::to_string(i) + ": exit was reported but wait(0) says the child is still running");
        else if (st >= 0) {
          m.reaped = true;
          m.pipe_open[3] = false;
        }
      }
    }
  }

  res.nontrivial = cls_multi || cls_closed || cls_reaped || cls_empty;
  uint64_t h = (uint64_t) n;
  for (auto &s : c.src) h = mix(h, s.null ? 999 : ((uint64_t) s.interests | (uint64_t) s.out[0] << 5 | (uint64_t) s.out[1] << 8 | (uint64_t) s.in << 11 | (uint64_t) s.child << 14 | (uint64_t) s.nonblocking << 16 | (uint64_t) s.pending[0] << 17 | (uint64_t) s.later_event << 40 | (uint64_t) s.deadline_kind << 44));
  h = mix(h, (uint64_t) (uint32_t) c.timeout * 2 + c.second_round);
  res.hash = h;
  if (cls_multi) res.cls("two-or-more-sources");
  if (cls_closed) res.cls("closed-or-not-a-pipe-stream");
  if (cls_reaped) res.cls("reaped-child-among-sources");
  if (cls_empty) res.cls("empty-pollable-set");
  if (cls_waiting) res.cls("waiting-poll");
  if (cls_probe) res.cls("probe-performed");
  if (cls_deadline_passed) res.cls("deadline-passed-before-poll");
  if (cls_deadline_during) res.cls("deadline-passed-during-poll");
  if (cls_deadline_far) res.cls("deadline-far-away");
  for (auto &s : c.src)
    if (s.null) {
      res.cls("null-source");
      break;
    }
  if (!w.trouble.empty()) {
    res.kind = CaseResult::INCONCLUSIVE;
    res.msg = "harness: " + w.trouble + (res.msg.empty() ? "" : " / " + res.msg);
  }
  teardown();
  std::string lsig, lp = hz::ledger_problems(fds_before, lsig);
  if (!lp.empty() && res.kind == CaseResult::PASS) res.fail(lsig, "after destroy: " + lp);
  return res;
}

}  // namespace

fw::PropertyDef fw::make_property()
{
  PropertyDef p;
  p.id = "C09";
  p.isolate = true;
  p.case_timeout_s = 90;
  p.tape_len = 128;
  p.run = run_case;
  return p;
}
