// Stub <io.h> of the Win32 simulator.
#pragma once
#include <stdint.h>
#include <stdio.h>
int _fileno(FILE *f);
intptr_t _get_osfhandle(int fd);
