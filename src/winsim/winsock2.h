// Stub <winsock2.h> of the Win32 simulator (see windows.h).
#pragma once
#include "windows.h"

typedef uintptr_t SOCKET;
#define INVALID_SOCKET ((SOCKET) ~(uintptr_t) 0)
#define SOCKET_ERROR (-1)

#define AF_INET 2
#define SOCK_STREAM 1
#define SOL_SOCKET 0xffff
#define SO_PROTOCOL_INFOW 0x2005
#define XP1_IFS_HANDLES 0x00020000
#define INADDR_LOOPBACK 0x7f000001
#define FIONBIO 0x8004667eL
#define SD_RECEIVE 0
#define SD_SEND 1
#define SD_BOTH 2
#define WSAEINTR 10004
#define WSAEBADF 10009
#define WSAEINVAL 10022
#define WSAEMFILE 10024
#define WSAEWOULDBLOCK 10035
#define WSAENOTSOCK 10038
#define WSAENETDOWN 10050
#define WSAECONNABORTED 10053
#define WSAECONNRESET 10054
#define WSAENOBUFS 10055
#define WSAENOTCONN 10057
#define WSAESHUTDOWN 10058
#define WSAECONNREFUSED 10061

#define POLLRDNORM 0x0100
#define POLLRDBAND 0x0200
#define POLLIN (POLLRDNORM | POLLRDBAND)
#define POLLPRI 0x0400
#define POLLWRNORM 0x0010
#define POLLOUT (POLLWRNORM)
#define POLLWRBAND 0x0020
#define POLLERR 0x0001
#define POLLHUP 0x0002
#define POLLNVAL 0x0004

typedef struct {
  SOCKET fd;
  short events;
  short revents;
} WSAPOLLFD;

typedef struct {
  WORD wVersion;
  char pad[64];
} WSADATA;

typedef struct {
  DWORD dwServiceFlags1;
  char pad[64];
} WSAPROTOCOL_INFOW;

typedef struct {
  short sa_family;
  char sa_data[14];
} SOCKADDR;

typedef struct {
  short sin_family;
  unsigned short sin_port;
  struct {
    union {
      u_long S_addr;
    } S_un;
  } sin_addr;
  char sin_zero[8];
} SOCKADDR_IN;

typedef struct {
  short ss_family;
  char pad[126];
} SOCKADDR_STORAGE;

int WSAStartup(WORD version, WSADATA *data);
int WSACleanup(void);
int WSAGetLastError(void);
void WSASetLastError(int e);
SOCKET WSASocketW(int af, int type, int protocol, void *info, unsigned group, DWORD flags);
int bind(SOCKET s, const SOCKADDR *name, int len);
int listen(SOCKET s, int backlog);
int getsockname(SOCKET s, SOCKADDR *name, int *len);
int getsockopt(SOCKET s, int level, int opt, char *val, int *len);
int connect(SOCKET s, const SOCKADDR *name, int len);
SOCKET accept(SOCKET s, SOCKADDR *addr, int *len);
int shutdown(SOCKET s, int how);
int closesocket(SOCKET s);
int ioctlsocket(SOCKET s, long cmd, u_long *arg);
int recv(SOCKET s, char *buf, int len, int flags);
int send(SOCKET s, const char *buf, int len, int flags);
int WSAPoll(WSAPOLLFD *fds, ULONG n, int timeout);
u_long htonl(u_long v);
