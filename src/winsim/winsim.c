// The Win32 simulator: see windows.h. Everything here is single-threaded and
// deterministic; no real descriptor, socket or process is ever created.
#define WSIM_NO_ALLOC_REDIRECT
#include "winsock2.h"
#include "io.h"
#include "winsim.h"

#include <stdarg.h>
#include <stdlib.h>

const char *const wsim_api_name[WA_COUNT] = {
  "WSAStartup", "WSASocketW", "bind", "listen", "getsockname", "getsockopt", "connect", "accept", "shutdown", "ioctlsocket",
  "SetHandleInformation", "InitializeProcThreadAttributeList", "UpdateProcThreadAttribute", "CreateProcessW", "MultiByteToWideChar",
  "CreateFileW", "GetStdHandle", "_fileno", "_get_osfhandle", "WaitForSingleObject", "GetExitCodeProcess", "WSAPoll", "recv", "send",
  "TerminateProcess", "GenerateConsoleCtrlEvent",
};

enum { MAXOBJ = 256, SOCKBUF = 65536, MAXVIOL = 64 };
enum { ST_FRESH, ST_BOUND, ST_LISTENING, ST_CONNECTING, ST_CONNECTED };

struct wobj {
  int kind, open, close_count, inherit, lib_owned;
  // socket
  int state, port, peer, nonblocking, shut_send, shut_recv, pending_client, child_refs;
  unsigned char *rx;
  size_t rx_len;
  // file / user
  char path[300];
  uint32_t access, share, disposition;
  int sa_inherit;
};

static struct wobj g_obj[MAXOBJ];
static int g_nobj;
static DWORD g_last_error;
static int g_wsa_error;
static int g_fail_api = -1, g_fail_nth = -1;
static uint32_t g_fail_error;
static unsigned g_calls[WA_COUNT];
static int g_fail_alloc = -1;
static unsigned g_allocs;
static char g_viol[MAXVIOL][200];
static int g_nviol;
static void *g_std[3];
static FILE *g_osf_file;
static void *g_osf_handle;
static wchar_t *g_parent_env;
static size_t g_parent_units;
static uint64_t g_now;
static wsim_block_fn g_block;
static wsim_next_fn g_next;
static wsim_fire_fn g_fire;
static int g_hung;
static char g_hung_what[64];
static unsigned g_error_mode;

// the one simulated child
static struct wsim_proc g_proc;
static wchar_t *g_cmd_copy, *g_env_copy, *g_cwd_copy;
static int g_child_running, g_child_exited;
static uint32_t g_exit_code;
static int g_child_std[3] = { -1, -1, -1 };   // object indices the child uses as 0/1/2
static int g_child_held[WSIM_MAX_LIST], g_child_nheld;
static int g_ctrl_break_mode;

// ---- allocation tracking ----
struct ablock {
  void *p;
  size_t n;
};
static struct ablock g_blocks[4096];
static size_t g_nblocks;

static void viol(const char *fmt, ...)
{
  if (g_nviol >= MAXVIOL) return;
  va_list ap;
  va_start(ap, fmt);
  vsnprintf(g_viol[g_nviol++], sizeof(g_viol[0]), fmt, ap);
  va_end(ap);
}

static void *track(void *p, size_t n)
{
  if (p != NULL && g_nblocks < 4096) {
    g_blocks[g_nblocks].p = p;
    g_blocks[g_nblocks].n = n;
    g_nblocks++;
  }
  return p;
}

static int alloc_fails(void)
{
  if (g_fail_alloc >= 0 && (int) g_allocs++ == g_fail_alloc) return 1;
  if (g_fail_alloc < 0) g_allocs++;
  return 0;
}

void *wsim_malloc(size_t n)
{
  if (alloc_fails()) return NULL;
  return track(malloc(n ? n : 1), n);
}

void *wsim_calloc(size_t a, size_t b)
{
  if (alloc_fails()) return NULL;
  return track(calloc(a ? a : 1, b ? b : 1), a * b);
}

static int untrack(void *p)
{
  for (size_t i = 0; i < g_nblocks; i++)
    if (g_blocks[i].p == p) {
      g_blocks[i] = g_blocks[--g_nblocks];
      return 1;
    }
  return 0;
}

void *wsim_realloc(void *p, size_t n)
{
  if (alloc_fails()) return NULL;
  // blocks that did not come from the library (a caller's string handed to
  // sink_string) are simply adopted
  if (p != NULL) untrack(p);
  return track(realloc(p, n ? n : 1), n);
}

void wsim_free(void *p)
{
  if (p == NULL) return;
  if (!untrack(p)) {
    // not ours: a caller's block, or a double free (the sanitizer decides)
  }
  free(p);
}

unsigned wsim_allocs(void) { return g_allocs; }
size_t wsim_live_allocs(void) { return g_nblocks; }
void wsim_fail_alloc(int n)
{
  g_fail_alloc = n;
  g_allocs = 0;
}

// ---- handles ----
static HANDLE h_of(int i) { return (HANDLE) (intptr_t) (0x100 + 4 * i); }
static int i_of(HANDLE h)
{
  intptr_t v = (intptr_t) h;
  if (v < 0x100 || (v - 0x100) % 4 != 0) return -1;
  int i = (int) ((v - 0x100) / 4);
  return i < g_nobj ? i : -1;
}
static int i_of_sock(SOCKET s) { return s == INVALID_SOCKET ? -1 : i_of((HANDLE) (intptr_t) s); }

static int new_obj(int kind, int lib)
{
  if (g_nobj >= MAXOBJ) {
    viol("simulator: out of handle slots");
    return -1;
  }
  struct wobj *o = &g_obj[g_nobj];
  memset(o, 0, sizeof(*o));
  o->kind = kind;
  o->open = 1;
  o->lib_owned = lib;
  o->peer = -1;
  o->pending_client = -1;
  return g_nobj++;
}

static int fails(int api)
{
  unsigned n = g_calls[api]++;
  if (api == g_fail_api && (int) n == g_fail_nth) {
    g_last_error = g_fail_error;
    g_wsa_error = (int) g_fail_error;
    return 1;
  }
  return 0;
}

void wsim_fail_api(int api, int nth, uint32_t error)
{
  g_fail_api = api;
  g_fail_nth = nth;
  g_fail_error = error;
}
unsigned wsim_api_calls(int api) { return api >= 0 && api < WA_COUNT ? g_calls[api] : 0; }

static int endpoint_gone(const struct wobj *o) { return !o->open && o->child_refs == 0; }

static void close_obj(int i, const char *by)
{
  struct wobj *o = &g_obj[i];
  o->close_count++;
  if (!o->open) {
    viol("double close: %s closed handle %p (%s) a second time", by, h_of(i), o->kind == WK_SOCK ? "socket" : o->kind == WK_FILE ? "file" : o->kind == WK_USER ? o->path : "process/thread");
    return;
  }
  if (!o->lib_owned) viol("foreign close: %s closed %p (%s), which the library did not create", by, h_of(i), o->path);
  o->open = 0;
}

void wsim_reset(void)
{
  for (int i = 0; i < g_nobj; i++) free(g_obj[i].rx);
  memset(g_obj, 0, sizeof(g_obj));
  g_nobj = 0;
  g_last_error = 0;
  g_wsa_error = 0;
  g_fail_api = g_fail_nth = -1;
  memset(g_calls, 0, sizeof(g_calls));
  g_fail_alloc = -1;
  g_allocs = 0;
  g_nblocks = 0;
  g_nviol = 0;
  g_std[0] = g_std[1] = g_std[2] = NULL;
  g_osf_file = NULL;
  g_osf_handle = NULL;
  free(g_parent_env);
  g_parent_env = NULL;
  g_parent_units = 0;
  g_now = 1000000;
  g_block = NULL;
  g_next = NULL;
  g_fire = NULL;
  g_hung = 0;
  g_hung_what[0] = 0;
  g_error_mode = 0;
  memset(&g_proc, 0, sizeof(g_proc));
  free(g_cmd_copy);
  free(g_env_copy);
  free(g_cwd_copy);
  g_cmd_copy = g_env_copy = g_cwd_copy = NULL;
  g_child_running = g_child_exited = 0;
  g_exit_code = 0;
  g_child_std[0] = g_child_std[1] = g_child_std[2] = -1;
  g_child_nheld = 0;
  g_ctrl_break_mode = 0;
}

void *wsim_user_handle(const char *label)
{
  int i = new_obj(WK_USER, 0);
  if (i < 0) return NULL;
  snprintf(g_obj[i].path, sizeof(g_obj[i].path), "%s", label);
  return h_of(i);
}

void wsim_set_std_handle(int which, void *h) { g_std[which] = h; }
void wsim_set_osfhandle(FILE *f, void *h)
{
  g_osf_file = f;
  g_osf_handle = h;
}

void wsim_set_parent_env(const wchar_t *block, size_t units)
{
  free(g_parent_env);
  g_parent_env = (wchar_t *) malloc(units * sizeof(wchar_t));
  memcpy(g_parent_env, block, units * sizeof(wchar_t));
  g_parent_units = units;
}

int wsim_info(void *h, struct wsim_hinfo *out)
{
  int i = i_of(h);
  if (i < 0) return 0;
  struct wobj *o = &g_obj[i];
  memset(out, 0, sizeof(*out));
  out->kind = o->kind;
  out->open = o->open;
  out->close_count = o->close_count;
  out->inherit = o->inherit;
  out->lib_owned = o->lib_owned;
  out->nonblocking = o->nonblocking;
  out->shut_send = o->shut_send;
  out->shut_recv = o->shut_recv;
  out->connected = o->state == ST_CONNECTED;
  out->child_refs = o->child_refs;
  out->peer = o->peer >= 0 ? h_of(o->peer) : NULL;
  memcpy(out->path, o->path, sizeof(out->path));
  out->access = o->access;
  out->share = o->share;
  out->disposition = o->disposition;
  out->sa_inherit = o->sa_inherit;
  out->queued = o->rx_len;
  return 1;
}
size_t wsim_handle_count(void) { return (size_t) g_nobj; }
void *wsim_handle_at(size_t i) { return h_of((int) i); }
int wsim_nviol(void) { return g_nviol; }
const char *wsim_viol(int i) { return g_viol[i]; }
const struct wsim_proc *wsim_proc(void) { return &g_proc; }
uint64_t wsim_now(void) { return g_now; }
void wsim_set_now(uint64_t ms) { g_now = ms; }
void wsim_on_block(wsim_block_fn fn) { g_block = fn; }
void wsim_on_time(wsim_next_fn next, wsim_fire_fn fire)
{
  g_next = next;
  g_fire = fire;
}
int wsim_hung(void) { return g_hung; }
const char *wsim_hung_what(void) { return g_hung_what; }

static int would_block_forever(const char *what, HANDLE h)
{
  if (g_block != NULL && g_block(what, h)) return 0;
  if (!g_hung) {
    g_hung = 1;
    snprintf(g_hung_what, sizeof(g_hung_what), "%s", what);
  }
  return 1;
}

// ---- errors ----
void SetLastError(DWORD e) { g_last_error = e; }
DWORD GetLastError(void) { return g_last_error; }
int WSAGetLastError(void) { return g_wsa_error; }
void WSASetLastError(int e) { g_wsa_error = e; }
static int wsa_fail(int e)
{
  g_wsa_error = e;
  g_last_error = (DWORD) e;
  return SOCKET_ERROR;
}

int WSAStartup(WORD version, WSADATA *data)
{
  (void) version;
  if (fails(WA_WSAStartup)) return (int) g_fail_error;
  memset(data, 0, sizeof(*data));
  return 0;
}
int WSACleanup(void) { return 0; }
u_long htonl(u_long v) { return ((v & 0xff) << 24) | ((v & 0xff00) << 8) | ((v >> 8) & 0xff00) | ((v >> 24) & 0xff); }

// ---- sockets ----
static struct wobj *sock(SOCKET s, const char *api)
{
  int i = i_of_sock(s);
  if (i < 0 || g_obj[i].kind != WK_SOCK) {
    viol("%s on something that is not a socket (%p)", api, (void *) (intptr_t) s);
    return NULL;
  }
  if (!g_obj[i].open) {
    viol("use after close: %s on closed socket %p", api, (void *) (intptr_t) s);
    return NULL;
  }
  return &g_obj[i];
}

SOCKET WSASocketW(int af, int type, int protocol, void *info, unsigned group, DWORD flags)
{
  (void) af;
  (void) type;
  (void) protocol;
  (void) info;
  (void) group;
  (void) flags;
  if (fails(WA_WSASocketW)) return INVALID_SOCKET;
  int i = new_obj(WK_SOCK, 1);
  if (i < 0) {
    wsa_fail(WSAEMFILE);
    return INVALID_SOCKET;
  }
  g_obj[i].inherit = 1;  // sockets are created inheritable on Windows
  return (SOCKET) (intptr_t) h_of(i);
}

int bind(SOCKET s, const SOCKADDR *name, int len)
{
  (void) name;
  (void) len;
  struct wobj *o = sock(s, "bind");
  if (o == NULL) return wsa_fail(WSAENOTSOCK);
  if (fails(WA_bind)) return SOCKET_ERROR;
  o->state = ST_BOUND;
  o->port = 40000 + i_of_sock(s);
  return 0;
}

int listen(SOCKET s, int backlog)
{
  (void) backlog;
  struct wobj *o = sock(s, "listen");
  if (o == NULL) return wsa_fail(WSAENOTSOCK);
  if (fails(WA_listen)) return SOCKET_ERROR;
  if (o->state != ST_BOUND) return wsa_fail(WSAEINVAL);
  o->state = ST_LISTENING;
  return 0;
}

int getsockname(SOCKET s, SOCKADDR *name, int *len)
{
  struct wobj *o = sock(s, "getsockname");
  if (o == NULL) return wsa_fail(WSAENOTSOCK);
  if (fails(WA_getsockname)) return SOCKET_ERROR;
  if (o->state < ST_BOUND) return wsa_fail(WSAEINVAL);
  SOCKADDR_IN in;
  memset(&in, 0, sizeof(in));
  in.sin_family = AF_INET;
  in.sin_port = (unsigned short) o->port;
  in.sin_addr.S_un.S_addr = htonl(INADDR_LOOPBACK);
  if (*len < (int) sizeof(in)) return wsa_fail(WSAEINVAL);
  memcpy(name, &in, sizeof(in));
  *len = (int) sizeof(in);
  return 0;
}

int getsockopt(SOCKET s, int level, int opt, char *val, int *len)
{
  struct wobj *o = sock(s, "getsockopt");
  if (o == NULL) return wsa_fail(WSAENOTSOCK);
  if (fails(WA_getsockopt)) return SOCKET_ERROR;
  if (level != SOL_SOCKET || opt != SO_PROTOCOL_INFOW || *len < (int) sizeof(WSAPROTOCOL_INFOW)) return wsa_fail(WSAEINVAL);
  WSAPROTOCOL_INFOW *pi = (WSAPROTOCOL_INFOW *) val;
  memset(pi, 0, sizeof(*pi));
  pi->dwServiceFlags1 = XP1_IFS_HANDLES;
  return 0;
}

int connect(SOCKET s, const SOCKADDR *name, int len)
{
  struct wobj *o = sock(s, "connect");
  if (o == NULL) return wsa_fail(WSAENOTSOCK);
  if (fails(WA_connect)) return SOCKET_ERROR;
  if (len < (int) sizeof(SOCKADDR_IN)) return wsa_fail(WSAEINVAL);
  SOCKADDR_IN in;
  memcpy(&in, name, sizeof(in));
  for (int i = 0; i < g_nobj; i++) {
    struct wobj *srv = &g_obj[i];
    if (srv->kind == WK_SOCK && srv->open && srv->state == ST_LISTENING && srv->port == in.sin_port && srv->pending_client < 0) {
      srv->pending_client = i_of_sock(s);
      o->state = ST_CONNECTING;
      if (o->nonblocking) return wsa_fail(WSAEWOULDBLOCK);
      return 0;
    }
  }
  return wsa_fail(WSAECONNREFUSED);
}

SOCKET accept(SOCKET s, SOCKADDR *addr, int *len)
{
  (void) addr;
  (void) len;
  struct wobj *o = sock(s, "accept");
  if (o == NULL) {
    wsa_fail(WSAENOTSOCK);
    return INVALID_SOCKET;
  }
  if (fails(WA_accept)) return INVALID_SOCKET;
  if (o->state != ST_LISTENING) {
    wsa_fail(WSAEINVAL);
    return INVALID_SOCKET;
  }
  if (o->pending_client < 0 || !g_obj[o->pending_client].open) {
    // a blocking accept with no connection on its way never returns
    would_block_forever("accept", (HANDLE) (intptr_t) s);
    wsa_fail(WSAEINTR);
    return INVALID_SOCKET;
  }
  int c = o->pending_client;
  int i = new_obj(WK_SOCK, 1);
  if (i < 0) {
    wsa_fail(WSAEMFILE);
    return INVALID_SOCKET;
  }
  o = &g_obj[i_of_sock(s)];
  o->pending_client = -1;
  g_obj[i].inherit = 1;
  g_obj[i].state = ST_CONNECTED;
  g_obj[i].peer = c;
  g_obj[c].state = ST_CONNECTED;
  g_obj[c].peer = i;
  return (SOCKET) (intptr_t) h_of(i);
}

int shutdown(SOCKET s, int how)
{
  if (s == INVALID_SOCKET) return wsa_fail(WSAENOTSOCK);
  struct wobj *o = sock(s, "shutdown");
  if (o == NULL) return wsa_fail(WSAENOTSOCK);
  if (fails(WA_shutdown)) return SOCKET_ERROR;
  if (o->state != ST_CONNECTED) return wsa_fail(WSAENOTCONN);
  if (how == SD_SEND || how == SD_BOTH) o->shut_send = 1;
  if (how == SD_RECEIVE || how == SD_BOTH) o->shut_recv = 1;
  return 0;
}

int closesocket(SOCKET s)
{
  int i = i_of_sock(s);
  if (i < 0 || g_obj[i].kind != WK_SOCK) {
    viol("closesocket on something that is not a socket (%p)", (void *) (intptr_t) s);
    return wsa_fail(WSAENOTSOCK);
  }
  close_obj(i, "closesocket");
  return 0;
}

int ioctlsocket(SOCKET s, long cmd, u_long *arg)
{
  struct wobj *o = sock(s, "ioctlsocket");
  if (o == NULL) return wsa_fail(WSAENOTSOCK);
  if (fails(WA_ioctlsocket)) return SOCKET_ERROR;
  if (cmd != (long) FIONBIO) return wsa_fail(WSAEINVAL);
  o->nonblocking = *arg != 0;
  return 0;
}

// Moves bytes into the receive queue of endpoint `to`. Returns bytes accepted.
static size_t enqueue(struct wobj *to, const void *data, size_t n)
{
  size_t room = SOCKBUF - to->rx_len;
  if (n > room) n = room;
  if (n == 0) return 0;
  if (to->rx == NULL) to->rx = (unsigned char *) malloc(SOCKBUF);
  memcpy(to->rx + to->rx_len, data, n);
  to->rx_len += n;
  return n;
}

static size_t dequeue(struct wobj *o, void *buf, size_t n)
{
  if (n > o->rx_len) n = o->rx_len;
  memcpy(buf, o->rx, n);
  memmove(o->rx, o->rx + n, o->rx_len - n);
  o->rx_len -= n;
  return n;
}

static int peer_done_sending(const struct wobj *o)
{
  if (o->peer < 0) return 1;
  const struct wobj *p = &g_obj[o->peer];
  return p->shut_send || endpoint_gone(p);
}

int recv(SOCKET s, char *buf, int len, int flags)
{
  (void) flags;
  struct wobj *o = sock(s, "recv");
  if (o == NULL) return wsa_fail(WSAENOTSOCK);
  if (fails(WA_recv)) return SOCKET_ERROR;
  if (o->state != ST_CONNECTED) return wsa_fail(WSAENOTCONN);
  if (o->shut_recv) return wsa_fail(WSAESHUTDOWN);
  for (;;) {
    if (o->rx_len > 0) return (int) dequeue(o, buf, (size_t) len);
    if (peer_done_sending(o)) return 0;
    if (o->nonblocking) return wsa_fail(WSAEWOULDBLOCK);
    if (would_block_forever("recv", (HANDLE) (intptr_t) s)) return wsa_fail(WSAEINTR);
  }
}

int send(SOCKET s, const char *buf, int len, int flags)
{
  (void) flags;
  struct wobj *o = sock(s, "send");
  if (o == NULL) return wsa_fail(WSAENOTSOCK);
  if (fails(WA_send)) return SOCKET_ERROR;
  if (o->state != ST_CONNECTED) return wsa_fail(WSAENOTCONN);
  if (o->shut_send) return wsa_fail(WSAESHUTDOWN);
  for (;;) {
    struct wobj *p = &g_obj[o->peer];
    if (endpoint_gone(p) || p->shut_recv) return wsa_fail(WSAECONNRESET);
    if (len == 0) return 0;
    size_t n = enqueue(p, buf, (size_t) len);
    if (n > 0) return (int) n;
    if (o->nonblocking) return wsa_fail(WSAEWOULDBLOCK);
    if (would_block_forever("send", (HANDLE) (intptr_t) s)) return wsa_fail(WSAEINTR);
  }
}

static short readiness(const struct wobj *o, short events)
{
  short re = 0;
  if (o->state != ST_CONNECTED) return 0;
  if (events & POLLRDNORM) {
    if (o->rx_len > 0) re |= POLLRDNORM;
  }
  if (peer_done_sending(o) && o->rx_len == 0 && !o->shut_recv) re |= POLLHUP;
  if (events & POLLWRNORM) {
    const struct wobj *p = &g_obj[o->peer];
    if (endpoint_gone(p) || p->shut_recv) re |= POLLHUP;
    else if (!o->shut_send && p->rx_len < SOCKBUF) re |= POLLWRNORM;
  }
  return re;
}

// Lets virtual time pass up to `until` (UINT64_MAX: without bound), performing
// scheduled child actions on the way. Returns 1 if an action was performed
// (the caller re-evaluates), 0 if `until` was reached, -1 if nothing can happen.
static int pass_time(uint64_t until, const char *what, HANDLE h)
{
  uint64_t next = g_next ? g_next() : UINT64_MAX;
  if (next != UINT64_MAX && next <= until) {
    if (next > g_now) g_now = next;
    g_fire();
    return 1;
  }
  if (until == UINT64_MAX) return would_block_forever(what, h) ? -1 : 1;
  g_now = until;
  return 0;
}

int WSAPoll(WSAPOLLFD *fds, ULONG n, int timeout)
{
  if (fails(WA_WSAPoll)) return SOCKET_ERROR;
  uint64_t until = timeout < 0 ? UINT64_MAX : g_now + (uint64_t) timeout;
  int any_valid = 0;
  for (;;) {
    int ready = 0;
    for (ULONG i = 0; i < n; i++) {
      fds[i].revents = 0;
      if ((intptr_t) fds[i].fd < 0) {
        // negative descriptors are ignored (revents POLLNVAL, not counted)
        fds[i].revents = POLLNVAL;
        continue;
      }
      any_valid = 1;
      int k = i_of_sock(fds[i].fd);
      if (k < 0 || g_obj[k].kind != WK_SOCK || !g_obj[k].open) {
        viol("WSAPoll on %p, which is not an open socket", (void *) (intptr_t) fds[i].fd);
        return wsa_fail(WSAENOTSOCK);
      }
      fds[i].revents = readiness(&g_obj[k], fds[i].events);
      if (fds[i].revents) ready++;
    }
    if (!any_valid) return wsa_fail(WSAEINVAL);
    if (ready > 0) return ready;
    if (g_now >= until) return 0;
    int r = pass_time(until, "WSAPoll", NULL);
    if (r < 0) return wsa_fail(WSAEINTR);
    if (r == 0) {
      // the timeout has been reached: one last look
      until = g_now;
    }
  }
}

// ---- handles ----
BOOL SetHandleInformation(HANDLE h, DWORD mask, DWORD flags)
{
  int i = i_of(h);
  if (fails(WA_SetHandleInformation)) return 0;
  if (i < 0 || !g_obj[i].open) {
    viol("SetHandleInformation on %p, which is not an open handle", h);
    SetLastError(ERROR_INVALID_HANDLE);
    return 0;
  }
  if (mask & HANDLE_FLAG_INHERIT) g_obj[i].inherit = (flags & HANDLE_FLAG_INHERIT) != 0;
  return 1;
}

BOOL CloseHandle(HANDLE h)
{
  int i = i_of(h);
  if (i < 0) {
    viol("CloseHandle on %p, which is not a handle", h);
    SetLastError(ERROR_INVALID_HANDLE);
    return 0;
  }
  close_obj(i, "CloseHandle");
  return 1;
}

HANDLE GetStdHandle(DWORD id)
{
  int which = id == STD_INPUT_HANDLE ? 0 : id == STD_OUTPUT_HANDLE ? 1 : id == STD_ERROR_HANDLE ? 2 : -1;
  if (fails(WA_GetStdHandle) || which < 0) return INVALID_HANDLE_VALUE;
  if (g_std[which] == INVALID_HANDLE_VALUE) SetLastError(ERROR_INVALID_HANDLE);
  return g_std[which];
}

int _fileno(FILE *f)
{
  if (fails(WA_fileno)) return -1;
  return f == g_osf_file ? 77 : -1;
}

intptr_t _get_osfhandle(int fd)
{
  if (fails(WA_get_osfhandle)) return -1;
  return fd == 77 ? (intptr_t) g_osf_handle : -1;
}

static void to_utf8(const wchar_t *w, char *out, size_t cap)
{
  size_t k = 0;
  for (; *w && k + 4 < cap; w++) {
    unsigned c = (unsigned) *w;
    if (c < 0x80) out[k++] = (char) c;
    else if (c < 0x800) {
      out[k++] = (char) (0xc0 | (c >> 6));
      out[k++] = (char) (0x80 | (c & 0x3f));
    } else {
      out[k++] = (char) (0xe0 | (c >> 12));
      out[k++] = (char) (0x80 | ((c >> 6) & 0x3f));
      out[k++] = (char) (0x80 | (c & 0x3f));
    }
  }
  out[k] = 0;
}

HANDLE CreateFileW(LPCWSTR path, DWORD access, DWORD share, SECURITY_ATTRIBUTES *sa, DWORD disposition, DWORD attrs, HANDLE templ)
{
  (void) attrs;
  (void) templ;
  if (fails(WA_CreateFileW)) return INVALID_HANDLE_VALUE;
  int i = new_obj(WK_FILE, 1);
  if (i < 0) {
    SetLastError(ERROR_NOT_ENOUGH_MEMORY);
    return INVALID_HANDLE_VALUE;
  }
  to_utf8(path, g_obj[i].path, sizeof(g_obj[i].path));
  g_obj[i].access = access;
  g_obj[i].share = share;
  g_obj[i].disposition = disposition;
  g_obj[i].sa_inherit = sa ? sa->bInheritHandle : -1;
  g_obj[i].inherit = sa ? sa->bInheritHandle != 0 : 0;
  return h_of(i);
}

// ---- attribute lists ----
struct wsim_attr_list {
  int initialized, updated;
  HANDLE *value;
  size_t size;
};
static int g_attr_live;

BOOL InitializeProcThreadAttributeList(LPPROC_THREAD_ATTRIBUTE_LIST l, DWORD n, DWORD flags, SIZE_T *size)
{
  (void) n;
  (void) flags;
  if (l == NULL) {
    *size = sizeof(struct wsim_attr_list);
    SetLastError(ERROR_INSUFFICIENT_BUFFER);
    return 0;
  }
  if (fails(WA_InitializeProcThreadAttributeList)) return 0;
  memset(l, 0, sizeof(*l));
  l->initialized = 1;
  g_attr_live++;
  return 1;
}

BOOL UpdateProcThreadAttribute(LPPROC_THREAD_ATTRIBUTE_LIST l, DWORD flags, uintptr_t attr, PVOID value, SIZE_T size, PVOID prev, SIZE_T *ret)
{
  (void) flags;
  (void) prev;
  (void) ret;
  if (fails(WA_UpdateProcThreadAttribute)) return 0;
  if (l == NULL || !l->initialized || attr != PROC_THREAD_ATTRIBUTE_HANDLE_LIST) {
    SetLastError(ERROR_INVALID_PARAMETER);
    return 0;
  }
  // as on Windows, the list keeps the caller's pointer: it has to stay valid
  l->updated = 1;
  l->value = (HANDLE *) value;
  l->size = size;
  return 1;
}

void DeleteProcThreadAttributeList(LPPROC_THREAD_ATTRIBUTE_LIST l)
{
  if (l != NULL && l->initialized) {
    l->initialized = 0;
    g_attr_live--;
  }
}

// ---- environment ----
wchar_t *GetEnvironmentStringsW(void)
{
  if (g_parent_env == NULL) return (wchar_t *) calloc(2, sizeof(wchar_t));
  wchar_t *b = (wchar_t *) malloc(g_parent_units * sizeof(wchar_t));
  memcpy(b, g_parent_env, g_parent_units * sizeof(wchar_t));
  return b;
}

BOOL FreeEnvironmentStringsW(wchar_t *block)
{
  free(block);
  return 1;
}

// ---- processes ----
static wchar_t *wdup(const wchar_t *s, size_t units)
{
  wchar_t *c = (wchar_t *) malloc(units * sizeof(wchar_t));
  memcpy(c, s, units * sizeof(wchar_t));
  return c;
}

static void child_take(int idx)
{
  for (int k = 0; k < g_child_nheld; k++)
    if (g_child_held[k] == idx) return;
  if (g_child_nheld < WSIM_MAX_LIST) {
    g_child_held[g_child_nheld++] = idx;
    g_obj[idx].child_refs++;
  }
}

BOOL CreateProcessW(LPCWSTR app, LPWSTR cmdline, SECURITY_ATTRIBUTES *pa, SECURITY_ATTRIBUTES *ta, BOOL inherit, DWORD flags, LPVOID env, LPCWSTR cwd, LPSTARTUPINFOW si, PROCESS_INFORMATION *pi)
{
  (void) app;
  if (fails(WA_CreateProcessW)) return 0;
  if (g_proc.created) {
    viol("simulator: a second process was created in one case");
    SetLastError(ERROR_NOT_SUPPORTED);
    return 0;
  }
  g_proc.created++;
  g_proc.flags = flags;
  g_proc.inherit = inherit;
  g_proc.pa_inherit = pa ? pa->bInheritHandle : -1;
  g_proc.ta_inherit = ta ? ta->bInheritHandle : -1;
  g_proc.error_mode_during = g_error_mode;
  g_cmd_copy = wdup(cmdline, wcslen(cmdline) + 1);
  g_proc.cmdline = g_cmd_copy;
  if (env != NULL) {
    const wchar_t *e = (const wchar_t *) env;
    size_t u = 0;
    while (e[u] != L'\0') u += wcslen(e + u) + 1;
    u += 1;
    g_env_copy = wdup(e, u);
    g_proc.env = g_env_copy;
    g_proc.env_units = u;
  }
  if (cwd != NULL) {
    g_cwd_copy = wdup(cwd, wcslen(cwd) + 1);
    g_proc.cwd = g_cwd_copy;
  }
  g_proc.si_cb = si->cb;
  g_proc.si_flags = si->dwFlags;
  g_proc.si_show = si->wShowWindow;
  g_proc.std_in = si->hStdInput;
  g_proc.std_out = si->hStdOutput;
  g_proc.std_err = si->hStdError;
  g_proc.nlist = 0;
  if (si->cb == sizeof(STARTUPINFOEXW) && (flags & EXTENDED_STARTUPINFO_PRESENT)) {
    LPPROC_THREAD_ATTRIBUTE_LIST l = ((STARTUPINFOEXW *) si)->lpAttributeList;
    if (l != NULL && l->initialized && l->updated) {
      g_proc.extended = 1;
      size_t n = l->size / sizeof(HANDLE);
      for (size_t k = 0; k < n && k < WSIM_MAX_LIST; k++) {
        HANDLE h = l->value[k];  // read through the caller's pointer, as the real call does
        int idx = i_of(h);
        g_proc.list[g_proc.nlist] = h;
        g_proc.list_open[g_proc.nlist] = idx >= 0 && g_obj[idx].open;
        g_proc.list_inheritable[g_proc.nlist] = idx >= 0 && g_obj[idx].inherit;
        g_proc.nlist++;
        for (size_t m = 0; m < k; m++)
          if (l->value[m] == h) {
            // Windows rejects a handle list with duplicates
            SetLastError(ERROR_INVALID_PARAMETER);
            g_proc.created--;
            return 0;
          }
      }
    }
  }
  // What the child gets: with a handle list, the listed handles that are
  // inheritable; without one (and bInheritHandles), every inheritable handle.
  if (inherit) {
    if (g_proc.extended) {
      for (int k = 0; k < g_proc.nlist; k++) {
        int idx = i_of(g_proc.list[k]);
        if (idx < 0 || !g_obj[idx].open || !g_obj[idx].inherit) {
          // a listed handle that is not inheritable makes the real call fail
          SetLastError(ERROR_INVALID_PARAMETER);
          g_proc.created--;
          g_child_nheld = 0;
          return 0;
        }
        child_take(idx);
      }
    } else {
      for (int idx = 0; idx < g_nobj; idx++)
        if (g_obj[idx].open && g_obj[idx].inherit && g_obj[idx].kind != WK_PROCESS && g_obj[idx].kind != WK_THREAD) child_take(idx);
    }
  }
  // the std handles are usable in the child only if it really holds them
  HANDLE stds[3] = { si->hStdInput, si->hStdOutput, si->hStdError };
  for (int k = 0; k < 3; k++) {
    g_child_std[k] = -1;
    int idx = i_of(stds[k]);
    if (!(si->dwFlags & STARTF_USESTDHANDLES) || idx < 0) continue;
    for (int m = 0; m < g_child_nheld; m++)
      if (g_child_held[m] == idx) g_child_std[k] = idx;
  }
  int p = new_obj(WK_PROCESS, 1);
  int t = new_obj(WK_THREAD, 1);
  pi->hProcess = h_of(p);
  pi->hThread = h_of(t);
  pi->dwProcessId = 4242;
  pi->dwThreadId = 1;
  g_proc.process = pi->hProcess;
  g_proc.thread = pi->hThread;
  g_proc.pid = 4242;
  g_child_running = 1;
  return 1;
}

UINT SetErrorMode(UINT mode)
{
  UINT old = g_error_mode;
  g_error_mode = mode;
  g_proc.error_mode_after = mode;
  return old;
}

DWORD GetProcessId(HANDLE h)
{
  int i = i_of(h);
  if (i < 0 || g_obj[i].kind != WK_PROCESS) {
    viol("GetProcessId on %p, which is not a process handle", h);
    return 0;
  }
  return 4242;
}

static void child_drop_all(void)
{
  for (int k = 0; k < g_child_nheld; k++) g_obj[g_child_held[k]].child_refs--;
  g_child_nheld = 0;
  g_child_std[0] = g_child_std[1] = g_child_std[2] = -1;
}

void wsim_child_exit(uint32_t code)
{
  if (!g_child_running) return;
  g_child_running = 0;
  g_child_exited = 1;
  g_exit_code = code;
  child_drop_all();
}
int wsim_child_running(void) { return g_child_running; }
void wsim_child_ctrl_break_mode(int mode) { g_ctrl_break_mode = mode; }

static int is_own_process(HANDLE h, const char *api)
{
  int i = i_of(h);
  if (i < 0 || g_obj[i].kind != WK_PROCESS) {
    viol("%s on %p, which is not a process handle", api, h);
    return 0;
  }
  if (!g_obj[i].open) {
    viol("use after close: %s on closed process handle %p", api, h);
    return 0;
  }
  return 1;
}

DWORD WaitForSingleObject(HANDLE h, DWORD ms)
{
  if (fails(WA_WaitForSingleObject)) return WAIT_FAILED;
  if (!is_own_process(h, "WaitForSingleObject")) {
    SetLastError(ERROR_INVALID_HANDLE);
    return WAIT_FAILED;
  }
  uint64_t until = ms == INFINITE ? UINT64_MAX : g_now + ms;
  for (;;) {
    if (g_child_exited) return WAIT_OBJECT_0;
    if (g_now >= until) return WAIT_TIMEOUT;
    int r = pass_time(until, "WaitForSingleObject", h);
    if (r < 0) {
      SetLastError(ERROR_INVALID_HANDLE);
      return WAIT_FAILED;
    }
  }
}

BOOL GetExitCodeProcess(HANDLE h, DWORD *status)
{
  if (fails(WA_GetExitCodeProcess)) return 0;
  if (!is_own_process(h, "GetExitCodeProcess")) {
    SetLastError(ERROR_INVALID_HANDLE);
    return 0;
  }
  *status = g_child_exited ? g_exit_code : 259 /* STILL_ACTIVE */;
  return 1;
}

BOOL GenerateConsoleCtrlEvent(DWORD ev, DWORD group)
{
  if (fails(WA_GenerateConsoleCtrlEvent)) return 0;
  g_proc.ctrl_breaks++;
  g_proc.last_ctrl_event = ev;
  g_proc.last_ctrl_group = group;
  if (group != 4242 || !(g_proc.flags & CREATE_NEW_PROCESS_GROUP)) viol("GenerateConsoleCtrlEvent(%u, %u): group %u is not the process group of the child (pid 4242%s)", ev, group, group, (g_proc.flags & CREATE_NEW_PROCESS_GROUP) ? "" : ", which was not given its own group");
  else if (ev == CTRL_BREAK_EVENT && g_child_running && g_ctrl_break_mode == 0) wsim_child_exit(3221225786u);
  return 1;
}

BOOL TerminateProcess(HANDLE h, UINT code)
{
  if (fails(WA_TerminateProcess)) return 0;
  g_proc.terminates++;
  g_proc.last_terminate_handle = h;
  g_proc.last_terminate_code = code;
  if (!is_own_process(h, "TerminateProcess")) {
    SetLastError(ERROR_INVALID_HANDLE);
    return 0;
  }
  if (g_child_running) wsim_child_exit(code);
  else {
    // terminating a process that has already exited fails with access denied
    SetLastError(ERROR_ACCESS_DENIED);
    return 0;
  }
  return 1;
}

// ---- the child's side of its streams ----
long wsim_child_write(int stream, const void *data, size_t n)
{
  if (!g_child_running || stream < 1 || stream > 2 || g_child_std[stream] < 0) return -1;
  struct wobj *o = &g_obj[g_child_std[stream]];
  if (o->kind != WK_SOCK || o->state != ST_CONNECTED || o->shut_send) return -1;
  struct wobj *p = &g_obj[o->peer];
  if (endpoint_gone(p) || p->shut_recv) return -1;
  return (long) enqueue(p, data, n);
}

long wsim_child_read(void *buf, size_t n)
{
  if (!g_child_running || g_child_std[0] < 0) return 0;
  struct wobj *o = &g_obj[g_child_std[0]];
  if (o->kind != WK_SOCK || o->state != ST_CONNECTED) return 0;
  if (o->rx_len > 0) return (long) dequeue(o, buf, n);
  return peer_done_sending(o) ? 0 : -1;
}

void wsim_child_close_extras(void)
{
  if (!g_child_running) return;
  for (int k = 0; k < g_child_nheld;) {
    int idx = g_child_held[k];
    if (idx == g_child_std[0] || idx == g_child_std[1] || idx == g_child_std[2]) {
      k++;
      continue;
    }
    g_obj[idx].child_refs--;
    g_child_held[k] = g_child_held[--g_child_nheld];
  }
}

void wsim_child_close(int stream)
{
  if (!g_child_running || stream < 0 || stream > 2 || g_child_std[stream] < 0) return;
  int idx = g_child_std[stream];
  g_child_std[stream] = -1;
  // the same object may serve several of the child's streams (stderr -> stdout)
  for (int k = 0; k < 3; k++)
    if (g_child_std[k] == idx) return;
  for (int k = 0; k < g_child_nheld; k++)
    if (g_child_held[k] == idx) {
      g_child_held[k] = g_child_held[--g_child_nheld];
      g_obj[idx].child_refs--;
      return;
    }
}

// ---- text ----
ULONGLONG GetTickCount64(void) { return g_now; }

DWORD FormatMessageW(DWORD flags, const void *src, DWORD id, DWORD lang, LPWSTR buf, DWORD size, void *args)
{
  (void) flags;
  (void) src;
  (void) lang;
  (void) args;
  wchar_t tmp[64];
  swprintf(tmp, 64, L"Error %u.\r\n", (unsigned) id);
  size_t n = wcslen(tmp);
  if (n + 1 > size) return 0;
  wcscpy(buf, tmp);
  return (DWORD) n;
}

int WideCharToMultiByte(UINT cp, DWORD flags, LPCWSTR src, int srclen, LPSTR dst, int dstlen, const char *def, BOOL *used)
{
  (void) cp;
  (void) flags;
  (void) def;
  (void) used;
  size_t n = srclen < 0 ? wcslen(src) + 1 : (size_t) srclen;
  if ((int) n > dstlen) return 0;
  for (size_t i = 0; i < n; i++) dst[i] = (char) (src[i] < 0x80 ? src[i] : '?');
  return (int) n;
}

// Strict UTF-8 decoder producing UTF-16 code units, with the real API's size
// conventions (see the first stub's winstub.c, from which this is taken).
int MultiByteToWideChar(UINT cp, DWORD flags, LPCCH src, int srclen, LPWSTR dst, int dstlen)
{
  (void) cp;
  (void) flags;
  if (fails(WA_MultiByteToWideChar)) return 0;
  size_t n = srclen < 0 ? strlen(src) + 1 : (size_t) srclen;
  const unsigned char *s = (const unsigned char *) src;
  size_t i = 0, out = 0;
  while (i < n) {
    unsigned c = s[i];
    unsigned cpv;
    size_t need;
    if (c < 0x80) {
      cpv = c;
      need = 0;
    } else if (c >= 0xc2 && c <= 0xdf) {
      cpv = c & 0x1f;
      need = 1;
    } else if (c >= 0xe0 && c <= 0xef) {
      cpv = c & 0x0f;
      need = 2;
    } else if (c >= 0xf0 && c <= 0xf4) {
      cpv = c & 0x07;
      need = 3;
    } else {
      SetLastError(ERROR_NO_UNICODE_TRANSLATION);
      return 0;
    }
    if (i + need >= n + (need == 0 ? 1 : 0) && need > 0 && i + need > n - 1 + 1) {
      SetLastError(ERROR_NO_UNICODE_TRANSLATION);
      return 0;
    }
    for (size_t k = 1; k <= need; k++) {
      if (i + k >= n || (s[i + k] & 0xc0) != 0x80) {
        SetLastError(ERROR_NO_UNICODE_TRANSLATION);
        return 0;
      }
      cpv = (cpv << 6) | (s[i + k] & 0x3f);
    }
    if ((need == 2 && (cpv < 0x800 || (cpv >= 0xd800 && cpv <= 0xdfff))) || (need == 3 && (cpv < 0x10000 || cpv > 0x10ffff))) {
      SetLastError(ERROR_NO_UNICODE_TRANSLATION);
      return 0;
    }
    i += need + 1;
    size_t units = cpv >= 0x10000 ? 2 : 1;
    if (dstlen != 0) {
      if (out + units > (size_t) dstlen) {
        SetLastError(ERROR_INSUFFICIENT_BUFFER);
        return 0;
      }
      if (units == 1) dst[out] = (wchar_t) cpv;
      else {
        cpv -= 0x10000;
        dst[out] = (wchar_t) (0xd800 + (cpv >> 10));
        dst[out + 1] = (wchar_t) (0xdc00 + (cpv & 0x3ff));
      }
    }
    out += units;
  }
  return (int) out;
}
