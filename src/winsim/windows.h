// Stub <windows.h> of the Win32 *simulator* (engine W2): enough surface to
// compile the whole library in its _WIN32 configuration - reproc.c, redirect.c,
// options.c, strv.c, drain.c, run.c and every *.windows.c - unmodified on Linux.
// The implementations (winsim.c) form a small in-memory kernel: handles with
// ownership and inheritance flags, stream sockets with byte queues, processes
// whose "program" is played by the test harness, a virtual tick counter.
#pragma once

#include <limits.h>
#include <stdbool.h>
#include <stddef.h>
#include <stdint.h>
#include <stdio.h>
#include <string.h>
#include <wchar.h>

typedef void *HANDLE;
typedef uint32_t DWORD;
typedef int BOOL;
typedef size_t SIZE_T;
typedef uint16_t WORD;
typedef unsigned int UINT;
typedef unsigned long ULONG;
typedef unsigned long u_long;
typedef void *LPVOID;
typedef void *PVOID;
typedef wchar_t *LPWSTR;
typedef const wchar_t *LPCWSTR;
typedef const char *LPCCH;
typedef char *LPSTR;
typedef uint64_t ULONGLONG;
typedef struct wsim_attr_list *LPPROC_THREAD_ATTRIBUTE_LIST;

#define INVALID_HANDLE_VALUE ((HANDLE) (intptr_t) -1)

typedef struct {
  HANDLE hProcess;
  HANDLE hThread;
  DWORD dwProcessId;
  DWORD dwThreadId;
} PROCESS_INFORMATION;

typedef struct {
  DWORD cb;
  DWORD dwFlags;
  WORD wShowWindow;
  HANDLE hStdInput;
  HANDLE hStdOutput;
  HANDLE hStdError;
} STARTUPINFOW, *LPSTARTUPINFOW;

typedef struct {
  STARTUPINFOW StartupInfo;
  LPPROC_THREAD_ATTRIBUTE_LIST lpAttributeList;
} STARTUPINFOEXW;

typedef struct {
  DWORD nLength;
  LPVOID lpSecurityDescriptor;
  BOOL bInheritHandle;
} SECURITY_ATTRIBUTES;

#define CREATE_NEW_PROCESS_GROUP 0x00000200
#define CREATE_UNICODE_ENVIRONMENT 0x00000400
#define EXTENDED_STARTUPINFO_PRESENT 0x00080000
#define ERROR_FILE_NOT_FOUND 2
#define ERROR_ACCESS_DENIED 5
#define ERROR_INVALID_HANDLE 6
#define ERROR_NOT_ENOUGH_MEMORY 8
#define ERROR_NOT_SUPPORTED 50
#define ERROR_INVALID_PARAMETER 87
#define ERROR_BROKEN_PIPE 109
#define ERROR_CALL_NOT_IMPLEMENTED 120
#define ERROR_INSUFFICIENT_BUFFER 122
#define ERROR_NO_UNICODE_TRANSLATION 1113
#define WAIT_TIMEOUT 258
#define WAIT_OBJECT_0 0
#define HANDLE_FLAG_INHERIT 1
#define PROC_THREAD_ATTRIBUTE_HANDLE_LIST 0x00020002
#define STARTF_USESTDHANDLES 0x100
#define STARTF_USESHOWWINDOW 0x1
#define SW_HIDE 0
#define SEM_NOGPFAULTERRORBOX 2
#define INFINITE 0xFFFFFFFFu
#define WAIT_FAILED 0xFFFFFFFFu
#define CTRL_BREAK_EVENT 1
#define CP_UTF8 65001
#define MB_ERR_INVALID_CHARS 8
#define STD_INPUT_HANDLE ((DWORD) -10)
#define STD_OUTPUT_HANDLE ((DWORD) -11)
#define STD_ERROR_HANDLE ((DWORD) -12)
#define GENERIC_READ 0x80000000u
#define GENERIC_WRITE 0x40000000u
#define FILE_SHARE_READ 1
#define FILE_SHARE_WRITE 2
#define OPEN_ALWAYS 4
#define OPEN_EXISTING 3
#define CREATE_ALWAYS 2
#define FILE_ATTRIBUTE_NORMAL 0x80
#define FORMAT_MESSAGE_FROM_SYSTEM 0x1000
#define FORMAT_MESSAGE_IGNORE_INSERTS 0x200
#define LANG_NEUTRAL 0
#define SUBLANG_DEFAULT 1
#define MAKELANGID(p, s) ((((WORD) (s)) << 10) | (WORD) (p))
#define MAKEWORD(a, b) ((WORD) (((a) &0xff) | (((b) &0xff) << 8)))

void SetLastError(DWORD e);
DWORD GetLastError(void);
BOOL SetHandleInformation(HANDLE h, DWORD mask, DWORD flags);
BOOL InitializeProcThreadAttributeList(LPPROC_THREAD_ATTRIBUTE_LIST l, DWORD n, DWORD flags, SIZE_T *size);
BOOL UpdateProcThreadAttribute(LPPROC_THREAD_ATTRIBUTE_LIST l, DWORD flags, uintptr_t attr, PVOID value, SIZE_T size, PVOID prev, SIZE_T *ret);
void DeleteProcThreadAttributeList(LPPROC_THREAD_ATTRIBUTE_LIST l);
wchar_t *GetEnvironmentStringsW(void);
BOOL FreeEnvironmentStringsW(wchar_t *block);
BOOL CreateProcessW(LPCWSTR app, LPWSTR cmdline, SECURITY_ATTRIBUTES *pa, SECURITY_ATTRIBUTES *ta, BOOL inherit, DWORD flags, LPVOID env, LPCWSTR cwd, LPSTARTUPINFOW si, PROCESS_INFORMATION *pi);
UINT SetErrorMode(UINT mode);
DWORD GetProcessId(HANDLE h);
DWORD WaitForSingleObject(HANDLE h, DWORD ms);
BOOL GetExitCodeProcess(HANDLE h, DWORD *status);
BOOL GenerateConsoleCtrlEvent(DWORD ev, DWORD group);
BOOL TerminateProcess(HANDLE h, UINT code);
BOOL CloseHandle(HANDLE h);
int MultiByteToWideChar(UINT cp, DWORD flags, LPCCH src, int srclen, LPWSTR dst, int dstlen);
int WideCharToMultiByte(UINT cp, DWORD flags, LPCWSTR src, int srclen, LPSTR dst, int dstlen, const char *def, BOOL *used);
HANDLE GetStdHandle(DWORD id);
HANDLE CreateFileW(LPCWSTR path, DWORD access, DWORD share, SECURITY_ATTRIBUTES *sa, DWORD disposition, DWORD attrs, HANDLE templ);
ULONGLONG GetTickCount64(void);
DWORD FormatMessageW(DWORD flags, const void *src, DWORD id, DWORD lang, LPWSTR buf, DWORD size, void *args);

// Allocation recording for the library's translation units (see winsim.c).
void *wsim_calloc(size_t a, size_t b);
void *wsim_malloc(size_t n);
void *wsim_realloc(void *p, size_t n);
void wsim_free(void *p);
#ifndef WSIM_NO_ALLOC_REDIRECT
#include <stdlib.h>
#define calloc wsim_calloc
#define malloc wsim_malloc
#define realloc wsim_realloc
#define free wsim_free
#endif

#include "../wincommon/wincodes.h"
