// Harness-facing API of the Win32 simulator (engine W2; plain C, no windows.h
// needed). See windows.h in this directory for what the simulator is.
#pragma once
#include <stddef.h>
#include <stdint.h>
#include <stdio.h>
#include <wchar.h>
#ifdef __cplusplus
extern "C" {
#endif

enum {
  WA_WSAStartup, WA_WSASocketW, WA_bind, WA_listen, WA_getsockname, WA_getsockopt, WA_connect, WA_accept, WA_shutdown, WA_ioctlsocket,
  WA_SetHandleInformation, WA_InitializeProcThreadAttributeList, WA_UpdateProcThreadAttribute, WA_CreateProcessW, WA_MultiByteToWideChar,
  WA_CreateFileW, WA_GetStdHandle, WA_fileno, WA_get_osfhandle, WA_WaitForSingleObject, WA_GetExitCodeProcess, WA_WSAPoll, WA_recv, WA_send,
  WA_TerminateProcess, WA_GenerateConsoleCtrlEvent, WA_COUNT
};
extern const char *const wsim_api_name[WA_COUNT];

enum { WK_FREE, WK_SOCK, WK_FILE, WK_USER, WK_PROCESS, WK_THREAD };

void wsim_reset(void);
// Fail the nth (0-based) call of one API with the given error code; -1 = none.
void wsim_fail_api(int api, int nth, uint32_t error);
// Fail the nth (0-based) allocation of the library; -1 = never.
void wsim_fail_alloc(int nth);
unsigned wsim_api_calls(int api);
unsigned wsim_allocs(void);
size_t wsim_live_allocs(void);

// A handle owned by the caller (a std handle, a user-supplied redirect handle,
// the handle behind a FILE): the library must never close it.
void *wsim_user_handle(const char *label);
// which: 0 stdin, 1 stdout, 2 stderr. h may be NULL (no such handle) or
// (void *) -1 (GetStdHandle fails).
void wsim_set_std_handle(int which, void *h);
// _fileno(f) then yields a descriptor for which _get_osfhandle returns h.
void wsim_set_osfhandle(FILE *f, void *h);
void wsim_set_parent_env(const wchar_t *block, size_t units);

struct wsim_hinfo {
  int kind, open, close_count, inherit, lib_owned, nonblocking, shut_send, shut_recv, connected, child_refs;
  void *peer;           // the other endpoint of a connected socket
  char path[300];       // FILE: path as UTF-8; USER: label
  uint32_t access, share, disposition;
  int sa_inherit;       // FILE: bInheritHandle of the security attributes given
  size_t queued;        // SOCK: bytes waiting to be received on this endpoint
};
int wsim_info(void *h, struct wsim_hinfo *out);  // 0 if h is not a handle of the simulator
size_t wsim_handle_count(void);
void *wsim_handle_at(size_t i);

int wsim_nviol(void);
const char *wsim_viol(int i);

enum { WSIM_MAX_LIST = 8 };
struct wsim_proc {
  int created;            // number of successful CreateProcessW calls
  void *process, *thread;
  uint32_t pid;
  const wchar_t *cmdline, *env, *cwd;  // copies (env: the whole block), NULL if not given
  size_t env_units;
  uint32_t flags;
  int inherit;            // bInheritHandles
  uint32_t si_cb, si_flags, si_show;
  int extended;           // cb == sizeof(STARTUPINFOEXW) and an attribute list was given
  void *std_in, *std_out, *std_err;
  int nlist;              // handles in the PROC_THREAD_ATTRIBUTE_HANDLE_LIST
  void *list[WSIM_MAX_LIST];
  int list_inheritable[WSIM_MAX_LIST], list_open[WSIM_MAX_LIST];
  int pa_inherit, ta_inherit;  // bInheritHandle of the process / thread security attributes (-1: NULL given)
  unsigned error_mode_during, error_mode_after;
  int ctrl_breaks, terminates;
  uint32_t last_ctrl_event, last_ctrl_group, last_terminate_code;
  void *last_terminate_handle;
};
const struct wsim_proc *wsim_proc(void);

// ---- the simulated child (played by the harness) ----
// How the child reacts to CTRL-BREAK: 0 dies (exit code 0xC000013A), 1 ignores.
void wsim_child_ctrl_break_mode(int mode);
// stream: 1 stdout, 2 stderr. Returns the bytes accepted (the socket buffer is finite), -1 if the stream is not writable.
long wsim_child_write(int stream, const void *data, size_t n);
// Reads what the parent sent to stdin: >0 bytes, 0 end-of-file, -1 nothing available yet.
long wsim_child_read(void *buf, size_t n);
void wsim_child_close(int stream);  // 0, 1 or 2
// A program that tidies up after its parent: every inherited handle that is not one of its three streams goes.
void wsim_child_close_extras(void);
void wsim_child_exit(uint32_t code);
int wsim_child_running(void);

// ---- time and blocking ----
uint64_t wsim_now(void);
void wsim_set_now(uint64_t ms);
// Called when a library call would block (recv/send on a blocking socket,
// WSAPoll or WaitForSingleObject without bound); returns non-zero if it changed
// the world (the call re-evaluates), 0 if nothing will ever happen (the call
// is recorded as hung and fails).
typedef int (*wsim_block_fn)(const char *what, void *handle);
void wsim_on_block(wsim_block_fn fn);
int wsim_hung(void);
const char *wsim_hung_what(void);
// Virtual time passes in WSAPoll / WaitForSingleObject with a finite timeout;
// before it does, the harness may act first (things scheduled for the child).
// Returns the time of the next scheduled action (UINT64_MAX: none) - the wait
// advances to min(that, its own end) and calls `fire` when it reaches it.
typedef uint64_t (*wsim_next_fn)(void);
typedef void (*wsim_fire_fn)(void);
void wsim_on_time(wsim_next_fn next, wsim_fire_fn fire);

#ifdef __cplusplus
}
#endif
