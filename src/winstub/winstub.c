// Win32 stub implementations + harness shim. Compiled with -D_WIN32 so that
// the real process.h gives the Windows prototypes.
#define WS_NO_ALLOC_REDIRECT
#include "windows.h"
#include "winstub.h"

#include <stdlib.h>

#include "process.h"

static DWORD g_last_error;
static wchar_t *g_parent_env;
static size_t g_parent_units;
static int g_fail_alloc = -1;
static int g_alloc_count;
static uint32_t g_exit_code;
static int g_freed_env;
static int g_fail_api = -1, g_fail_nth = -1;
static uint32_t g_fail_error;
static int g_api_calls[8];
static int g_attr_live, g_handles_closed;

static int api_fails(int api)
{
  int n = g_api_calls[api]++;
  if (api == g_fail_api && n == g_fail_nth) {
    g_last_error = g_fail_error;
    return 1;
  }
  return 0;
}

enum { MAXLIVE = 128, MAXFREED = 128 };
static struct {
  void *p;
  size_t n;
} g_live[MAXLIVE];
static struct {
  size_t n;
  unsigned char *copy;
} g_freed[MAXFREED];
static size_t g_nfreed;

static struct ws_capture g_cap;
static wchar_t *g_cmd_copy, *g_env_copy, *g_cwd_copy;

void SetLastError(DWORD e) { g_last_error = e; }
DWORD GetLastError(void) { return g_last_error; }

static size_t alloc_size(const void *p)
{
  for (int i = 0; i < MAXLIVE; i++) {
    if (g_live[i].p == p) {
      return g_live[i].n;
    }
  }
  return 0;
}

static void *track(void *p, size_t n)
{
  if (p == NULL) {
    return NULL;
  }
  for (int i = 0; i < MAXLIVE; i++) {
    if (g_live[i].p == NULL) {
      g_live[i].p = p;
      g_live[i].n = n;
      return p;
    }
  }
  return p;
}

void *ws_calloc(size_t a, size_t b)
{
  if (g_alloc_count++ == g_fail_alloc) {
    return NULL;
  }
  return track(calloc(a, b), a * b);
}

void *ws_malloc(size_t n)
{
  if (g_alloc_count++ == g_fail_alloc) {
    return NULL;
  }
  return track(malloc(n), n);
}

void ws_free(void *p)
{
  if (p == NULL) {
    return;
  }
  for (int i = 0; i < MAXLIVE; i++) {
    if (g_live[i].p == p) {
      if (g_nfreed < MAXFREED) {
        g_freed[g_nfreed].n = g_live[i].n;
        g_freed[g_nfreed].copy = (unsigned char *) malloc(g_live[i].n ? g_live[i].n : 1);
        memcpy(g_freed[g_nfreed].copy, p, g_live[i].n);
        g_nfreed++;
      }
      g_live[i].p = NULL;
      break;
    }
  }
  free(p);
}

void ws_reset(void)
{
  free(g_parent_env);
  g_parent_env = NULL;
  g_parent_units = 0;
  g_fail_alloc = -1;
  g_alloc_count = 0;
  g_last_error = 0;
  g_freed_env = 0;
  g_fail_api = g_fail_nth = -1;
  memset(g_api_calls, 0, sizeof(g_api_calls));
  g_attr_live = g_handles_closed = 0;
  for (size_t i = 0; i < g_nfreed; i++) {
    free(g_freed[i].copy);
  }
  g_nfreed = 0;
  memset(g_live, 0, sizeof(g_live));
  free(g_cmd_copy);
  free(g_env_copy);
  free(g_cwd_copy);
  g_cmd_copy = g_env_copy = g_cwd_copy = NULL;
  memset(&g_cap, 0, sizeof(g_cap));
}

void ws_set_parent_env(const wchar_t *block, size_t units)
{
  free(g_parent_env);
  g_parent_env = (wchar_t *) malloc(units * sizeof(wchar_t));
  memcpy(g_parent_env, block, units * sizeof(wchar_t));
  g_parent_units = units;
}

void ws_fail_alloc(int n) { g_fail_alloc = n; }
void ws_fail_api(int api, int nth, uint32_t error)
{
  g_fail_api = api;
  g_fail_nth = nth;
  g_fail_error = error;
}
void ws_set_exit_code(uint32_t code) { g_exit_code = code; }

struct ws_capture ws_get(void)
{
  g_cap.cmdline = g_cmd_copy;
  g_cap.env = g_env_copy;
  g_cap.cwd = g_cwd_copy;
  g_cap.freed_env_strings = g_freed_env;
  g_cap.nfreed = g_nfreed;
  size_t live = 0;
  for (int i = 0; i < MAXLIVE; i++) {
    live += g_live[i].p != NULL;
  }
  g_cap.live_allocs = live;
  g_cap.attr_lists_live = g_attr_live;
  g_cap.handles_closed = g_handles_closed;
  return g_cap;
}

size_t ws_freed_size(size_t i) { return g_freed[i].n; }
const unsigned char *ws_freed_content(size_t i) { return g_freed[i].copy; }

BOOL SetHandleInformation(HANDLE h, DWORD mask, DWORD flags)
{
  (void) h;
  (void) mask;
  (void) flags;
  return api_fails(0) ? 0 : 1;
}

struct ws_attr_list {
  int initialized;
};

BOOL InitializeProcThreadAttributeList(LPPROC_THREAD_ATTRIBUTE_LIST l, DWORD n, DWORD flags, SIZE_T *size)
{
  (void) n;
  (void) flags;
  if (l == NULL) {
    *size = sizeof(struct ws_attr_list);
    SetLastError(ERROR_INSUFFICIENT_BUFFER);
    return 0;
  }
  if (api_fails(1)) {
    return 0;
  }
  l->initialized = 1;
  g_attr_live++;
  return 1;
}

BOOL UpdateProcThreadAttribute(LPPROC_THREAD_ATTRIBUTE_LIST l, DWORD flags, uintptr_t attr, PVOID value, SIZE_T size, PVOID prev, SIZE_T *ret)
{
  (void) l;
  (void) flags;
  (void) attr;
  (void) value;
  (void) size;
  (void) prev;
  (void) ret;
  return api_fails(2) ? 0 : 1;
}

void DeleteProcThreadAttributeList(LPPROC_THREAD_ATTRIBUTE_LIST l)
{
  if (l != NULL && l->initialized) {
    l->initialized = 0;
    g_attr_live--;
  }
}

wchar_t *GetEnvironmentStringsW(void)
{
  // A private copy per call, as on Windows; released by FreeEnvironmentStringsW.
  if (g_parent_env == NULL) {
    wchar_t *b = (wchar_t *) calloc(2, sizeof(wchar_t));
    return b;
  }
  wchar_t *b = (wchar_t *) malloc(g_parent_units * sizeof(wchar_t));
  memcpy(b, g_parent_env, g_parent_units * sizeof(wchar_t));
  return b;
}

BOOL FreeEnvironmentStringsW(wchar_t *block)
{
  if (block != NULL) {
    g_freed_env++;
    free(block);
  }
  return 1;
}

BOOL CreateProcessW(LPCWSTR app, LPWSTR cmdline, SECURITY_ATTRIBUTES *pa, SECURITY_ATTRIBUTES *ta, BOOL inherit, DWORD flags, LPVOID env, LPCWSTR cwd, LPSTARTUPINFOW si, PROCESS_INFORMATION *pi)
{
  (void) app;
  (void) pa;
  (void) ta;
  (void) inherit;
  (void) si;
  if (api_fails(3)) {
    return 0;
  }
  g_cap.created++;
  g_cap.flags = flags;
  size_t n = wcslen(cmdline) + 1;
  g_cmd_copy = (wchar_t *) malloc(n * sizeof(wchar_t));
  memcpy(g_cmd_copy, cmdline, n * sizeof(wchar_t));
  g_cap.cmdline_units = n;
  g_cap.cmdline_alloc = alloc_size(cmdline);
  if (env == NULL) {
    g_cap.env_null = 1;
  } else {
    const wchar_t *e = (const wchar_t *) env;
    size_t u = 0;
    // entries until an empty string; the terminating NUL is part of the block
    while (e[u] != L'\0') {
      u += wcslen(e + u) + 1;
    }
    u += 1;
    g_env_copy = (wchar_t *) malloc(u * sizeof(wchar_t));
    memcpy(g_env_copy, e, u * sizeof(wchar_t));
    g_cap.env_units = u;
    g_cap.env_alloc = alloc_size(env);
  }
  if (cwd != NULL) {
    size_t c = wcslen(cwd) + 1;
    g_cwd_copy = (wchar_t *) malloc(c * sizeof(wchar_t));
    memcpy(g_cwd_copy, cwd, c * sizeof(wchar_t));
  }
  pi->hProcess = (HANDLE) (intptr_t) 0x5150;
  pi->hThread = INVALID_HANDLE_VALUE;
  pi->dwProcessId = 4242;
  pi->dwThreadId = 1;
  return 1;
}

UINT SetErrorMode(UINT mode)
{
  (void) mode;
  return 0;
}

DWORD GetProcessId(HANDLE h)
{
  (void) h;
  return 4242;
}

DWORD WaitForSingleObject(HANDLE h, DWORD ms)
{
  (void) h;
  (void) ms;
  return api_fails(5) ? WAIT_FAILED : 0;
}

BOOL GetExitCodeProcess(HANDLE h, DWORD *status)
{
  (void) h;
  if (api_fails(6)) {
    return 0;
  }
  *status = g_exit_code;
  return 1;
}

BOOL GenerateConsoleCtrlEvent(DWORD ev, DWORD group)
{
  (void) ev;
  (void) group;
  return 1;
}

BOOL TerminateProcess(HANDLE h, UINT code)
{
  (void) h;
  (void) code;
  return 1;
}

BOOL CloseHandle(HANDLE h)
{
  (void) h;
  g_handles_closed++;
  return 1;
}

// Strict UTF-8 decoder producing UTF-16 code units (surrogate pairs for code
// points above U+FFFF, as the real API does), with the real API's size
// conventions: srclen == -1 means "through the terminating NUL, inclusive";
// dstlen == 0 means "return the required number of units".
int MultiByteToWideChar(UINT cp, DWORD flags, LPCCH src, int srclen, LPWSTR dst, int dstlen)
{
  (void) cp;
  (void) flags;
  if (api_fails(4)) {
    return 0;
  }
  size_t n = srclen < 0 ? strlen(src) + 1 : (size_t) srclen;
  if (n == 0) {
    SetLastError(ERROR_INVALID_PARAMETER);
    return 0;
  }
  const unsigned char *s = (const unsigned char *) src;
  size_t i = 0;
  int out = 0;
  while (i < n) {
    uint32_t c = s[i];
    size_t len = 1;
    if (c < 0x80) {
      len = 1;
    } else if (c >= 0xC2 && c <= 0xDF) {
      len = 2;
      c &= 0x1F;
    } else if (c >= 0xE0 && c <= 0xEF) {
      len = 3;
      c &= 0x0F;
    } else if (c >= 0xF0 && c <= 0xF4) {
      len = 4;
      c &= 0x07;
    } else {
      SetLastError(ERROR_NO_UNICODE_TRANSLATION);
      return 0;
    }
    if (i + len > n) {
      SetLastError(ERROR_NO_UNICODE_TRANSLATION);
      return 0;
    }
    for (size_t k = 1; k < len; k++) {
      if ((s[i + k] & 0xC0) != 0x80) {
        SetLastError(ERROR_NO_UNICODE_TRANSLATION);
        return 0;
      }
      c = (c << 6) | (s[i + k] & 0x3F);
    }
    if ((len == 3 && (c < 0x800 || (c >= 0xD800 && c <= 0xDFFF))) ||
        (len == 4 && (c < 0x10000 || c > 0x10FFFF))) {
      SetLastError(ERROR_NO_UNICODE_TRANSLATION);
      return 0;
    }
    int units = c >= 0x10000 ? 2 : 1;
    if (dstlen != 0) {
      if (out + units > dstlen) {
        SetLastError(ERROR_INSUFFICIENT_BUFFER);
        return 0;
      }
      if (units == 2) {
        uint32_t v = c - 0x10000;
        dst[out] = (wchar_t) (0xD800 + (v >> 10));
        dst[out + 1] = (wchar_t) (0xDC00 + (v & 0x3FF));
      } else {
        dst[out] = (wchar_t) c;
      }
    }
    out += units;
    i += len;
  }
  return out;
}

int ws_process_start(const char *const *argv, int env_behavior, const char *const *extra, const char *wd)
{
  HANDLE process = INVALID_HANDLE_VALUE;
  struct process_options options;
  memset(&options, 0, sizeof(options));
  options.env.behavior = (REPROC_ENV) env_behavior;
  options.env.extra = extra;
  options.working_directory = wd;
  options.handle.in = (HANDLE) (intptr_t) 0x10;
  options.handle.out = (HANDLE) (intptr_t) 0x20;
  options.handle.err = (HANDLE) (intptr_t) 0x30;
  options.handle.exit = (HANDLE) (intptr_t) 0x40;
  return process_start(&process, argv, options);
}

int ws_process_wait(void) { return process_wait((HANDLE) (intptr_t) 0x5150); }

// Constants that live in reproc.c (not compiled into this target).
const int REPROC_SIGKILL = 128 + 9;
const int REPROC_SIGTERM = 128 + 15;
