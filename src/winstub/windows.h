// Stub <windows.h>: just enough Win32 surface to compile reproc's
// process.windows.c, utf.windows.c and handle.windows.c unmodified on Linux
// (-D_WIN32). Implementations are in winstub.c.
#pragma once

#include <limits.h>
#include <stdbool.h>
#include <stddef.h>
#include <stdint.h>
#include <string.h>
#include <wchar.h>

typedef void *HANDLE;
typedef uint32_t DWORD;
typedef int BOOL;
typedef size_t SIZE_T;
typedef uint16_t WORD;
typedef unsigned int UINT;
typedef void *LPVOID;
typedef void *PVOID;
typedef wchar_t *LPWSTR;
typedef const wchar_t *LPCWSTR;
typedef const char *LPCCH;
typedef struct ws_attr_list *LPPROC_THREAD_ATTRIBUTE_LIST;

#define INVALID_HANDLE_VALUE ((HANDLE) (intptr_t) -1)

typedef struct {
  HANDLE hProcess;
  HANDLE hThread;
  DWORD dwProcessId;
  DWORD dwThreadId;
} PROCESS_INFORMATION;

typedef struct {
  DWORD cb;
  DWORD dwFlags;
  WORD wShowWindow;
  HANDLE hStdInput;
  HANDLE hStdOutput;
  HANDLE hStdError;
} STARTUPINFOW, *LPSTARTUPINFOW;

typedef struct {
  STARTUPINFOW StartupInfo;
  LPPROC_THREAD_ATTRIBUTE_LIST lpAttributeList;
} STARTUPINFOEXW;

typedef struct {
  DWORD nLength;
  LPVOID lpSecurityDescriptor;
  BOOL bInheritHandle;
} SECURITY_ATTRIBUTES;

#define CREATE_NEW_PROCESS_GROUP 0x00000200
#define CREATE_UNICODE_ENVIRONMENT 0x00000400
#define EXTENDED_STARTUPINFO_PRESENT 0x00080000
#define ERROR_NOT_ENOUGH_MEMORY 8
#define ERROR_INSUFFICIENT_BUFFER 122
#define ERROR_CALL_NOT_IMPLEMENTED 120
#define ERROR_NO_UNICODE_TRANSLATION 1113
#define ERROR_INVALID_PARAMETER 87
#define HANDLE_FLAG_INHERIT 1
#define PROC_THREAD_ATTRIBUTE_HANDLE_LIST 0x00020002
#define STARTF_USESTDHANDLES 0x100
#define STARTF_USESHOWWINDOW 0x1
#define SW_HIDE 0
#define SEM_NOGPFAULTERRORBOX 2
#define INFINITE 0xFFFFFFFFu
#define WAIT_FAILED 0xFFFFFFFFu
#define CTRL_BREAK_EVENT 1
#define CP_UTF8 65001
#define MB_ERR_INVALID_CHARS 8

void SetLastError(DWORD e);
DWORD GetLastError(void);
BOOL SetHandleInformation(HANDLE h, DWORD mask, DWORD flags);
BOOL InitializeProcThreadAttributeList(LPPROC_THREAD_ATTRIBUTE_LIST l, DWORD n, DWORD flags, SIZE_T *size);
BOOL UpdateProcThreadAttribute(LPPROC_THREAD_ATTRIBUTE_LIST l, DWORD flags, uintptr_t attr, PVOID value, SIZE_T size, PVOID prev, SIZE_T *ret);
void DeleteProcThreadAttributeList(LPPROC_THREAD_ATTRIBUTE_LIST l);
wchar_t *GetEnvironmentStringsW(void);
BOOL FreeEnvironmentStringsW(wchar_t *block);
BOOL CreateProcessW(LPCWSTR app, LPWSTR cmdline, SECURITY_ATTRIBUTES *pa, SECURITY_ATTRIBUTES *ta, BOOL inherit, DWORD flags, LPVOID env, LPCWSTR cwd, LPSTARTUPINFOW si, PROCESS_INFORMATION *pi);
UINT SetErrorMode(UINT mode);
DWORD GetProcessId(HANDLE h);
DWORD WaitForSingleObject(HANDLE h, DWORD ms);
BOOL GetExitCodeProcess(HANDLE h, DWORD *status);
BOOL GenerateConsoleCtrlEvent(DWORD ev, DWORD group);
BOOL TerminateProcess(HANDLE h, UINT code);
BOOL CloseHandle(HANDLE h);
int MultiByteToWideChar(UINT cp, DWORD flags, LPCCH src, int srclen, LPWSTR dst, int dstlen);

// Allocation recording for the Windows translation units (see winstub.c).
void *ws_calloc(size_t a, size_t b);
void *ws_malloc(size_t n);
void ws_free(void *p);
#ifndef WS_NO_ALLOC_REDIRECT
#include <stdlib.h>
#define calloc ws_calloc
#define malloc ws_malloc
#define free ws_free
#endif

#include "../wincommon/wincodes.h"
