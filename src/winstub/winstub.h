// Harness-facing API of the Win32 stub (plain C, no windows.h needed).
#pragma once
#include <stddef.h>
#include <stdint.h>
#include <wchar.h>
#ifdef __cplusplus
extern "C" {
#endif

void ws_reset(void);
// Block returned by GetEnvironmentStringsW (copied); units includes all NULs.
void ws_set_parent_env(const wchar_t *block, size_t units);
// Fail the n-th (0-based) allocation made by the Windows sources; -1 = never.
void ws_fail_alloc(int n);
// Fail the n-th (0-based) call of one Win32 function with the given last-error
// code; api: 0 SetHandleInformation, 1 InitializeProcThreadAttributeList (real
// initialisation call), 2 UpdateProcThreadAttribute, 3 CreateProcessW,
// 4 MultiByteToWideChar, 5 WaitForSingleObject, 6 GetExitCodeProcess. -1 = none.
void ws_fail_api(int api, int nth, uint32_t error);
// Exit code that GetExitCodeProcess reports.
void ws_set_exit_code(uint32_t code);

// Calls the real process_start(argv, {behavior, extra}, wd) from process.windows.c.
int ws_process_start(const char *const *argv, int env_behavior, const char *const *extra, const char *wd);
// Calls the real process_wait on a fake handle.
int ws_process_wait(void);

struct ws_capture {
  int created;               // CreateProcessW called
  const wchar_t *cmdline;    // copy, NUL-terminated
  size_t cmdline_units;      // units used incl. NUL
  size_t cmdline_alloc;      // bytes requested for that buffer (0 = unknown)
  const wchar_t *env;        // copy of the block
  size_t env_units;          // units used incl. final NUL
  size_t env_alloc;          // bytes requested (0 = unknown)
  const wchar_t *cwd;        // copy or NULL
  uint32_t flags;
  int env_null;
  int freed_env_strings;     // FreeEnvironmentStringsW calls with the parent block
  size_t live_allocs;        // blocks allocated by the Windows sources and not freed
  size_t nfreed;             // freed blocks log
  int attr_lists_live;       // initialised and not deleted attribute lists
  int handles_closed;        // CloseHandle calls
};
struct ws_capture ws_get(void);
// i-th freed block: size requested and a copy of its content at free time.
size_t ws_freed_size(size_t i);
const unsigned char *ws_freed_content(size_t i);

#ifdef __cplusplus
}
#endif
