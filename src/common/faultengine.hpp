// Fault-enumeration engine shared by C04, C05, C06 and C12 (engine R + FAULT
// mode of vsys): a fixed list of start scenarios that change the call sequence
// of reproc_start, discovery of the fault points of a scenario from a
// fault-free run (both sides of fork), execution of a scenario under a fault
// plan with full observation, and the fault table (DESIGN 3.3).
#pragma once

#include <cerrno>
#include <csignal>
#include <cstring>
#include <string>
#include <sys/resource.h>
#include <sys/wait.h>
#include <vector>

#include "common/fw.hpp"
#include "common/harness.hpp"
#include "common/ledger.hpp"
#include "common/scenario.hpp"
#include "vsys/vsys.h"

extern char **environ;

namespace fe {

using hz::FdId;

// ------------------------------------------------------------ scenarios ----
enum ScenarioKind {
  S_DEFAULT = 0,
  S_ALL_PIPES_NONBLOCK,
  S_ALL_DISCARD,
  S_PATHS_STDOUT,
  S_HANDLE_FILE_HANDLE,
  S_PARENT_SHORTHAND,
  S_INPUT,
  S_WD_RELATIVE,
  S_ENV_EMPTY_EXTRA,
  S_ENV_EXTEND_EXTRA,
  S_FORK,
  S_FILE_SHORTHAND,
  S_PARENT_ABSENT,
  S_MISSING_PROGRAM,   // natural failure on the child side (execvp)
  S_BAD_WD,            // natural failure on the child side (chdir)
  S_BAD_REDIRECT_PATH, // natural failure on the parent side after some pipes exist
  S_NOT_EXECUTABLE,    // natural failure (EACCES)
  S_DEEP_CWD,          // cwd beyond PATH_MAX + working directory + relative program: getcwd ERANGE/realloc path, ENAMETOOLONG
  S_COUNT
};

inline const char *scenario_name(int s)
{
  static const char *n[] = { "default", "all-pipes-nonblocking", "all-discard", "paths+stderr-to-stdout", "handle/file/handle",
                             "parent-shorthand", "startup-input", "working-directory+relative-program", "env-empty+extras",
                             "env-extend+extras", "fork-mode", "file-shorthand", "parent-stream-absent", "missing-program",
                             "bad-working-directory", "bad-redirect-path", "not-executable", "cwd-beyond-PATH_MAX" };
  return s >= 0 && s < S_COUNT ? n[s] : "?";
}

inline bool natural_failure(int s) { return s >= S_MISSING_PROGRAM; }

// ----------------------------------------------------------- fault table ----
struct FaultChoice {
  int kind;
  int err;
  long long value;
  const char *name;
};

inline std::vector<FaultChoice> fault_choices(int fn, const vs_rec &rec)
{
  using V = std::vector<FaultChoice>;
  switch (fn) {
    case VS_PIPE: return V{ { VS_FK_ERRNO, EMFILE, 0, "EMFILE" }, { VS_FK_ERRNO, ENFILE, 0, "ENFILE" } };
    case VS_FCNTL:
      if (rec.a1 == F_DUPFD || rec.a1 == F_DUPFD_CLOEXEC) return V{ { VS_FK_ERRNO, EMFILE, 0, "EMFILE" }, { VS_FK_ERRNO, EINVAL, 0, "EINVAL" } };
      return V{ { VS_FK_ERRNO, EBADF, 0, "EBADF" }, { VS_FK_ERRNO, EINVAL, 0, "EINVAL" } };
    case VS_OPEN: return V{ { VS_FK_ERRNO, ENOENT, 0, "ENOENT" }, { VS_FK_ERRNO, EMFILE, 0, "EMFILE" }, { VS_FK_ERRNO, EACCES, 0, "EACCES" }, { VS_FK_ERRNO, EINTR, 0, "EINTR" } };
    case VS_FILENO: return V{ { VS_FK_ERRNO, EBADF, 0, "EBADF" } };
    case VS_MALLOC:
    case VS_CALLOC:
    case VS_REALLOC:
    case VS_STRDUP: return V{ { VS_FK_ERRNO, ENOMEM, 0, "ENOMEM" } };
    case VS_GETCWD: return V{ { VS_FK_ERRNO, ENOENT, 0, "ENOENT" }, { VS_FK_ERRNO, EACCES, 0, "EACCES" }, { VS_FK_ERRNO, ENOMEM, 0, "ENOMEM" } };
    case VS_SIGFILLSET:
    case VS_SIGEMPTYSET: return V{ { VS_FK_ERRNO, EINVAL, 0, "EINVAL" } };
    case VS_SIGMASK: return V{ { VS_FK_ERRNO, EINVAL, 0, "EINVAL" } };
    case VS_FORK: return V{ { VS_FK_ERRNO, EAGAIN, 0, "EAGAIN" }, { VS_FK_ERRNO, ENOMEM, 0, "ENOMEM" } };
    // read(2) on a pipe: EINTR is the realistic failure (EIO is for devices)
    case VS_READ: return V{ { VS_FK_ERRNO, EINTR, 0, "EINTR" } };
    case VS_WRITE:
      if (rec.side == VS_CHILD) return V{};  // the error report itself: only reachable after another failure
      return V{ { VS_FK_ERRNO, EAGAIN, 0, "EAGAIN" }, { VS_FK_ERRNO, EINTR, 0, "EINTR" }, { VS_FK_SHORT, 0, 0, "short-count" }, { VS_FK_ERRNO, EPIPE, 0, "EPIPE" } };
    // ECHILD for a child nobody else has reaped would contradict the documented
    // precondition (the caller does not wait for reproc's children itself)
    case VS_WAITPID: return V{ { VS_FK_ERRNO, EINTR, 0, "EINTR" } };
    case VS_SIGACTION: return V{ { VS_FK_ERRNO, EFAULT, 0, "EFAULT" } };
    case VS_GETRLIMIT:
      return V{ { VS_FK_ERRNO, EINVAL, 0, "EINVAL" }, { VS_FK_VALUE, 0, (long long) RLIM_INFINITY, "limit=infinity" }, { VS_FK_VALUE, 0, 1048578, "limit=1048578" } };
    case VS_DUP2: return V{ { VS_FK_ERRNO, EBADF, 0, "EBADF" }, { VS_FK_ERRNO, EINTR, 0, "EINTR" }, { VS_FK_ERRNO, EMFILE, 0, "EMFILE" } };
    case VS_CHDIR: return V{ { VS_FK_ERRNO, ENOENT, 0, "ENOENT" }, { VS_FK_ERRNO, EACCES, 0, "EACCES" }, { VS_FK_ERRNO, ENOTDIR, 0, "ENOTDIR" } };
    case VS_EXECVP: return V{ { VS_FK_ERRNO, ENOENT, 0, "ENOENT" }, { VS_FK_ERRNO, EACCES, 0, "EACCES" }, { VS_FK_ERRNO, E2BIG, 0, "E2BIG" }, { VS_FK_ERRNO, ENOMEM, 0, "ENOMEM" }, { VS_FK_ERRNO, ETXTBSY, 0, "ETXTBSY" } };
    case VS_CLOSE: return V{ { VS_FK_ERRNO, EINTR, 0, "EINTR" }, { VS_FK_ERRNO, EIO, 0, "EIO" } };
    default: return V{};
  }
}

struct FaultPoint {
  int side, index, fn;
  vs_rec rec;
};

// Is the library under test built without its assertions (the .rel binaries)?
// A hard failure of the parent's read of the child's error report is ruled out
// by an ASSERT in the library, so it is injected only where the assertions are
// compiled out - the build in which the code after it decides what happens.
inline bool asserts_off()
{
  static int v = -1;
  if (v < 0) {
    char buf[4096];
    ssize_t n = readlink("/proc/self/exe", buf, sizeof(buf) - 1);
    buf[n > 0 ? n : 0] = 0;
    size_t l = strlen(buf);
    v = l > 4 && !strcmp(buf + l - 4, ".rel");
  }
  return v == 1;
}
enum { CHOICE_READ_EIO = 100 };

struct FaultSpec {
  int side = 0, index = 0, fn = -1, kind = 0, err = 0;
  long long value = 0;
  std::string name;
};

// -------------------------------------------------------- caller state -----
struct CallerState {
  sigset_t mask;
  struct sigaction act[65];
  bool act_ok[65];
  FdId cwd;
  char **environ_ptr = nullptr;
  std::vector<std::string> environ_copy;
};

inline bool sig_observable(int s) { return s >= 1 && s <= 64 && s != 32 && s != 33; }

inline CallerState snapshot_caller()
{
  CallerState c;
  pthread_sigmask(SIG_SETMASK, nullptr, &c.mask);
  for (int s = 1; s <= 64; s++) {
    c.act_ok[s] = sig_observable(s) && sigaction(s, nullptr, &c.act[s]) == 0;
  }
  struct stat st;
  if (stat(".", &st) == 0) {
    c.cwd.open = true;
    c.cwd.dev = st.st_dev;
    c.cwd.ino = st.st_ino;
  }
  c.environ_ptr = environ;
  for (char **e = environ; e && *e; e++) c.environ_copy.push_back(*e);
  return c;
}

inline std::string diff_caller(const CallerState &a, const CallerState &b, std::string &sig)
{
  for (int s = 1; s <= 64; s++) {
    if (!sig_observable(s)) continue;
    if (sigismember(&a.mask, s) != sigismember(&b.mask, s)) {
      sig = "caller-mask-changed";
      int blocked_now = 0;
      for (int k = 1; k <= 64; k++)
        if (sig_observable(k) && sigismember(&b.mask, k) == 1) blocked_now++;
      return "the calling thread's signal mask differs after reproc_start (signal " + std::to_string(s) + (sigismember(&b.mask, s) == 1 ? " now blocked" : " now unblocked") + "; " + std::to_string(blocked_now) + " signals blocked now)";
    }
  }
  for (int s = 1; s <= 64; s++) {
    if (!a.act_ok[s] || !b.act_ok[s]) continue;
    if (a.act[s].sa_handler != b.act[s].sa_handler || a.act[s].sa_flags != b.act[s].sa_flags || memcmp(&a.act[s].sa_mask, &b.act[s].sa_mask, 8) != 0) {
      sig = "caller-disposition-changed";
      return "the disposition of signal " + std::to_string(s) + " differs after reproc_start";
    }
  }
  if (!a.cwd.same_object(b.cwd)) {
    sig = "caller-cwd-changed";
    return "the working directory of the calling process differs after reproc_start";
  }
  if (a.environ_ptr != b.environ_ptr || a.environ_copy != b.environ_copy) {
    sig = "caller-environ-changed";
    return "the environment of the calling process differs after reproc_start";
  }
  return "";
}

// Generated parent signal state (C12). Signals whose manipulation would
// disturb the harness itself are left alone.
inline bool sig_touchable(int s)
{
  if (!sig_observable(s)) return false;
  switch (s) {
    case SIGKILL:
    case SIGSTOP:
    case SIGSEGV:
    case SIGBUS:
    case SIGFPE:
    case SIGILL:
    case SIGABRT:
    case SIGTRAP:
    case SIGCHLD:  // ignoring SIGCHLD changes wait semantics for every child
      return false;
    default:
      return s <= 31 || s >= 40;
  }
}

inline void noop_handler(int) {}

struct ParentSignals {
  uint64_t blocked = 0;   // bit s-1
  uint64_t ignored = 0;
  uint64_t handled = 0;
  // SIGCHLD is left alone (the harness and the library both wait for children)
  // except when the injected fault makes fork itself fail - no child can exist
  // then: 1 = ignored, 2 = handled with SA_NOCLDWAIT. Only the caller-state
  // comparison looks at it.
  int sigchld = 0;
};

inline ParentSignals gen_parent_signals(fw::Tape &t)
{
  ParentSignals ps;
  int style = (int) t.weighted({ 2, 5, 3 });  // untouched, some, many
  if (style == 0) return ps;
  for (int s = 1; s <= 64; s++) {
    if (!sig_touchable(s)) continue;
    uint32_t r = t.next();
    uint32_t p = style == 1 ? 6 : 2;
    if (r % p == 0) ps.blocked |= 1ull << (s - 1);
    uint32_t d = (r >> 8) % (style == 1 ? 8 : 3);
    if (d == 1) ps.ignored |= 1ull << (s - 1);
    else if (d == 2) ps.handled |= 1ull << (s - 1);
  }
  return ps;
}

inline void apply_parent_signals(const ParentSignals &ps)
{
  sigset_t m;
  sigemptyset(&m);
  for (int s = 1; s <= 64; s++) {
    if (!sig_touchable(s)) continue;
    if (ps.blocked >> (s - 1) & 1) sigaddset(&m, s);
    struct sigaction sa;
    memset(&sa, 0, sizeof(sa));
    sigemptyset(&sa.sa_mask);
    if (ps.ignored >> (s - 1) & 1) {
      sa.sa_handler = SIG_IGN;
      sigaction(s, &sa, nullptr);
    } else if (ps.handled >> (s - 1) & 1) {
      sa.sa_handler = noop_handler;
      sa.sa_flags = (s % 2) ? SA_RESTART : 0;
      sigaddset(&sa.sa_mask, (s % 30) + 1 == SIGKILL ? SIGUSR1 : (s % 30) + 1);
      sigaction(s, &sa, nullptr);
    }
  }
  pthread_sigmask(SIG_BLOCK, &m, nullptr);
  if (ps.sigchld) {
    struct sigaction sa;
    memset(&sa, 0, sizeof(sa));
    sigemptyset(&sa.sa_mask);
    sigaddset(&sa.sa_mask, SIGUSR2);
    sa.sa_handler = ps.sigchld == 1 ? SIG_IGN : ps.sigchld == 3 ? SIG_DFL : noop_handler;
    sa.sa_flags = ps.sigchld == 1 ? 0 : (SA_NOCLDWAIT | SA_RESTART);
    sigaction(SIGCHLD, &sa, nullptr);
  }
}

// a start whose only fault makes fork() itself fail never has a child
inline void maybe_touch_sigchld(fw::Tape &t, ParentSignals &ps, const std::vector<FaultSpec> &faults, int scenario = -1)
{
  // fork mode without a fault: the child is this very process and reports its own dispositions, flags
  // included; it stays until the parent has put SIGCHLD back (2 = handler + SA_NOCLDWAIT, 3 = SIG_DFL + SA_NOCLDWAIT)
  if (faults.empty() && scenario == S_FORK && t.coin()) {
    ps.sigchld = 2 + (int) t.pick(2);
    return;
  }
  if (faults.size() == 1 && faults[0].fn == VS_FORK && faults[0].side == VS_PARENT && faults[0].kind == VS_FK_ERRNO && t.coin()) ps.sigchld = 1 + (int) t.pick(2);
}
// ... and that fault is then addressed as "the first fork()", not by its place
// in the fault-free call sequence (a library may make other calls first when
// SIGCHLD is not at its default)
inline void address_fork_by_ordinal(const ParentSignals &ps, std::vector<FaultSpec> &faults)
{
  if (ps.sigchld && faults.size() == 1 && faults[0].fn == VS_FORK) faults[0].index = -1;
}

// ---------------------------------------------------------- observation ----
struct Obs {
  int scenario = 0;
  std::vector<FaultSpec> faults;
  std::vector<bool> fired, mismatch;
  int r = 0;                       // result of reproc_start under the plan
  int pid_after = 0;               // reproc_pid right after start
  std::vector<pid_t> forked;       // every pid fork returned to the parent
  std::vector<pid_t> live_after_start;  // not yet reaped when start returned
  std::vector<char> live_state;    // /proc state of those
  int own_fds_after_start = 0;
  bool hello = false;
  hz::Hello child;
  std::string hello_error;
  std::string caller_diff, caller_sig;
  std::string user_objects, user_sig;
  // failure path: retry on the same handle with the plan cleared
  bool retried = false;
  int r2 = 0;
  bool hello2 = false;
  int retry_poll = -1000, retry_events = 0;   // poll(EXIT, 0) on the restarted handle while its child idles
  // history after a successful start
  std::vector<std::string> history;   // "op=result"
  // after a failed start: results of terminate / kill / wait(0) / pid on the handle, signals sent and reaps tried meanwhile
  bool failed_handle_probed = false;
  int failed_handle_results[4] = { 0, 0, 0, 0 };
  int failed_handle_signals = 0, failed_handle_reaps = 0;
  int sig_count_after_reap = 0;
  int final_status = -1000;
  std::string ledger, ledger_sig;
  std::vector<std::string> vs_violations;
  std::vector<vs_rec> trace;
  int natural_errno = 0;           // for natural-failure scenarios, from the harness's own attempt
  bool fork_child_reported = false;
  uint64_t child_sigblk = 0, child_sigign = 0, child_sigcgt = 0;
  std::string child_sigflags;      // fork-mode child: "sig:flags ..." for dispositions with flags left on
  std::vector<int> child_fds;
  std::string setup_error;
};

// Operations of a generated history on a started handle (C05, C06).
enum OpKind { OP_WAIT, OP_TERMINATE, OP_KILL, OP_STOP, OP_READ, OP_WRITE, OP_CLOSE, OP_POLL, OP_PID, OP_CHILD_EXIT, OP_CHILD_WRITE, OP_KINDS };

struct Op {
  int kind = OP_WAIT;
  int a = 0;       // timeout / stream / interests / exit code
  int b = 0;       // size / second parameter
  int stop[6] = { 0, 0, 0, 0, 0, 0 };  // (action, timeout) x 3
};

inline const char *op_name(int k)
{
  static const char *n[] = { "wait", "terminate", "kill", "stop", "read", "write", "close", "poll", "pid", "child-exit", "child-write" };
  return k >= 0 && k < OP_KINDS ? n[k] : "?";
}

struct RunConfig {
  int scenario = 0;
  std::vector<FaultSpec> faults;
  // faults installed when start has returned; `index` counts fault points from
  // that moment on (parent side)
  std::vector<FaultSpec> late_faults;
  ParentSignals parent_signals;
  bool do_history = true;   // terminate/kill/wait history after a successful start
  std::vector<Op> ops;      // generated history; replaces the fixed one when non-empty
  int nofile_limit = 64;
};

inline Op gen_op(fw::Tape &t)
{
  Op o;
  o.kind = (int) t.weighted({ 5, 3, 3, 3, 3, 2, 2, 3, 1, 3, 2 });
  static const int timeouts[] = { 0, 0, 15, 3000 };
  switch (o.kind) {
    case OP_WAIT: o.a = timeouts[t.pick(4)]; break;
    case OP_STOP:
      for (int i = 0; i < 3; i++) {
        o.stop[2 * i] = (int) t.pick(4);  // noop, wait, terminate, kill
        o.stop[2 * i + 1] = timeouts[t.pick(3)];
      }
      break;
    case OP_READ:
      o.a = 1 + (int) t.pick(2);
      o.b = (int) t.range(1, 5000);
      break;
    case OP_WRITE: o.b = (int) t.range(0, 3000); break;
    case OP_CLOSE: o.a = (int) t.pick(3); break;
    case OP_POLL:
      o.a = (int) t.pick(16);
      o.b = t.coin() ? 0 : 10;
      break;
    case OP_CHILD_EXIT: o.a = (int) t.pick(256); break;
    case OP_CHILD_WRITE:
      o.a = 1 + (int) t.pick(2);
      o.b = (int) t.range(1, 3000);
      break;
    default: break;
  }
  return o;
}

namespace detail {

inline void write_file(const std::string &path, const std::string &data)
{
  int fd = open(path.c_str(), O_WRONLY | O_CREAT | O_TRUNC, 0644);
  if (fd >= 0) {
    hz::write_all(fd, data.data(), data.size());
    close(fd);
  }
}

// What the fork-mode child does: report its own state by path, then leave.
inline void fork_child_report(const std::string &path)
{
  std::string out;
  std::string status = hz::slurp("/proc/self/status");
  auto grab = [&](const char *key) {
    size_t p = status.find(key);
    if (p == std::string::npos) return std::string("0");
    size_t e = status.find('\n', p);
    return status.substr(p + strlen(key), e - p - strlen(key));
  };
  out += "SigBlk " + grab("SigBlk:\t") + "\n";
  out += "SigIgn " + grab("SigIgn:\t") + "\n";
  out += "SigCgt " + grab("SigCgt:\t") + "\n";
  out += "fds";
  for (auto &kv : hz::snapshot_self_fds()) out += " " + std::to_string(kv.first);
  out += "\n";
  // dispositions in full: a default handler that still carries the parent's
  // flags (SA_NOCLDWAIT on SIGCHLD changes what a child's own children do) is
  // not the default disposition
  out += "SigFlags";
  for (int s = 1; s <= 31; s++) {
    if (s == SIGKILL || s == SIGSTOP) continue;
    struct sigaction sa;
    if (sigaction(s, nullptr, &sa) != 0) continue;
    unsigned long fl = (unsigned long) sa.sa_flags & ~0x04000000ul;  // SA_RESTORER is the C library's own
    if (fl != 0) out += " " + std::to_string(s) + ":" + std::to_string(fl);
  }
  out += "\n";
  write_file(path + ".tmp", out);
  rename((path + ".tmp").c_str(), path.c_str());
  // the parent may ask us to stay until it has put its own SIGCHLD handling back
  if (access((path + ".wait").c_str(), F_OK) == 0)
    for (int i = 0; i < 5000 && access((path + ".go").c_str(), F_OK) != 0; i++) usleep(1000);
}

// The kernel's answer for the same launch, obtained by the harness itself.
inline int natural_errno_of(const std::string &program, const char *wd)
{
  int p[2];
  if (pipe(p) != 0) return 0;
  pid_t pid = fork();
  if (pid == 0) {
    close(p[0]);
    fcntl(p[1], F_SETFD, FD_CLOEXEC);
    int e = 0;
    if (wd && chdir(wd) != 0) e = errno;
    if (!e) {
      char *const argv[] = { const_cast<char *>(program.c_str()), nullptr };
      execv(program.c_str(), argv);
      e = errno;
    }
    hz::write_all(p[1], &e, sizeof(e));
    _exit(0);
  }
  close(p[1]);
  int e = 0;
  if (read(p[0], &e, sizeof(e)) != (ssize_t) sizeof(e)) e = 0;
  close(p[0]);
  int st;
  waitpid(pid, &st, 0);
  return e;
}

}  // namespace detail

// Runs one scenario under a fault plan in the current (case) process.
inline Obs run(const RunConfig &cfg, const std::string &root)
{
  Obs o;
  o.scenario = cfg.scenario;
  o.faults = cfg.faults;
  vs_init();
  vs_reset();

  hz::Puppet pup(root + "/ctl");
  if (!pup.error().empty()) {
    o.setup_error = "puppet: " + pup.error();
    return o;
  }

  sc::Plan plan;
  std::vector<std::string> extra;
  bool env_empty = false, use_extra = false;
  std::string wd, program = pup.exe();
  bool fork_mode = false;
  bool close_stdin = false;
  switch (cfg.scenario) {
    case S_DEFAULT: break;
    case S_ALL_PIPES_NONBLOCK:
      plan.eff[2] = sc::T_PIPE;
      plan.nonblocking = true;
      break;
    case S_ALL_DISCARD: plan.eff[0] = plan.eff[1] = plan.eff[2] = sc::T_DISCARD; break;
    case S_PATHS_STDOUT:
      plan.eff[0] = plan.eff[1] = sc::T_PATH;
      plan.eff[2] = sc::T_STDOUT;
      break;
    case S_HANDLE_FILE_HANDLE:
      plan.eff[0] = sc::T_HANDLE;
      plan.eff[1] = sc::T_FILE;
      plan.eff[2] = sc::T_HANDLE;
      plan.field_only[0] = true;
      break;
    case S_PARENT_SHORTHAND:
      plan.eff[0] = plan.eff[1] = plan.eff[2] = sc::T_PARENT;
      sc::apply_shorthand(plan, sc::SH_PARENT);
      break;
    case S_INPUT:
      plan.eff[2] = sc::T_PIPE;
      plan.input_size = 300;
      break;
    case S_WD_RELATIVE: {
      wd = root + "/wd";
      mkdir(wd.c_str(), 0755);
      mkdir((root + "/rel").c_str(), 0755);
      if (chdir(root.c_str()) != 0) o.setup_error = "chdir";
      pup.plant(root + "/rel", "prog");
      program = "rel/prog";
      break;
    }
    case S_ENV_EMPTY_EXTRA:
      env_empty = true;
      use_extra = true;
      extra = { "A=1", "BB=two words", "C=" };
      break;
    case S_ENV_EXTEND_EXTRA:
      use_extra = true;
      extra = { "EXTRA1=x", "PARENT_TWO=overridden by an extra entry", "EXTRA2=y" };  // one extra names a variable the caller has too
      break;
    case S_FORK:
      fork_mode = true;
      plan.fork = true;
      break;
    case S_FILE_SHORTHAND:
      plan.eff[1] = plan.eff[2] = sc::T_FILE;
      sc::apply_shorthand(plan, sc::SH_FILE);
      break;
    case S_PARENT_ABSENT:
      plan.eff[0] = sc::T_PARENT;
      close_stdin = true;
      break;
    case S_MISSING_PROGRAM: program = root + "/no-such-program"; break;
    case S_BAD_WD: wd = root + "/no-such-directory"; break;
    case S_BAD_REDIRECT_PATH:
      plan.eff[2] = sc::T_PATH;
      break;
    case S_DEEP_CWD: {
      wd = root + "/wd";
      mkdir(wd.c_str(), 0755);
      if (chdir(root.c_str()) != 0) o.setup_error = "chdir";
      std::string seg(200, 'd');
      for (int i = 0; i < 24 && o.setup_error.empty(); i++) {
        if (mkdir(seg.c_str(), 0755) != 0 && errno != EEXIST) o.setup_error = "mkdir deep";
        else if (chdir(seg.c_str()) != 0) o.setup_error = "chdir deep";
      }
      mkdir("rel", 0755);
      if (link(hz::puppet_source_binary().c_str(), "rel/prog") != 0 && errno != EEXIST) o.setup_error = "link deep";
      if (symlink(pup.dir().c_str(), "rel/ctl") != 0 && errno != EEXIST) o.setup_error = "symlink deep";
      program = "rel/prog";
      break;
    }
    case S_NOT_EXECUTABLE:
      program = root + "/plain-file";
      detail::write_file(program, "not a program\n");
      chmod(program.c_str(), 0644);
      break;
    default: break;
  }
  if (close_stdin) close(0);
  sc::Built b;
  if (!sc::build(plan, root, b)) {
    o.setup_error = "build: " + b.err;
    return o;
  }
  std::string bad_path = root + "/missing-dir/err-target";
  if (cfg.scenario == S_BAD_REDIRECT_PATH) b.opt.redirect.err.path = bad_path.c_str();
  std::vector<const char *> extrav;
  for (auto &e : extra) extrav.push_back(e.c_str());
  extrav.push_back(nullptr);
  b.opt.env.behavior = env_empty ? REPROC_ENV_EMPTY : REPROC_ENV_EXTEND;
  b.opt.env.extra = use_extra ? extrav.data() : nullptr;
  b.opt.working_directory = wd.empty() ? nullptr : wd.c_str();
  b.opt.stop = { { REPROC_STOP_WAIT, 2000 }, { REPROC_STOP_KILL, 2000 }, { REPROC_STOP_NOOP, 0 } };
  // the first attempt carries a (short) deadline, a restart after a failure
  // carries none: nothing of the failed attempt may survive on the handle
  b.opt.deadline = 5;

  if (natural_failure(cfg.scenario)) {
    if (cfg.scenario == S_BAD_REDIRECT_PATH) {
      int fd = open(bad_path.c_str(), O_WRONLY | O_CREAT, 0640);
      o.natural_errno = fd < 0 ? errno : 0;
      if (fd >= 0) close(fd);
    } else if (cfg.scenario == S_DEEP_CWD) {
      // what the documentation promises: the relative name is resolved against
      // the parent's cwd; the harness builds that absolute name itself and
      // asks the kernel
      std::string abs;
      size_t cap = 8192;
      for (;;) {
        std::vector<char> b(cap);
        if (getcwd(b.data(), cap)) {
          abs = b.data();
          break;
        }
        if (errno != ERANGE || cap > (1u << 20)) break;
        cap *= 2;
      }
      o.natural_errno = abs.empty() ? ENAMETOOLONG : detail::natural_errno_of(abs + "/" + program, wd.c_str());
    } else {
      o.natural_errno = detail::natural_errno_of(program, wd.empty() ? nullptr : wd.c_str());
    }
  }

  // small, known parent environment (every entry is an allocation = a fault point)
  std::vector<std::string> penv = { "PARENT_ONE=1", "PARENT_TWO=second value" };
  std::vector<char *> penvv;
  for (auto &e : penv) penvv.push_back(const_cast<char *>(e.c_str()));
  penvv.push_back(nullptr);
  char **saved_environ = environ;
  environ = penvv.data();

  const char *argv_exec[] = { program.c_str(), "fault-arg", nullptr };
  const char *const *argv = fork_mode ? nullptr : argv_exec;
  std::string fork_report = root + "/forkchild-report";

  apply_parent_signals(cfg.parent_signals);
  struct rlimit rl, low;
  getrlimit(RLIMIT_NOFILE, &rl);
  low = rl;
  low.rlim_cur = (rlim_t) cfg.nofile_limit;
  setrlimit(RLIMIT_NOFILE, &low);

  auto fds_before = hz::snapshot_self_fds();
  reproc_t *p = reproc_new();
  for (auto &f : cfg.faults) {
    vs_fault vf;
    memset(&vf, 0, sizeof(vf));
    vf.side = f.side;
    vf.index = f.index;
    vf.fn = f.fn;
    vf.kind = f.kind;
    vf.err = f.err;
    vf.value = f.value;
    vs_add_fault(vf);
  }
  if (fork_mode && cfg.parent_signals.sigchld) detail::write_file(fork_report + ".wait", "1");
  CallerState before = snapshot_caller();
  int r = reproc_start(p, argv, b.opt);
  if (fork_mode && r == 0) {
    // child side of fork mode: we are "the program"
    detail::fork_child_report(fork_report);
    reproc_destroy(p);
    _exit(0);
  }
  CallerState after = snapshot_caller();
  if (cfg.parent_signals.sigchld) {
    signal(SIGCHLD, SIG_DFL);  // the harness waits for children from here on
    if (fork_mode) detail::write_file(fork_report + ".go", "1");
  }
  o.r = r;
  for (int i = 0; i < vs_sh->nfaults; i++) {
    o.fired.push_back(vs_sh->faults[i].fired != 0);
    o.mismatch.push_back(vs_sh->faults[i].mismatch != 0);
  }
  vs_clear_faults();
  o.caller_diff = diff_caller(before, after, o.caller_sig);
  o.trace.assign(vs_sh->rec, vs_sh->rec + std::min<uint32_t>(vs_sh->nrec, VS_MAXREC));
  o.pid_after = reproc_pid(p);
  {
    pid_t all[16];
    int n = vs_all_children(all, 16);
    for (int i = 0; i < n && i < 16; i++) o.forked.push_back(all[i]);
    pid_t live[16];
    int nl = vs_live_children(live, 16);
    for (int i = 0; i < nl && i < 16; i++) {
      o.live_after_start.push_back(live[i]);
      o.live_state.push_back(hz::proc_state(live[i]));
    }
    o.own_fds_after_start = vs_own_open_fds(nullptr, 0);
  }
  o.user_objects = sc::check_user_objects(b, o.user_sig);

  auto read_fork_report = [&]() {
    std::string rep = hz::slurp(fork_report);
    if (rep.empty()) return false;
    unsigned long long a = 0, bb = 0, c = 0;
    sscanf(rep.c_str(), "SigBlk %llx\nSigIgn %llx\nSigCgt %llx", &a, &bb, &c);
    o.child_sigblk = a;
    o.child_sigign = bb;
    o.child_sigcgt = c;
    size_t pf = rep.find("SigFlags");
    if (pf != std::string::npos) {
      size_t e = rep.find('\n', pf);
      o.child_sigflags = rep.substr(pf + 8, e == std::string::npos ? std::string::npos : e - pf - 8);
      while (!o.child_sigflags.empty() && o.child_sigflags[0] == ' ') o.child_sigflags.erase(0, 1);
    }
    size_t p0 = rep.find("fds");
    if (p0 != std::string::npos) {
      const char *q = rep.c_str() + p0 + 3;
      while (*q && *q != '\n') {
        while (*q == ' ') q++;
        if (*q >= '0' && *q <= '9') o.child_fds.push_back((int) strtol(q, (char **) &q, 10));
        else break;
      }
    }
    return true;
  };

  if (r > 0) {
    if (fork_mode) {
      // the child reports by path and exits by itself
      for (int i = 0; i < 2000 && !o.fork_child_reported; i++) {
        o.fork_child_reported = read_fork_report();
        if (!o.fork_child_reported) {
          if (o.pid_after > 0 && hz::is_dead(o.pid_after) && !read_fork_report()) break;
          usleep(1000);
        }
      }
      o.hello = o.fork_child_reported;
      if (!o.hello) o.hello_error = "the forked child did not report";
    } else {
      o.hello = pup.wait_ready(10000, o.pid_after > 0 ? o.pid_after : 0);
      if (o.hello) {
        o.child = pup.hello();
        o.child_sigblk = o.child.sigblk;
        o.child_sigign = o.child.sigign;
        o.child_sigcgt = o.child.sigcgt;
        for (auto &f : o.child.fds) o.child_fds.push_back(f.fd);
      } else {
        o.hello_error = pup.error();
      }
    }
    // ---- history on the started handle (C06): signal, wait, then the no-op
    // calls that must not reach the kernel
    auto hist = [&](const std::string &op, int res) { o.history.push_back(op + "=" + std::to_string(res)); };
    for (auto f : cfg.late_faults) {
      vs_fault vf;
      memset(&vf, 0, sizeof(vf));
      vf.side = VS_PARENT;
      vf.index = (int) vs_sh->fidx[VS_PARENT] + f.index;
      vf.fn = -1;  // whatever call is there
      vf.kind = f.kind;
      vf.err = f.err;
      vf.value = f.value;
      vs_add_fault(vf);
    }
    if (!cfg.ops.empty()) {
      bool child_alive = o.hello && !fork_mode;
      bool reaped = false;
      uint64_t pending[3] = { 0, 0, 0 };
      uint64_t written_in = 0;
      bool piped[3] = { plan.eff[0] == sc::T_PIPE && plan.input_size < 0, plan.eff[1] == sc::T_PIPE, plan.eff[2] == sc::T_PIPE };
      static uint8_t buf[8192];
      for (const Op &op : cfg.ops) {
        int before_sigs = vs_nsig();
        switch (op.kind) {
          case OP_WAIT: {
            int to = op.a;
            if (to == 3000 && child_alive) to = 15;  // never sit out a long wait on a child that will not exit
            int w = reproc_wait(p, to);
            hist("wait(" + std::to_string(to) + ")", w);
            if (w >= 0) {
              if (reaped && w != o.final_status) o.history.push_back("!status-changed");
              o.final_status = w;
            }
            break;
          }
          case OP_TERMINATE: hist("terminate", reproc_terminate(p)); break;
          case OP_KILL: hist("kill", reproc_kill(p)); break;
          case OP_STOP: {
            reproc_stop_actions sa = { { (REPROC_STOP) op.stop[0], op.stop[1] }, { (REPROC_STOP) op.stop[2], op.stop[3] }, { (REPROC_STOP) op.stop[4], op.stop[5] } };
            bool all_noop = op.stop[0] == 0 && op.stop[2] == 0 && op.stop[4] == 0;
            if (all_noop && child_alive) sa.first = { REPROC_STOP_KILL, 3000 };  // the all-noop default would wait for ever
            for (reproc_stop_action *a : { &sa.first, &sa.second, &sa.third })
              if (a->timeout == 3000 && child_alive && a->action == REPROC_STOP_WAIT) a->timeout = 15;
            int w = reproc_stop(p, sa);
            hist("stop", w);
            if (w >= 0 && !vs_is_live(o.pid_after)) o.final_status = w;
            break;
          }
          case OP_READ: {
            int st = op.a;
            bool safe = plan.nonblocking || !piped[st] || pending[st] > 0 || !child_alive || !hz::pid_exists(o.pid_after) || hz::is_dead(o.pid_after);
            if (!safe) break;
            int rr = reproc_read(p, st == 1 ? REPROC_STREAM_OUT : REPROC_STREAM_ERR, buf, (size_t) op.b);
            hist(std::string("read(") + sc::stream_name(st) + ")", rr);
            if (rr > 0) pending[st] -= std::min<uint64_t>(pending[st], (uint64_t) rr);
            if (rr == REPROC_EPIPE) piped[st] = false;
            break;
          }
          case OP_WRITE: {
            if (written_in + (uint64_t) op.b > 50000) break;  // stay below the pipe capacity: never block
            for (int i = 0; i < op.b; i++) buf[i] = pup_pattern(0, written_in + (uint64_t) i);
            int w = reproc_write(p, buf, (size_t) op.b);
            hist("write(" + std::to_string(op.b) + ")", w);
            if (w > 0) written_in += (uint64_t) w;
            break;
          }
          case OP_CLOSE:
            hist(std::string("close(") + sc::stream_name(op.a) + ")", reproc_close(p, (REPROC_STREAM) op.a));
            piped[op.a] = false;
            break;
          case OP_POLL: {
            reproc_event_source src = { p, op.a, 0 };
            int pr = reproc_poll(&src, 1, op.b);
            hist("poll(" + std::to_string(op.a) + ")", pr);
            break;
          }
          case OP_PID: hist("pid", reproc_pid(p)); break;
          case OP_CHILD_EXIT:
            if (child_alive) {
              pup.send(PUP_EXIT, (uint32_t) op.a);
              hz::wait_dead(o.pid_after, 5000);
              child_alive = false;
              o.history.push_back("child-exit(" + std::to_string(op.a) + ")");
            }
            break;
          case OP_CHILD_WRITE:
            if (child_alive && piped[op.a] && pending[op.a] + (uint64_t) op.b < 50000) {
              pup_ack a;
              if (pup.cmd(PUP_WRITE, (uint32_t) op.a, (uint64_t) op.b, &a)) pending[op.a] = a.v[0] >= pending[op.a] ? pending[op.a] + (uint64_t) op.b : pending[op.a];
              o.history.push_back(std::string("child-write(") + sc::stream_name(op.a) + "," + std::to_string(op.b) + ")");
            }
            break;
          default: break;
        }
        // the shim's ledger knows when the child has been reaped
        if (reaped && vs_nsig() != before_sigs) o.sig_count_after_reap += vs_nsig() - before_sigs;
        reaped = o.pid_after > 0 && !vs_is_live(o.pid_after);
        if (child_alive && (hz::is_dead(o.pid_after) || !hz::pid_exists(o.pid_after))) child_alive = false;
      }
    } else if (cfg.do_history) {
      if (o.hello && !fork_mode) pup.send(PUP_EXIT, 7);
      int w = reproc_wait(p, 3000);
      hist("wait(3000)", w);
      if (w == REPROC_ETIMEDOUT) {
        hist("kill", reproc_kill(p));
        w = reproc_wait(p, 3000);
        hist("wait(3000)", w);
      }
      o.final_status = w;
      int before_sigs = vs_nsig();
      hist("terminate", reproc_terminate(p));
      hist("kill", reproc_kill(p));
      hist("wait(0)", reproc_wait(p, 0));
      o.sig_count_after_reap = w >= 0 ? vs_nsig() - before_sigs : 0;
    }
  } else if (r < 0) {
    // ---- a handle whose start failed owns no process: terminate, kill, wait and pid refuse it and send nothing
    {
      int sigs0 = vs_nsig();
      uint32_t kills0 = vs_counts.calls[VS_KILL], waits0 = vs_counts.calls[VS_WAITPID];
      o.failed_handle_results[0] = reproc_terminate(p);
      o.failed_handle_results[1] = reproc_kill(p);
      o.failed_handle_results[2] = reproc_wait(p, 0);
      o.failed_handle_results[3] = reproc_pid(p);
      o.failed_handle_signals = (vs_nsig() - sigs0) + (int) (vs_counts.calls[VS_KILL] - kills0);
      o.failed_handle_reaps = (int) (vs_counts.calls[VS_WAITPID] - waits0);
      o.failed_handle_probed = true;
    }
    // ---- all-or-nothing: the handle must be startable again
    o.retried = true;
    hz::Puppet *pp = &pup;
    b.opt.deadline = 0;
    int r2 = reproc_start(p, argv, b.opt);
    if (fork_mode && r2 == 0) {
      detail::fork_child_report(fork_report);
      reproc_destroy(p);
      _exit(0);
    }
    o.r2 = r2;
    if (r2 > 0) {
      if (fork_mode) {
        for (int i = 0; i < 2000 && !o.hello2; i++) {
          o.hello2 = read_fork_report();
          if (!o.hello2) usleep(1000);
        }
      } else {
        o.hello2 = pp->wait_ready(10000, reproc_pid(p));
        if (o.hello2) {
          // the restarted handle must carry nothing over from the failed attempt
          usleep(12000);  // a deadline left over from the first attempt has expired by now
          reproc_event_source src = { p, REPROC_EVENT_EXIT, 0 };
          o.retry_poll = reproc_poll(&src, 1, 0);
          o.retry_events = src.events;
          pp->send(PUP_EXIT, 0);
        }
      }
      int w = reproc_wait(p, 3000);
      if (w == REPROC_ETIMEDOUT) {
        reproc_kill(p);
        reproc_wait(p, 3000);
      }
    }
  }
  reproc_destroy(p);
  setrlimit(RLIMIT_NOFILE, &rl);
  environ = saved_environ;
  o.ledger = hz::ledger_problems(fds_before, o.ledger_sig);
  for (int i = 0; i < vs_nviol(); i++) o.vs_violations.push_back(vs_viol(i));
  // strays (only after the verdict data has been collected)
  for (pid_t pid : o.forked)
    if (vs_is_live(pid)) hz::reap_quietly(pid);
  return o;
}

// Fault points of a scenario, from a fault-free run of it.
inline std::vector<FaultPoint> fault_points(const std::vector<vs_rec> &trace)
{
  std::vector<FaultPoint> pts;
  for (auto &r : trace) {
    if (r.fidx < 0 || r.probing) continue;
    if (fault_choices(r.fn, r).empty()) continue;
    pts.push_back({ r.side, r.fidx, r.fn, r });
  }
  return pts;
}

inline std::string fault_json(const std::vector<FaultSpec> &fs)
{
  std::vector<std::string> v;
  for (auto &f : fs)
    v.push_back(fw::J().kv("side", f.side == VS_PARENT ? "parent" : "child").kv("call_index", f.index).kv("call", f.fn >= 0 ? vs_fn_name[f.fn] : "?").kv("inject", f.name).str());
  return fw::jarr(v);
}

}  // namespace fe

// ------------------------------------------------------------ sweep table ---
namespace fe {

struct SweepEntry {
  int scenario;
  int point;    // index into points[scenario], -1 = fault-free run
  int choice;   // index into fault_choices
};

struct SweepTable {
  std::vector<std::vector<FaultPoint>> points;  // per scenario
  std::vector<SweepEntry> singles;
  long pair_cases = 0;  // thorough only
  bool ok = false;
  std::string error;
};

enum { PAIR_J_MAX = 48 };

// Runs the fault-free baseline of every scenario in a forked helper (process
// state is changed by the runs) and builds the enumeration.
inline SweepTable &table()
{
  static SweepTable t;
  if (t.ok || !t.error.empty()) return t;
  int p[2];
  if (pipe(p) != 0) {
    t.error = "pipe";
    return t;
  }
  std::string base = fw::scratch_dir() + "/discover";
  fw::rm_rf(base);
  mkdir(base.c_str(), 0755);
  fflush(nullptr);
  pid_t pid = fork();
  if (pid == 0) {
    close(p[0]);
    int out = fcntl(p[1], F_DUPFD_CLOEXEC, 950);
    close(p[1]);
    for (int s = 0; s < S_COUNT; s++) {
      // each scenario in its own grandchild: scenarios close descriptors, chdir, ...
      std::string root = base + "/s" + std::to_string(s);
      mkdir(root.c_str(), 0755);
      pid_t g = fork();
      if (g == 0) {
        RunConfig cfg;
        cfg.scenario = s;
        Obs o = run(cfg, root);
        std::string line;
        if (!o.setup_error.empty()) line = "E " + std::to_string(s) + " " + o.setup_error + "\n";
        for (auto &fp : fault_points(o.trace))
          line += "P " + std::to_string(s) + " " + std::to_string(fp.side) + " " + std::to_string(fp.index) + " " + std::to_string(fp.fn) + " " + std::to_string((long long) fp.rec.a0) + " " + std::to_string((long long) fp.rec.a1) + "\n";
        line += "D " + std::to_string(s) + " " + std::to_string(o.r) + "\n";
        hz::write_all(out, line.data(), line.size());
        _exit(0);
      }
      int st;
      waitpid(g, &st, 0);
    }
    _exit(0);
  }
  close(p[1]);
  std::string all;
  char buf[65536];
  ssize_t n;
  while ((n = read(p[0], buf, sizeof(buf))) > 0) all.append(buf, (size_t) n);
  close(p[0]);
  int st;
  waitpid(pid, &st, 0);
  fw::rm_rf(base);
  t.points.assign(S_COUNT, {});
  int done = 0;
  size_t pos = 0;
  while (pos < all.size()) {
    size_t e = all.find('\n', pos);
    if (e == std::string::npos) e = all.size();
    std::string line = all.substr(pos, e - pos);
    pos = e + 1;
    if (line.empty()) continue;
    if (line[0] == 'P') {
      int s, side, idx, fn;
      long long a0, a1;
      if (sscanf(line.c_str(), "P %d %d %d %d %lld %lld", &s, &side, &idx, &fn, &a0, &a1) == 6 && s >= 0 && s < S_COUNT) {
        FaultPoint fp;
        memset(&fp, 0, sizeof(fp));
        fp.side = side;
        fp.index = idx;
        fp.fn = fn;
        fp.rec.side = (uint8_t) side;
        fp.rec.fn = (uint8_t) fn;
        fp.rec.a0 = a0;
        fp.rec.a1 = a1;
        t.points[(size_t) s].push_back(fp);
      }
    } else if (line[0] == 'D') {
      done++;
    } else if (line[0] == 'E') {
      t.error = "baseline of a scenario failed to set up: " + line;
    }
  }
  if (done != S_COUNT && t.error.empty()) t.error = "only " + std::to_string(done) + " of " + std::to_string((int) S_COUNT) + " scenario baselines completed";
  if (!t.error.empty()) return t;
  bool thorough = fw::tier() == "thorough";
  for (int s = 0; s < S_COUNT; s++) {
    t.singles.push_back({ s, -1, 0 });
    for (size_t i = 0; i < t.points[(size_t) s].size(); i++) {
      auto ch = fault_choices(t.points[(size_t) s][i].fn, t.points[(size_t) s][i].rec);
      size_t lim = thorough ? ch.size() : std::min<size_t>(ch.size(), 2);
      for (size_t c = 0; c < lim; c++) t.singles.push_back({ s, (int) i, (int) c });
      // read() of the error report failing for good (not EINTR): only alone,
      // only where the start would otherwise succeed (with a child that fails
      // on its own the report is simply lost - two failures, K6), only without
      // assertions
      const FaultPoint &fp = t.points[(size_t) s][i];
      if (fp.fn == VS_READ && fp.side == VS_PARENT && !natural_failure(s) && asserts_off()) t.singles.push_back({ s, (int) i, CHOICE_READ_EIO });
    }
  }
  if (thorough) {
    long np = 0;
    for (int s = 0; s < S_COUNT; s++) np += (long) t.points[(size_t) s].size();
    t.pair_cases = np * PAIR_J_MAX;
  }
  t.ok = true;
  return t;
}

inline FaultSpec make_fault(const FaultPoint &fp, int choice)
{
  auto ch = fault_choices(fp.fn, fp.rec);
  static const FaultChoice read_eio = { VS_FK_ERRNO, EIO, 0, "EIO" };
  const FaultChoice &c = choice == CHOICE_READ_EIO ? read_eio : ch[(size_t) choice % ch.size()];
  FaultSpec f;
  f.side = fp.side;
  f.index = fp.index;
  f.fn = fp.fn;
  f.kind = c.kind;
  f.err = c.err;
  f.value = c.value;
  f.name = c.name;
  return f;
}

inline long sweep_total()
{
  SweepTable &t = table();
  if (!t.ok) return 0;
  return (long) t.singles.size() + t.pair_cases;
}

// The fault points reached AFTER the first fault of `cfg` has fired, on the path the
// library takes then (found by running that configuration once in a helper process).
inline bool discover_later_points(const RunConfig &cfg, const FaultSpec &f1, const std::string &root, std::vector<FaultPoint> &later)
{
  int p[2];
  if (pipe(p) != 0) return false;
  std::string droot = root + "/pair-discovery";
  mkdir(droot.c_str(), 0755);
  fflush(nullptr);
  pid_t pid = fork();
  if (pid == 0) {
    close(p[0]);
    int out = fcntl(p[1], F_DUPFD_CLOEXEC, 950);
    RunConfig c1 = cfg;
    c1.do_history = false;
    Obs o = run(c1, droot);
    std::string line;
    bool after = false;
    for (auto &fp : fault_points(o.trace)) {
      if (after) line += std::to_string(fp.side) + " " + std::to_string(fp.index) + " " + std::to_string(fp.fn) + " " + std::to_string((long long) fp.rec.a1) + "\n";
      if (fp.side == f1.side && fp.index == f1.index) after = true;
    }
    hz::write_all(out, line.data(), line.size());
    _exit(0);
  }
  close(p[1]);
  std::string all;
  char buf[16384];
  ssize_t n;
  while ((n = read(p[0], buf, sizeof(buf))) > 0) all.append(buf, (size_t) n);
  close(p[0]);
  int st;
  waitpid(pid, &st, 0);
  fw::rm_rf(droot);
  size_t pos = 0;
  while (pos < all.size()) {
    size_t e = all.find('\n', pos);
    if (e == std::string::npos) break;
    int side, idx, fn;
    long long a1;
    if (sscanf(all.c_str() + pos, "%d %d %d %lld", &side, &idx, &fn, &a1) == 4) {
      FaultPoint fp;
      memset(&fp, 0, sizeof(fp));
      fp.side = side;
      fp.index = idx;
      fp.fn = fn;
      fp.rec.side = (uint8_t) side;
      fp.rec.fn = (uint8_t) fn;
      fp.rec.a1 = a1;
      later.push_back(fp);
    }
    pos = e + 1;
  }
  return true;
}

// Decodes a sweep index into a run configuration. For pair cases the first
// fault is run alone to find the fault points on the *faulted* path, then the
// j-th point after it gets the second fault. Returns false if the index is
// beyond what exists (trivial case).
inline bool decode_sweep(long sweep, fw::Tape &t, RunConfig &cfg, const std::string &root, std::string &kind)
{
  SweepTable &tb = table();
  cfg.parent_signals = gen_parent_signals(t);
  if (sweep >= 1000000000L) {
    // named regression case, stable across changes of the call sequence:
    // 1e9 + scenario*1e6 + side*1e5 + fn*1000 + ordinal*10 + choice = "the
    // ordinal-th call of `fn` on that side"
    long k = sweep - 1000000000L;
    int choice = (int) (k % 10), ordinal = (int) (k / 10 % 100), fn = (int) (k / 1000 % 100), side = (int) (k / 100000 % 10), scen = (int) (k / 1000000);
    if (scen >= S_COUNT) return false;
    cfg.scenario = scen;
    int seen = 0;
    for (auto &fp : tb.points[(size_t) scen]) {
      if (fp.side == side && fp.fn == fn && seen++ == ordinal) {
        cfg.faults.push_back(make_fault(fp, choice));
        kind = "single-fault";
        maybe_touch_sigchld(t, cfg.parent_signals, cfg.faults, cfg.scenario);
        address_fork_by_ordinal(cfg.parent_signals, cfg.faults);
        return true;
      }
    }
    return false;
  }
  if (sweep < (long) tb.singles.size()) {
    const SweepEntry &e = tb.singles[(size_t) sweep];
    cfg.scenario = e.scenario;
    if (e.point >= 0) cfg.faults.push_back(make_fault(tb.points[(size_t) e.scenario][(size_t) e.point], e.choice));
    kind = e.point < 0 ? "fault-free" : "single-fault";
    maybe_touch_sigchld(t, cfg.parent_signals, cfg.faults, cfg.scenario);
    address_fork_by_ordinal(cfg.parent_signals, cfg.faults);
    return true;
  }
  long k = sweep - (long) tb.singles.size();
  long j = k % PAIR_J_MAX;
  k /= PAIR_J_MAX;
  int s = 0;
  while (s < S_COUNT && k >= (long) tb.points[(size_t) s].size()) {
    k -= (long) tb.points[(size_t) s].size();
    s++;
  }
  if (s >= S_COUNT) return false;
  cfg.scenario = s;
  FaultSpec f1 = make_fault(tb.points[(size_t) s][(size_t) k], (int) t.pick(2));
  cfg.faults.push_back(f1);
  kind = "fault-pair";
  std::vector<FaultPoint> later;
  if (!discover_later_points(cfg, f1, root, later)) return false;
  if (j >= (long) later.size()) return false;
  cfg.faults.push_back(make_fault(later[(size_t) j], (int) t.pick(2)));
  return true;
}

// Random configuration (used by the random campaigns of the four properties):
// random scenario, 0-2 faults at random points of its baseline.
inline void decode_random(fw::Tape &t, RunConfig &cfg, std::string &kind)
{
  SweepTable &tb = table();
  cfg.scenario = (int) t.pick(S_COUNT);
  cfg.parent_signals = gen_parent_signals(t);
  auto &pts = tb.points[(size_t) cfg.scenario];
  int nf = pts.empty() ? 0 : (int) t.weighted({ 2, 5, 3 });
  for (int i = 0; i < nf; i++) {
    const FaultPoint &fp = pts[t.pick((uint32_t) pts.size())];
    auto ch = fault_choices(fp.fn, fp.rec);
    cfg.faults.push_back(make_fault(fp, (int) t.pick((uint32_t) ch.size())));
  }
  // Half of the pairs: the second failure strikes in the clean-up that follows the first one - one of the next few
  // calls on the path the library takes once the first fault has fired (the baseline does not have that path).
  bool follow_up = false;
  if (nf == 2 && t.coin() && !fw::case_dir().empty()) {
    FaultSpec f1 = cfg.faults[0];
    cfg.faults.resize(1);
    std::vector<FaultPoint> later;
    RunConfig probe = cfg;
    if (discover_later_points(probe, f1, fw::case_dir(), later) && !later.empty()) {
      const FaultPoint &fp = later[t.pick((uint32_t) std::min<size_t>(later.size(), 8))];
      auto ch = fault_choices(fp.fn, fp.rec);
      cfg.faults.push_back(make_fault(fp, (int) t.pick((uint32_t) ch.size())));
      follow_up = true;
    } else nf = 1;
  }
  static const int limits[] = { 64, 64, 48, 256 };
  cfg.nofile_limit = limits[t.pick(4)];
  kind = nf == 0 ? "fault-free" : nf == 1 ? "single-fault" : follow_up ? "fault-pair:second-in-the-clean-up" : "fault-pair";
  maybe_touch_sigchld(t, cfg.parent_signals, cfg.faults, cfg.scenario);
  address_fork_by_ordinal(cfg.parent_signals, cfg.faults);
}

inline std::string obs_json(const Obs &o)
{
  std::vector<std::string> hist;
  for (auto &h : o.history) hist.push_back(fw::jstr(h));
  std::vector<std::string> fired;
  for (size_t i = 0; i < o.fired.size(); i++) fired.push_back(o.fired[i] ? "true" : "false");
  return fw::J().kv("scenario", scenario_name(o.scenario))
      .raw("faults", fault_json(o.faults))
      .raw("fired", fw::jarr(fired))
      .kv("start_result", o.r)
      .kv("program_reported", o.hello)
      .kv("retry_result", o.retried ? o.r2 : 0)
      .raw("history", fw::jarr(hist))
      .str();
}

}  // namespace fe
