// Ledger oracle shared by the puppet-based properties (C05 and, as a cheap
// side condition, everything else): what must be true when a handle has been
// destroyed (or a start has failed).
#pragma once

#include <string>

#include "common/fw.hpp"
#include "common/harness.hpp"
#include "vsys/vsys.h"

namespace hz {

// Returns "" when clean, else a description; `sig` gets a short signature.
// Children are not judged here: a child that was started successfully and never
// successfully waited for may legitimately remain (documented: the caller must
// wait); the properties that care (C04, C05 failed start; C15 default destroy)
// check that themselves.
inline std::string ledger_problems(const std::map<int, FdId> &fds_before, std::string &sig, bool check_children = false)
{
  std::string out;
  auto add = [&](const std::string &s, const std::string &m) {
    if (sig.empty()) sig = s;
    out += (out.empty() ? "" : "; ") + m;
  };
  for (int i = 0; i < vs_nviol(); i++) {
    std::string v = vs_viol(i);
    std::string s = "ledger:";
    if (v.find("foreign close") != std::string::npos) s += "foreign-close";
    else if (v.find("double close") != std::string::npos) s += "double-close";
    else if (v.find("second reap") != std::string::npos) s += "second-reap";
    else if (v.find("kill(") != std::string::npos) s += "bad-kill-target";
    else if (v.find("waitpid(") != std::string::npos) s += "bad-wait-target";
    else if (v.find("free of block") != std::string::npos) s += "bad-free";
    else s += "other";
    add(s, v);
  }
  int own[16];
  int n = vs_own_open_fds(own, 16);
  if (n > 0) {
    std::string l;
    for (int i = 0; i < n && i < 16; i++) l += " " + std::to_string(own[i]);
    add("ledger:fd-leak", "descriptors created by the library still open:" + l);
  }
  auto after = snapshot_self_fds();
  std::string d = fd_table_diff(fds_before, after);
  if (!d.empty()) add("ledger:fd-table-changed", "descriptor table differs from before reproc_new (+added ~replaced -closed):" + d);
  if (vs_heap_live_blocks() != 0)
    add("ledger:memory-leak", std::to_string(vs_heap_live_blocks()) + " block(s) / " + std::to_string(vs_heap_live_bytes()) + " byte(s) allocated by the library not released");
  if (check_children) {
    pid_t live[8];
    int nl = vs_live_children(live, 8);
    for (int i = 0; i < nl && i < 8; i++) {
      if (pid_exists(live[i]) && proc_state(live[i]) == 'Z')
        add("ledger:zombie", "child " + std::to_string(live[i]) + " left as a zombie");
    }
  }
  return out;
}

}  // namespace hz
