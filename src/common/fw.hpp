// Framework shared by all property targets. A property target defines
// `PropertyDef make_property()`; fw_main.cpp (the only TU that includes
// rapidcheck) supplies main(): random generation + shrinking through
// rapidcheck over a fixed-length "tape" of 32-bit words, deterministic sweeps,
// replay, per-case process isolation, result files.
#pragma once

#include <cstdint>
#include <cstdio>
#include <cstring>
#include <functional>
#include <map>
#include <string>
#include <vector>

namespace fw {

// ---------------------------------------------------------------- tape -----
// Every random choice of a case is decoded from the tape, which rapidcheck
// generates and shrinks (towards 0 = the simplest choice). Reading past the
// end yields 0.
class Tape {
public:
  explicit Tape(std::vector<uint32_t> words) : w_(std::move(words)) {}
  uint32_t next() { return pos_ < w_.size() ? w_[pos_++] : (pos_++, 0u); }
  // uniform in [0, n)
  uint32_t pick(uint32_t n) { return n <= 1 ? (next(), 0u) : next() % n; }
  bool coin() { return (next() & 1u) != 0; }
  // true with probability num/den (a zero word means false: zero is always
  // the simplest choice)
  bool chance(uint32_t num, uint32_t den) { return next() % den >= den - num; }
  // uniform in [lo, hi]
  int64_t range(int64_t lo, int64_t hi)
  {
    uint64_t span = (uint64_t) (hi - lo) + 1;
    uint64_t v = ((uint64_t) next() << 32) | next();
    return lo + (int64_t) (span == 0 ? v : v % span);
  }
  // index chosen with the given weights; index 0 is the "simplest"
  size_t weighted(std::initializer_list<uint32_t> ws)
  {
    uint32_t total = 0;
    for (uint32_t x : ws) total += x;
    uint32_t v = next() % (total ? total : 1);
    size_t i = 0;
    for (uint32_t x : ws) {
      if (v < x) return i;
      v -= x;
      i++;
    }
    return 0;
  }
  template <typename T> const T &choose(const std::vector<T> &v)
  {
    return v[pick((uint32_t) v.size())];
  }
  size_t used() const { return pos_; }
  const std::vector<uint32_t> &words() const { return w_; }

private:
  std::vector<uint32_t> w_;
  size_t pos_ = 0;
};

// ---------------------------------------------------------------- json -----
inline std::string jstr(const std::string &s)
{
  std::string o = "\"";
  for (unsigned char c : s) {
    switch (c) {
      case '"': o += "\\\""; break;
      case '\\': o += "\\\\"; break;
      case '\n': o += "\\n"; break;
      case '\t': o += "\\t"; break;
      case '\r': o += "\\r"; break;
      default:
        if (c < 0x20 || c >= 0x7f) {
          char b[8];
          snprintf(b, sizeof(b), "\\u%04x", c);
          o += b;
        } else {
          o += (char) c;
        }
    }
  }
  return o + "\"";
}

// Tiny JSON builder: J().kv("a", 1).kv("b", "x").str() -> {"a": 1, "b": "x"}
class J {
public:
  J &kv(const std::string &k, long long v) { return raw(k, std::to_string(v)); }
  J &kv(const std::string &k, unsigned long long v) { return raw(k, std::to_string(v)); }
  J &kv(const std::string &k, long v) { return raw(k, std::to_string(v)); }
  J &kv(const std::string &k, unsigned long v) { return raw(k, std::to_string(v)); }
  J &kv(const std::string &k, int v) { return raw(k, std::to_string(v)); }
  J &kv(const std::string &k, unsigned v) { return raw(k, std::to_string(v)); }
  J &kv(const std::string &k, bool v) { return raw(k, v ? "true" : "false"); }
  J &kv(const std::string &k, const char *v) { return raw(k, jstr(v)); }
  J &kv(const std::string &k, const std::string &v) { return raw(k, jstr(v)); }
  J &raw(const std::string &k, const std::string &json)
  {
    if (!body_.empty()) body_ += ", ";
    body_ += jstr(k) + ": " + json;
    return *this;
  }
  std::string str() const { return "{" + body_ + "}"; }

private:
  std::string body_;
};

inline std::string jarr(const std::vector<std::string> &items)
{
  std::string o = "[";
  for (size_t i = 0; i < items.size(); i++) {
    if (i) o += ", ";
    o += items[i];
  }
  return o + "]";
}

template <typename T> std::string jnums(const std::vector<T> &v)
{
  std::string o = "[";
  for (size_t i = 0; i < v.size(); i++) {
    if (i) o += ", ";
    o += std::to_string(v[i]);
  }
  return o + "]";
}

// Truncating display form of a byte string.
inline std::string jbytes(const std::string &s, size_t max = 48)
{
  if (s.size() <= max) return jstr(s);
  return jstr(s.substr(0, max) + "...(" + std::to_string(s.size()) + " bytes)");
}

inline uint64_t fnv(const void *p, size_t n, uint64_t h = 1469598103934665603ull)
{
  const unsigned char *c = (const unsigned char *) p;
  for (size_t i = 0; i < n; i++) h = (h ^ c[i]) * 1099511628211ull;
  return h;
}
inline uint64_t fnv(const std::string &s, uint64_t h = 1469598103934665603ull)
{
  return fnv(s.data(), s.size(), h);
}
inline uint64_t mix(uint64_t h, uint64_t v)
{
  return fnv(&v, sizeof(v), h);
}

// -------------------------------------------------------------- results ----
struct CaseResult {
  enum Kind { PASS = 0, FAIL = 1, INCONCLUSIVE = 2 };
  int kind = PASS;
  std::string msg;  // what failed (human readable)
  std::string sig;  // short signature of the failure (known-finding matching)
  bool nontrivial = false;
  uint64_t hash = 0;                  // identity for distinct counting
  // Set for cases of an enumeration that never repeats a case: counted, not
  // stored (millions of hashes would not fit a result file).
  bool unique_by_construction = false;
  std::vector<std::string> classes;   // classification labels hit by the case
  std::string describe = "{}";        // JSON text describing the case

  void fail(const std::string &signature, const std::string &message)
  {
    if (kind != FAIL) {
      kind = FAIL;
      sig = signature;
      msg = message;
    }
  }
  void inconclusive(const std::string &message)
  {
    if (kind == PASS) {
      kind = INCONCLUSIVE;
      msg = message;
    }
  }
  void cls(const std::string &c) { classes.push_back(c); }
};

struct PropertyDef {
  std::string id;
  // Run every case in a forked case process (crash containment, process-wide
  // state). In-process properties are faster and rely on the worker dying
  // visibly (the driver then reports the in-flight case).
  bool isolate = true;
  int case_timeout_s = 30;
  size_t tape_len = 256;
  // sweep < 0: random case decoded from the tape; sweep >= 0: deterministic
  // case number `sweep` (the tape still supplies the free dimensions).
  std::function<CaseResult(Tape &, long sweep)> run;
  std::function<long(const std::string &tier)> sweep_count = [](const std::string &) { return 0L; };
  // Called once in the worker before any case (e.g. build fixtures).
  std::function<void()> setup = [] {};
};

// Provided by each property target.
PropertyDef make_property();

// Environment helpers available to properties.
const std::string &scratch_dir();  // per-worker scratch directory (exists)
const std::string &tier();         // "quick" | "thorough"
const std::string &build_dir();    // /verif/build
bool known(const std::string &sig);  // signature listed as known finding
// Per-case directory (isolated properties): exists and is empty when the case
// starts, removed by the worker afterwards whatever the case process did.
const std::string &case_dir();
// Recursive removal that copes with trees deeper than PATH_MAX.
void rm_rf(const std::string &path);

}  // namespace fw
