// Engine V: a discrete-event scheduler with a *virtual* millisecond clock.
// clock_gettime, poll and every potentially blocking read/write/waitpid of the
// library go through it (vs_hooks), while pipes, signals, poll readiness and
// zombie/reap rules stay the real kernel's. Children are puppets that act only
// when the script says so and acknowledge every action, so "when" is exact.
#pragma once
#include <functional>

#include <cerrno>
#include <climits>
#include <csignal>
#include <cstring>
#include <fcntl.h>
#include <map>
#include <memory>
#include <poll.h>
#include <sys/wait.h>
#include <string>
#include <unistd.h>
#include <vector>

#include <reproc/reproc.h>

#include "common/harness.hpp"
#include "vsys/vsys.h"

namespace vt {

enum ActKind { A_WRITE, A_CLOSE, A_EXIT, A_RAISE, A_READ, A_CALL };

struct Action {
  int kid;
  int kind;
  uint32_t a;   // stream / exit code / signal
  uint64_t b;   // byte count
};

enum TermMode { TERM_DIE = 0, TERM_IGNORE = 1, TERM_DIE_AFTER = 2 };

struct Kid {
  hz::Puppet *pup = nullptr;
  pid_t pid = 0;
  int term_mode = TERM_DIE;
  int64_t term_delay = 0;
  bool alive = true;
  int64_t died_at = -1;
  int expected_status = -1;    // exit code, or 128 + signal
  uint64_t written[3] = { 0, 0, 0 };  // bytes the child really wrote per stream
  uint64_t queued[3] = { 0, 0, 0 };   // accepted by the script, not yet written (pipe full)
  bool closed[3] = { false, false, false };
  int64_t closed_at[3] = { -1, -1, -1 };
  int64_t first_write_at[3] = { -1, -1, -1 };
  uint64_t in_read = 0;        // bytes the child consumed from stdin
  bool in_eof = false;
  uint64_t in_mismatch = UINT64_MAX;
  int term_notes = 0;          // SIGTERM deliveries confirmed by the handler
};

struct SigEvent {
  int64_t at;
  pid_t pid;
  int sig;
  bool target_alive;
};

struct Episode {
  const char *what;   // "poll", "read", "write", "waitpid"
  int fd;
  int64_t start, end;
  bool hang;
  bool in_start;
};

const int64_t INF = INT64_MAX;

class World {
public:
  int64_t now = 1000000;
  std::vector<Kid> kids;
  std::multimap<int64_t, Action> agenda;
  std::vector<SigEvent> signals;
  std::vector<Episode> episodes;
  bool hang = false;          // an infinite wait met a world in which nothing will ever happen
  std::string hang_what;
  int64_t hang_at = -1;
  bool in_start = false;      // hooks stand back while reproc_start runs
  std::string trouble;        // harness-side problem (ack timeout ...): case is inconclusive
  int polls = 0;
  bool start_blocked = false; // a write inside reproc_start would have blocked
  // An implementation may wait "without bound" as an endless series of bounded
  // polls (a sliced wait loop). When nothing is scheduled any more and the
  // library has kept polling with finite timeouts for more than `horizon`
  // virtual ms since the world last changed, that is the same unbounded wait:
  // the property sets `horizon` above every finite bound its contract allows.
  int64_t horizon = 400000000;
  int64_t dry_since = -1;
  bool hang_by_horizon = false;
  // A poll that is blocked at this virtual time (or entered and blocked after
  // it) is interrupted once (EINTR), as by a signal the caller handles.
  int64_t intr_poll_at = -1;
  int64_t intr_fired_at = -1;
  // A clock that moves while the library computes: every reading costs `tick`
  // ms of virtual time (0: time passes inside waits only, which is what the
  // exact-duration oracles need). With a tick only bounds can be checked.
  int64_t tick = 0;
  uint64_t clock_reads = 0;

  static World *&current()
  {
    static World *w = nullptr;
    return w;
  }

  void install()
  {
    current() = this;
    memset(&vs_hooks, 0, sizeof(vs_hooks));
    vs_hooks.clock = h_clock;
    vs_hooks.poll = h_poll;
    vs_hooks.before_blocking_read = h_read;
    vs_hooks.blocking_write = h_write;
    vs_hooks.after_kill = h_kill;
    vs_hooks.before_waitpid = h_waitpid;
    vs_hooks.now = h_now;
  }
  void uninstall()
  {
    memset(&vs_hooks, 0, sizeof(vs_hooks));
    current() = nullptr;
  }

  int add_kid(hz::Puppet *pup, pid_t pid)
  {
    Kid k;
    k.pup = pup;
    k.pid = pid;
    kids.push_back(k);
    return (int) kids.size() - 1;
  }

  void set_term_mode(int kid, int mode, int64_t delay)
  {
    kids[(size_t) kid].term_mode = mode;
    kids[(size_t) kid].term_delay = delay;
    if (!kids[(size_t) kid].pup->cmd(PUP_TERM_MODE, (uint32_t) (mode == TERM_DIE ? 0 : mode == TERM_IGNORE ? 1 : 2))) trouble = "term-mode: " + kids[(size_t) kid].pup->error();
  }

  void schedule(int64_t at, int kid, int kind, uint32_t a = 0, uint64_t b = 0) { agenda.insert({ at, Action{ kid, kind, a, b } }); }
  // Something the test itself does at a virtual moment (it must have taken
  // effect - in real time - by the time it returns).
  std::vector<std::function<void()>> calls;
  void schedule_call(int64_t at, std::function<void()> fn)
  {
    calls.push_back(std::move(fn));
    agenda.insert({ at, Action{ -1, A_CALL, (uint32_t) calls.size() - 1, 0 } });
  }

  // Call before a library call whose blocking behaviour is judged: the dry
  // period (see `horizon`) is counted per call.
  void call_begins(int64_t new_horizon = -1)
  {
    dry_since = -1;
    if (new_horizon >= 0) horizon = new_horizon;
  }

  int64_t next_time() const { return agenda.empty() ? INF : agenda.begin()->first; }

  // Lets virtual time pass up to `t`, performing everything scheduled until then.
  void advance_to(int64_t t)
  {
    while (!agenda.empty() && agenda.begin()->first <= t) step();
    if (t > now) now = t;
  }

  // Performs the earliest scheduled action (virtual time jumps to it).
  void step()
  {
    if (agenda.empty()) return;
    auto it = agenda.begin();
    if (it->first > now) now = it->first;
    dry_since = -1;
    Action a = it->second;
    agenda.erase(it);
    perform(a);
  }

  void perform(const Action &a)
  {
    if (a.kind == A_CALL) {
      calls[a.a]();
      return;
    }
    Kid &k = kids[(size_t) a.kid];
    if (!k.alive) return;
    pup_ack ack;
    switch (a.kind) {
      case A_WRITE:
        if (k.closed[a.a]) return;
        if (!k.pup->cmd(PUP_WRITE, a.a, a.b, &ack)) {
          note_trouble(k, "write");
          return;
        }
        if (k.first_write_at[a.a] < 0 && ack.v[0] > 0) k.first_write_at[a.a] = now;
        k.written[a.a] = ack.v[0];
        k.queued[a.a] = ack.v[1];
        break;
      case A_CLOSE:
        if (k.closed[a.a]) return;
        if (!k.pup->cmd(PUP_CLOSE, a.a, 0, &ack)) {
          note_trouble(k, "close");
          return;
        }
        k.closed[a.a] = true;
        k.closed_at[a.a] = now;
        k.queued[a.a] = 0;
        break;
      case A_READ:
        if (!k.pup->cmd(PUP_READ, 0, a.b, &ack)) {
          note_trouble(k, "read");
          return;
        }
        k.in_read = ack.v[1];
        k.in_eof = ack.v[2] != 0;
        k.in_mismatch = ack.v[3];
        break;
      case A_EXIT:
        k.pup->send(PUP_EXIT, a.a);
        died(k, (int) (a.a & 0xff));
        break;
      case A_RAISE:
        k.pup->send(PUP_RAISE, a.a, a.b);  // b == 1: with a core file
        died(k, 128 + (int) a.a);
        break;
    }
  }

  // Children with queued output write as soon as there is room (a blocked
  // writer in real life); called whenever the parent may have made room.
  void pump()
  {
    for (auto &k : kids) {
      if (!k.alive) continue;
      for (uint32_t s = 1; s <= 2; s++) {
        if (k.queued[s] == 0 || k.closed[s]) continue;
        pup_ack ack;
        if (!k.pup->cmd(PUP_PUMP, s, 0, &ack)) {
          note_trouble(k, "pump");
          continue;
        }
        k.written[s] = ack.v[0];
        k.queued[s] = ack.v[1];
      }
    }
  }

  bool all_dead() const
  {
    for (auto &k : kids)
      if (k.alive) return false;
    return true;
  }

  Kid *kid_of(pid_t pid)
  {
    for (auto &k : kids)
      if (k.pid == pid) return &k;
    return nullptr;
  }

  // The world has run dry while the library waits without bound: record it and
  // really kill the children so that the call can return.
  void declare_hang(const char *what)
  {
    if (!hang) {
      hang = true;
      hang_what = what;
      hang_at = now;
    }
    for (auto &k : kids) {
      if (!k.alive) continue;
      kill(k.pid, SIGKILL);
      hz::wait_dead(k.pid, 10000);
      k.alive = false;
      k.died_at = now;
      k.expected_status = 128 + SIGKILL;
    }
  }

private:
  void note_trouble(Kid &k, const char *what)
  {
    if (hz::is_dead(k.pid) || !hz::pid_exists(k.pid)) {
      // the child died under us (e.g. killed by the library): not a harness problem
      k.alive = false;
      if (k.died_at < 0) k.died_at = now;
      return;
    }
    if (trouble.empty()) trouble = std::string(what) + ": " + k.pup->error();
  }

  void died(Kid &k, int status)
  {
    if (!hz::wait_dead(k.pid, 10000)) {
      if (trouble.empty()) trouble = "child did not die when told to";
      return;
    }
    k.alive = false;
    k.died_at = now;
    k.expected_status = status;
  }

  // Waits (in virtual time) until a real poll on `fds` reports something, the
  // timeout passes, or nothing can ever happen.
  // `interruptible`: a pending interruption (`intr_poll_at`) is delivered the
  // way a caught signal is: only to a wait that is really blocked (nothing
  // ready, a timeout other than 0), at the moment it arrives; the call then
  // fails with EINTR (return value -2 here).
  int wait_ready(struct pollfd *fds, nfds_t n, int timeout, const char *what, int fd_for_log, bool interruptible = false)
  {
    int64_t entry = now;
    int64_t wake = timeout < 0 ? INF : entry + timeout;
    bool waited = false;
    int guard = 0;
    for (;;) {
      pump();
      int r = ::poll(fds, n, 0);
      if (r != 0) {
        if (waited) episodes.push_back({ what, fd_for_log, entry, now, false, in_start });
        dry_since = -1;
        return r;
      }
      waited = true;
      int64_t next = next_time();
      if (interruptible && intr_poll_at >= 0 && timeout != 0 && intr_poll_at < wake && (next == INF || intr_poll_at < next)) {
        if (intr_poll_at > now) now = intr_poll_at;
        intr_poll_at = -1;
        intr_fired_at = now;
        episodes.push_back({ what, fd_for_log, entry, now, false, in_start });
        return -2;
      }
      if (next != INF && next <= wake) {
        step();
        continue;
      }
      if (wake == INF) {
        if (++guard > 3) {
          episodes.push_back({ what, fd_for_log, entry, now, true, in_start });
          return 0;
        }
        declare_hang(what);
        episodes.push_back({ what, fd_for_log, entry, now, true, in_start });
        continue;
      }
      if (next == INF && !all_dead()) {
        if (dry_since < 0) dry_since = entry;
        if (wake - dry_since > horizon && ++guard <= 3) {
          now = wake;
          hang_by_horizon = true;
          declare_hang(what);
          continue;
        }
      }
      now = wake;
      // back-to-back bounded waits on the same thing are one blocking episode
      if (!episodes.empty() && !episodes.back().hang && episodes.back().end == entry && episodes.back().fd == fd_for_log && episodes.back().in_start == in_start && !strcmp(episodes.back().what, what)) episodes.back().end = now;
      else episodes.push_back({ what, fd_for_log, entry, now, false, in_start });
      return 0;
    }
  }

  static int h_clock(int64_t *ms)
  {
    World *w = current();
    *ms = w->now;
    w->clock_reads++;
    if (w->tick > 0) w->advance_to(w->now + w->tick);
    return 1;
  }
  static int64_t h_now() { return current()->now; }

  static int h_poll(struct pollfd *fds, nfds_t n, int timeout, int *ret, int *err)
  {
    World *w = current();
    w->polls++;
    *ret = w->wait_ready(fds, n, timeout, "poll", -1, true);
    *err = 0;
    if (*ret == -2) {
      *ret = -1;
      *err = EINTR;
    } else if (*ret < 0) *err = errno;
    return 1;
  }

  static void h_read(int fd)
  {
    World *w = current();
    if (w->in_start) return;  // the error pipes of start: brief, real
    struct pollfd pf = { fd, POLLIN, 0 };
    w->wait_ready(&pf, 1, -1, "read", fd);
  }

  static int h_write(int fd, const void *buf, size_t n, ssize_t *ret, int *err)
  {
    World *w = current();
    int fl = fcntl(fd, F_GETFL);
    fcntl(fd, F_SETFL, fl | O_NONBLOCK);
    size_t done = 0;
    *err = 0;
    int64_t entry = w->now;
    bool waited = false;
    while (done < n || n == 0) {
      ssize_t r = ::write(fd, (const char *) buf + done, n - done);
      if (r >= 0) {
        done += (size_t) r;
        if (n == 0) break;
        continue;
      }
      if (errno == EINTR) continue;
      if (errno != EAGAIN) {
        *err = errno;
        break;
      }
      // would block
      waited = true;
      if (w->in_start) {
        // nothing can make room before the child exists: the real call would
        // never return. Record it and let the library see an error.
        w->start_blocked = true;
        w->episodes.push_back({ "write", fd, entry, w->now, true, true });
        *err = EAGAIN;
        break;
      }
      struct pollfd pf = { fd, POLLOUT, 0 };
      int pr = w->wait_ready(&pf, 1, -1, "write", fd);
      if (pr == 0) {
        *err = EPIPE;
        break;
      }
    }
    (void) waited;
    fcntl(fd, F_SETFL, fl);
    if (*err && done == 0) *ret = -1;
    else {
      *ret = (ssize_t) done;
      *err = 0;
    }
    return 1;
  }

  static void h_kill(pid_t pid, int sig, int ret)
  {
    World *w = current();
    Kid *k = w->kid_of(pid);
    w->signals.push_back({ w->now, pid, sig, k ? k->alive : false });
    w->dry_since = -1;
    if (!k || ret != 0 || !k->alive) return;
    if (sig == SIGKILL || (sig == SIGTERM && k->term_mode == TERM_DIE)) {
      if (!hz::wait_dead(pid, 10000)) {
        if (w->trouble.empty()) w->trouble = "signalled child did not die";
        return;
      }
      k->alive = false;
      k->died_at = w->now;
      k->expected_status = 128 + sig;
      return;
    }
    if (sig == SIGTERM) {
      pup_ack note;
      if (!k->pup->wait_note(&note, 10000)) {
        if (w->trouble.empty()) w->trouble = "no SIGTERM note from the child";
        return;
      }
      k->term_notes++;
      if (k->term_mode == TERM_DIE_AFTER && k->term_notes == 1)
        w->schedule(w->now + k->term_delay, (int) (k - &w->kids[0]), A_RAISE, SIGTERM, 0);
    }
  }

  static void h_waitpid(pid_t pid, int options)
  {
    World *w = current();
    if (w->in_start) return;
    if (options & WNOHANG) return;
    Kid *k = w->kid_of(pid);
    if (!k) return;
    // the real call returns at once for a stopped child when asked to report
    // stops too, and for a continued one when asked for that
    if ((options & WUNTRACED) && hz::proc_state(pid) == 'T') return;
    if (!hz::is_dead(pid)) {
      // a blocking reap of a child that is still running
      int64_t entry = w->now;
      while (!hz::is_dead(pid)) {
        if (w->next_time() == INF) {
          w->declare_hang("waitpid");
          break;
        }
        w->step();
      }
      w->episodes.push_back({ "waitpid", -1, entry, w->now, w->hang, false });
    }
  }
};

// A puppet started through the real reproc_start inside a World.
struct VChild {
  std::unique_ptr<hz::Puppet> pup;
  reproc_t *p = nullptr;
  int kid = -1;
  int pid = 0;
  int64_t t_start = 0;
  int start_result = 0;
  std::map<int, hz::FdId> fds_before;  // descriptor table right before reproc_new
};

// Starts a puppet with `opt` (hooks stand back during start), waits for its
// hello and registers it with the world. Returns "" on success.
// `fail_first`: if not NULL, a start of a missing program with these options is
// made on the same handle first (it must fail and leave nothing behind).
inline std::string start_puppet(World &w, const std::string &dir, reproc_options opt, VChild &c, const reproc_options *fail_first = nullptr)
{
  c.pup.reset(new hz::Puppet(dir));
  if (!c.pup->error().empty()) return "puppet: " + c.pup->error();
  const char *argv[] = { c.pup->exe().c_str(), "v", nullptr };
  c.fds_before = hz::snapshot_self_fds();
  c.p = reproc_new();
  if (fail_first) {
    std::string missing = dir + "/no-such-program";
    const char *bad[] = { missing.c_str(), nullptr };
    w.in_start = true;
    int fr = reproc_start(c.p, bad, *fail_first);
    w.in_start = false;
    if (fr >= 0) return "the start of a missing program returned " + std::to_string(fr);
  }
  c.t_start = w.now;
  w.in_start = true;
  c.start_result = reproc_start(c.p, argv, opt);
  w.in_start = false;
  if (c.start_result <= 0) return "";
  c.pid = reproc_pid(c.p);
  if (!c.pup->wait_ready(10000, c.pid)) return "not ready: " + c.pup->error();
  c.kid = w.add_kid(c.pup.get(), c.pid);
  return "";
}

}  // namespace vt
