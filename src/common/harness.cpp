#include "common/harness.hpp"

#include "common/fw.hpp"

#include <cerrno>
#include <cstdio>
#include <cstdlib>
#include <cstring>
#include <ctime>
#include <dirent.h>
#include <fcntl.h>
#include <poll.h>
#include <signal.h>
#include <sys/stat.h>
#include <sys/wait.h>
#include <unistd.h>

namespace hz {

static double mono()
{
  struct timespec ts;
  clock_gettime(CLOCK_MONOTONIC, &ts);
  return ts.tv_sec + ts.tv_nsec / 1e9;
}

std::string slurp(const std::string &path)
{
  std::string s;
  FILE *f = fopen(path.c_str(), "rb");
  if (!f) return s;
  char buf[65536];
  size_t n;
  while ((n = fread(buf, 1, sizeof(buf), f)) > 0) s.append(buf, n);
  fclose(f);
  return s;
}

bool write_all(int fd, const void *p, size_t n)
{
  const char *c = (const char *) p;
  while (n > 0) {
    ssize_t w = write(fd, c, n);
    if (w < 0) {
      if (errno == EINTR) continue;
      return false;
    }
    c += w;
    n -= (size_t) w;
  }
  return true;
}

namespace {
struct Rd {
  const std::string &s;
  size_t pos = 0;
  bool ok = true;
  explicit Rd(const std::string &str) : s(str) {}
  void get(void *p, size_t n)
  {
    if (pos + n > s.size()) {
      ok = false;
      memset(p, 0, n);
      return;
    }
    memcpy(p, s.data() + pos, n);
    pos += n;
  }
  uint32_t u32()
  {
    uint32_t v;
    get(&v, 4);
    return v;
  }
  uint64_t u64()
  {
    uint64_t v;
    get(&v, 8);
    return v;
  }
  std::string str()
  {
    uint32_t n = u32();
    if (!ok || pos + n > s.size()) {
      ok = false;
      return "";
    }
    std::string r = s.substr(pos, n);
    pos += n;
    return r;
  }
};
}  // namespace

bool parse_hello(const std::string &path, Hello &h, std::string &err)
{
  std::string s = slurp(path);
  if (s.size() < 8 || memcmp(s.data(), PUP_HELLO_MAGIC, 8) != 0) {
    err = "hello file missing or malformed: " + path;
    return false;
  }
  Rd r(s);
  r.pos = 8;
  uint32_t argc = r.u32();
  for (uint32_t i = 0; i < argc && r.ok; i++) h.argv.push_back(r.str());
  uint32_t envc = r.u32();
  for (uint32_t i = 0; i < envc && r.ok; i++) h.envp.push_back(r.str());
  h.cwd = r.str();
  h.cwd_dev = r.u64();
  h.cwd_ino = r.u64();
  h.exe = r.str();
  uint32_t nfds = r.u32();
  for (uint32_t i = 0; i < nfds && r.ok; i++) {
    struct {
      int32_t fd;
      uint64_t dev, ino, rdev;
      uint32_t mode;
      int32_t fl, fdfl;
    } raw;
    r.get(&raw, sizeof(raw));
    FdInfo f;
    f.fd = raw.fd;
    f.dev = raw.dev;
    f.ino = raw.ino;
    f.rdev = raw.rdev;
    f.mode = raw.mode;
    f.fl = raw.fl;
    f.fdfl = raw.fdfl;
    h.fds.push_back(f);
  }
  h.sigblk = r.u64();
  h.sigign = r.u64();
  h.sigcgt = r.u64();
  h.pid = (int) r.u32();
  h.ppid = (int) r.u32();
  if (!r.ok) {
    err = "hello file truncated";
    return false;
  }
  return true;
}

FdId fd_id(int fd)
{
  FdId id;
  struct stat st;
  if (fstat(fd, &st) != 0) return id;
  id.open = true;
  id.dev = st.st_dev;
  id.ino = st.st_ino;
  id.rdev = st.st_rdev;
  id.mode = st.st_mode;
  id.fl = fcntl(fd, F_GETFL);
  id.fdfl = fcntl(fd, F_GETFD);
  return id;
}

std::map<int, FdId> snapshot_self_fds()
{
  std::map<int, FdId> m;
  DIR *d = opendir("/proc/self/fd");
  if (!d) return m;
  int self = dirfd(d);
  struct dirent *e;
  while ((e = readdir(d)) != nullptr) {
    if (e->d_name[0] < '0' || e->d_name[0] > '9') continue;
    int fd = atoi(e->d_name);
    if (fd == self) continue;
    m[fd] = fd_id(fd);
  }
  closedir(d);
  return m;
}

std::string fd_table_diff(const std::map<int, FdId> &before, const std::map<int, FdId> &after)
{
  std::string d;
  for (auto &kv : after) {
    auto it = before.find(kv.first);
    if (it == before.end()) d += " +" + std::to_string(kv.first);
    else if (!it->second.same_object(kv.second)) d += " ~" + std::to_string(kv.first);
  }
  for (auto &kv : before)
    if (!after.count(kv.first)) d += " -" + std::to_string(kv.first);
  return d;
}

std::string mkdir_unique(const std::string &base, const std::string &prefix)
{
  static unsigned long counter = 0;
  for (;;) {
    std::string p = base + "/" + prefix + "-" + std::to_string(getpid()) + "-" + std::to_string(counter++);
    if (mkdir(p.c_str(), 0755) == 0) return p;
    if (errno != EEXIST) {
      perror(p.c_str());
      abort();
    }
  }
}

void rm_rf(const std::string &path) { fw::rm_rf(path); }

std::string puppet_source_binary()
{
  static std::string cached;
  if (!cached.empty()) return cached;
  std::string src = fw::build_dir() + "/puppet";
  // hardlinks need the same filesystem as the scratch directory
  std::string probe = fw::scratch_dir() + "/puppet.bin";
  if (link(src.c_str(), probe.c_str()) == 0 || errno == EEXIST) {
    cached = probe;
    return cached;
  }
  std::string data = slurp(src);
  if (data.empty()) {
    fprintf(stderr, "cannot read puppet binary %s\n", src.c_str());
    abort();
  }
  int fd = open(probe.c_str(), O_WRONLY | O_CREAT | O_TRUNC, 0755);
  if (fd < 0 || !write_all(fd, data.data(), data.size())) {
    perror("copy puppet");
    abort();
  }
  close(fd);
  cached = probe;
  return cached;
}

Puppet::Puppet(const std::string &dir) : dir_(dir)
{
  if (mkdir(dir_.c_str(), 0755) != 0) {
    err_ = "mkdir " + dir_ + ": " + strerror(errno);
    return;
  }
  exe_ = dir_ + "/puppet";
  std::string src = puppet_source_binary();
  if (link(src.c_str(), exe_.c_str()) != 0) {
    err_ = "link puppet: " + std::string(strerror(errno));
    return;
  }
  if (mkfifo((dir_ + "/cmd").c_str(), 0600) != 0 || mkfifo((dir_ + "/ack").c_str(), 0600) != 0) {
    err_ = "mkfifo: " + std::string(strerror(errno));
    return;
  }
  // O_RDWR never blocks on a FIFO (Linux) and keeps both directions alive.
  int c = open((dir_ + "/cmd").c_str(), O_RDWR | O_CLOEXEC);
  int a = open((dir_ + "/ack").c_str(), O_RDWR | O_CLOEXEC);
  // keep the control descriptors out of the low numbers the cases play with
  cmd_ = c >= 0 ? fcntl(c, F_DUPFD_CLOEXEC, 700) : -1;
  ack_ = a >= 0 ? fcntl(a, F_DUPFD_CLOEXEC, 700) : -1;
  if (c >= 0) close(c);
  if (a >= 0) close(a);
  if (cmd_ < 0 || ack_ < 0) err_ = "open fifo: " + std::string(strerror(errno));
}

Puppet::~Puppet()
{
  if (cmd_ >= 0) close(cmd_);
  if (ack_ >= 0) close(ack_);
  for (auto &p : planted_) unlink(p.c_str());
  rm_rf(dir_);
}

std::string Puppet::plant(const std::string &where, const std::string &name)
{
  std::string p = where + "/" + name;
  std::string src = puppet_source_binary();
  if (link(src.c_str(), p.c_str()) != 0) {
    err_ = "plant link: " + std::string(strerror(errno));
    return "";
  }
  planted_.push_back(p);
  std::string ctl = where + "/ctl";
  unlink(ctl.c_str());
  if (symlink(dir_.c_str(), ctl.c_str()) == 0) planted_.push_back(ctl);
  return p;
}

bool Puppet::read_msg(pup_ack *m, int timeout_ms, pid_t watch)
{
  double end = mono() + timeout_ms / 1000.0;
  size_t got = 0;
  while (got < sizeof(*m)) {
    double left = end - mono();
    if (left <= 0) {
      err_ = "timeout waiting for the puppet";
      return false;
    }
    struct pollfd pf = { ack_, POLLIN, 0 };
    int slice = (int) (left * 1000) + 1;
    if (watch > 0 && slice > 20) slice = 20;
    int r = poll(&pf, 1, slice);
    if (r < 0) {
      if (errno == EINTR) continue;
      err_ = "poll ack: " + std::string(strerror(errno));
      return false;
    }
    if (r == 0) {
      if (watch > 0 && (is_dead(watch) || !pid_exists(watch))) {
        // one last look: the message may have been written just before death
        struct pollfd pf2 = { ack_, POLLIN, 0 };
        if (poll(&pf2, 1, 0) <= 0) {
          err_ = "the process died without reporting";
          return false;
        }
      }
      continue;
    }
    ssize_t n = read(ack_, (char *) m + got, sizeof(*m) - got);
    if (n < 0) {
      if (errno == EINTR || errno == EAGAIN) continue;
      err_ = "read ack: " + std::string(strerror(errno));
      return false;
    }
    got += (size_t) n;
  }
  return true;
}

bool Puppet::wait_ready(int timeout_ms, pid_t pid)
{
  pup_ack m;
  for (;;) {
    if (!read_msg(&m, timeout_ms, pid)) {
      std::string pe = slurp(dir_ + "/puppet-error");
      if (!pe.empty()) err_ += " (puppet: " + pe + ")";
      return false;
    }
    if (m.kind == PUP_NOTE_TERM) {
      notes_.push_back(m);
      continue;
    }
    if (m.kind == PUP_READY) break;
  }
  if (!parse_hello(dir_ + "/hello", hello_, err_)) return false;
  ready_ = true;
  return true;
}

bool Puppet::send(uint32_t op, uint32_t a, uint64_t b, uint64_t c, uint64_t d, uint64_t e)
{
  pup_cmd cm;
  memset(&cm, 0, sizeof(cm));
  cm.op = op;
  cm.a = a;
  cm.b = b;
  cm.c = c;
  cm.d = d;
  cm.e = e;
  if (!write_all(cmd_, &cm, sizeof(cm))) {
    err_ = "write cmd: " + std::string(strerror(errno));
    return false;
  }
  return true;
}

bool Puppet::cmd(uint32_t op, uint32_t a, uint64_t b, uint64_t c, uint64_t d, uint64_t e, pup_ack *ack, int timeout_ms)
{
  if (!send(op, a, b, c, d, e)) return false;
  pup_ack m;
  for (;;) {
    if (!read_msg(&m, timeout_ms)) return false;
    if (m.kind == PUP_NOTE_TERM) {
      notes_.push_back(m);
      continue;
    }
    if (m.kind == PUP_ACK && m.op == op) break;
  }
  if (ack) *ack = m;
  return true;
}

bool Puppet::has_note()
{
  if (!notes_.empty()) return true;
  struct pollfd pf = { ack_, POLLIN, 0 };
  return poll(&pf, 1, 0) > 0;
}

bool Puppet::wait_note(pup_ack *note, int timeout_ms)
{
  if (!notes_.empty()) {
    if (note) *note = notes_.front();
    notes_.pop_front();
    return true;
  }
  pup_ack m;
  for (;;) {
    if (!read_msg(&m, timeout_ms)) return false;
    if (m.kind == PUP_NOTE_TERM) {
      if (note) *note = m;
      return true;
    }
  }
}

bool Puppet::read_result(std::map<std::string, long long> &out)
{
  std::string s = slurp(dir_ + "/result");
  if (s.empty()) return false;
  size_t p = 0;
  while ((p = s.find('"', p)) != std::string::npos) {
    size_t e = s.find('"', p + 1);
    if (e == std::string::npos) break;
    std::string key = s.substr(p + 1, e - p - 1);
    size_t c = s.find(':', e);
    if (c == std::string::npos) break;
    out[key] = strtoll(s.c_str() + c + 1, nullptr, 10);
    p = c + 1;
  }
  return true;
}

bool is_dead(pid_t pid)
{
  siginfo_t si;
  memset(&si, 0, sizeof(si));
  int r = waitid(P_PID, (id_t) pid, &si, WEXITED | WNOHANG | WNOWAIT);
  return r == 0 && si.si_pid == pid;
}

bool wait_dead(pid_t pid, int timeout_ms)
{
  double end = mono() + timeout_ms / 1000.0;
  useconds_t nap = 50;
  for (;;) {
    if (is_dead(pid)) return true;
    if (kill(pid, 0) != 0 && errno == ESRCH) return true;  // not ours / gone
    if (mono() > end) return false;
    usleep(nap);
    if (nap < 2000) nap *= 2;
  }
}

char proc_state(pid_t pid)
{
  std::string s = slurp("/proc/" + std::to_string(pid) + "/stat");
  if (s.empty()) return 0;
  size_t p = s.rfind(')');
  if (p == std::string::npos || p + 2 >= s.size()) return 0;
  return s[p + 2];
}

bool pid_exists(pid_t pid) { return proc_state(pid) != 0; }

void reap_quietly(pid_t pid)
{
  if (pid <= 0) return;
  kill(pid, SIGKILL);
  int st;
  while (waitpid(pid, &st, 0) < 0 && errno == EINTR) {
  }
}

std::string hex_sigset(uint64_t v)
{
  char b[32];
  snprintf(b, sizeof(b), "%016llx", (unsigned long long) v);
  return b;
}

}  // namespace hz
