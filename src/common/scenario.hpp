// Start scenarios for the real engine: a plan (effective redirect per stream,
// how it is expressed in the options, shorthands, other options), the
// resources that realise it (user files, handles, FILE*), and the identity
// oracle for the child's standard streams (C10), reused by the fault
// enumeration properties to vary the call sequence of reproc_start.
#pragma once

#include <cstdio>
#include <cstring>
#include <fcntl.h>
#include <string>
#include <sys/stat.h>
#include <sys/sysmacros.h>
#include <unistd.h>
#include <vector>

#include <reproc/reproc.h>

#include "common/fw.hpp"
#include "common/harness.hpp"
#include "model/options_model.hpp"

namespace sc {

using model::T_DEFAULT;
using model::T_DISCARD;
using model::T_FILE;
using model::T_HANDLE;
using model::T_PARENT;
using model::T_PATH;
using model::T_PIPE;
using model::T_STDOUT;

enum Shorthand { SH_NONE = 0, SH_PARENT, SH_DISCARD, SH_FILE, SH_PATH };

struct Plan {
  int eff[3] = { T_PIPE, T_PIPE, T_PARENT };  // effective redirect wanted per stream
  bool unset[3] = { false, false, false };    // leave this stream's redirect entirely unset
  bool field_only[3] = { false, false, false };  // handle/file/path: set only the field, not the type
  int shorthand = SH_NONE;
  bool nonblocking = false;
  long input_size = -1;  // -1 = no start-up input
  bool fork = false;
  // placement of user objects: 0 = moved to high descriptor numbers, 1 = wherever they land
  int place[3] = { 0, 0, 0 };
  // forced low descriptor number for a user handle (-1 = none): dup2'ed there if free
  int force_fd[3] = { -1, -1, -1 };
  int deadline = 0;
  bool in_path_fresh = false;  // a path redirect for stdin names a file that does not exist yet ("will create or open the file")
  reproc_stop_actions stop = { { REPROC_STOP_WAIT, 2000 }, { REPROC_STOP_KILL, 2000 }, { REPROC_STOP_NOOP, 0 } };
};

// What a stream gets when it is left unset under a shorthand.
inline int default_eff(int stream, int shorthand)
{
  if (stream != 0 && shorthand == SH_FILE) return T_FILE;
  if (stream != 0 && shorthand == SH_PATH) return T_PATH;
  if (shorthand == SH_PARENT) return T_PARENT;
  if (shorthand == SH_DISCARD) return T_DISCARD;
  return stream == 2 ? T_PARENT : T_PIPE;
}

// Is (eff, shorthand) expressible, and which streams are then left unset?
// Returns false if the shorthand cannot be combined with these effective types.
inline bool apply_shorthand(Plan &p, int shorthand)
{
  p.shorthand = shorthand;
  if (shorthand == SH_FILE || shorthand == SH_PATH) {
    int want = shorthand == SH_FILE ? T_FILE : T_PATH;
    if (p.eff[1] != want || p.eff[2] != want) return false;
    p.unset[1] = p.unset[2] = true;
    p.unset[0] = p.eff[0] == T_PIPE;
    return true;
  }
  bool any = false;
  for (int s = 0; s < 3; s++) {
    p.unset[s] = p.eff[s] == default_eff(s, shorthand);
    any = any || p.unset[s];
  }
  // a shorthand that no stream uses is legal but pointless; still a variant
  // worth running for parent/discard (documented as "when type is unset")
  return shorthand == SH_NONE ? any : any;
}

struct Expect {
  // identity the child's descriptor s must have; kind selects the comparison
  enum Kind { PIPE, OBJECT, NULLDEV, SAME_AS_STDOUT } kind = PIPE;
  hz::FdId obj;   // for OBJECT
  int accmode = -1;  // required O_ACCMODE of the child's descriptor, -1 = any
  // OBJECT for a parent stream whose number was closed and then re-used by an
  // unrelated user object: "the parent has none" (null device) is an equally
  // defensible reading, so both are accepted.
  bool alt_nulldev = false;
};

class Built {
public:
  reproc_options opt;
  Expect expect[3];
  std::string err;
  std::vector<int> user_fds;     // raw descriptors the "user" owns (closed by the destructor)
  std::vector<FILE *> user_files;
  // every user-owned descriptor (handles and fileno of FILEs) with its identity
  // at build time: must stay open and unchanged across all library calls
  std::vector<int> watch_fds;
  std::vector<hz::FdId> watch_ids;
  std::vector<std::string> paths;
  std::vector<uint8_t> input;

  Built() { memset(&opt, 0, sizeof(opt)); }
  ~Built()
  {
    for (FILE *f : user_files)
      if (f) fclose(f);
    for (int fd : user_fds)
      if (fd >= 0) close(fd);
  }
  Built(const Built &) = delete;
  Built &operator=(const Built &) = delete;
};

inline std::string touch(const std::string &path, const std::string &content = "")
{
  int fd = open(path.c_str(), O_WRONLY | O_CREAT | O_TRUNC, 0644);
  if (fd >= 0) {
    if (!content.empty()) hz::write_all(fd, content.data(), content.size());
    close(fd);
  }
  return path;
}

inline int move_high(int fd)
{
  int hi = fcntl(fd, F_DUPFD, 600);
  if (hi < 0) return fd;
  close(fd);
  return hi;
}

// Realises the plan. Must be called after the parent's descriptors 0-2 have
// been arranged, directly before reproc_start (expectations for PARENT are
// taken from the descriptor table as it is now).
inline bool build(const Plan &p, const std::string &dir, Built &b)
{
  reproc_redirect *ro[3] = { &b.opt.redirect.in, &b.opt.redirect.out, &b.opt.redirect.err };
  b.paths.resize(8);
  // shorthand objects
  FILE *sfile = nullptr;
  if (p.shorthand == SH_FILE) {
    b.paths[6] = touch(dir + "/shorthand-file");
    sfile = fopen(b.paths[6].c_str(), "w");
    if (!sfile) {
      b.err = "fopen shorthand file";
      return false;
    }
    b.user_files.push_back(sfile);
    b.opt.redirect.file = sfile;
  }
  if (p.shorthand == SH_PATH) {
    b.paths[7] = dir + "/shorthand-path";
    b.opt.redirect.path = b.paths[7].c_str();
  }
  b.opt.redirect.parent = p.shorthand == SH_PARENT;
  b.opt.redirect.discard = p.shorthand == SH_DISCARD;

  for (int s = 0; s < 3; s++) {
    int eff = p.eff[s];
    Expect &e = b.expect[s];
    const int mode = s == 0 ? O_RDONLY : O_WRONLY;
    switch (eff) {
      case T_PIPE:
        e.kind = Expect::PIPE;
        e.accmode = mode;
        if (!p.unset[s]) ro[s]->type = REPROC_REDIRECT_PIPE;
        break;
      case T_PARENT:
        if (!p.unset[s]) ro[s]->type = REPROC_REDIRECT_PARENT;
        // filled in below from the descriptor table as it is at call time
        break;
      case T_DISCARD:
        e.kind = Expect::NULLDEV;
        e.accmode = mode;
        if (!p.unset[s]) ro[s]->type = REPROC_REDIRECT_DISCARD;
        break;
      case T_STDOUT:
        e.kind = Expect::SAME_AS_STDOUT;
        ro[s]->type = REPROC_REDIRECT_STDOUT;
        break;
      case T_HANDLE: {
        std::string path = touch(dir + "/handle-" + std::to_string(s), s == 0 ? "handle-input\n" : "");
        int fd = open(path.c_str(), s == 0 ? O_RDONLY : O_WRONLY);
        if (fd < 0) {
          b.err = "open handle target";
          return false;
        }
        if (p.force_fd[s] >= 0 && fcntl(p.force_fd[s], F_GETFD) < 0) {
          if (fd != p.force_fd[s]) {
            dup2(fd, p.force_fd[s]);
            close(fd);
            fd = p.force_fd[s];
          }
        } else if (p.place[s] == 0 || fd == 0) {
          // 0 means "unset" in this API: a handle can never be descriptor 0
          fd = move_high(fd);
        }
        b.user_fds.push_back(fd);
        ro[s]->handle = fd;
        if (!p.field_only[s]) ro[s]->type = REPROC_REDIRECT_HANDLE;
        e.kind = Expect::OBJECT;
        e.obj = hz::fd_id(fd);
        break;
      }
      case T_FILE: {
        if (p.unset[s]) {  // via the shorthand
          e.kind = Expect::OBJECT;
          e.obj = hz::fd_id(fileno(sfile));
          break;
        }
        std::string path = touch(dir + "/file-" + std::to_string(s), s == 0 ? "file-input\n" : "");
        FILE *f = fopen(path.c_str(), s == 0 ? "r" : "w");
        if (!f) {
          b.err = "fopen file target";
          return false;
        }
        b.user_files.push_back(f);
        ro[s]->file = f;
        if (!p.field_only[s]) ro[s]->type = REPROC_REDIRECT_FILE;
        e.kind = Expect::OBJECT;
        e.obj = hz::fd_id(fileno(f));
        break;
      }
      case T_PATH: {
        if (p.unset[s]) {  // via the shorthand: created by the library
          e.kind = Expect::OBJECT;
          e.accmode = mode;
          e.obj.open = false;  // resolved after start from stat(path)
          break;
        }
        b.paths[(size_t) s] = dir + "/path-" + std::to_string(s);
        if (s == 0 && !p.in_path_fresh) touch(b.paths[(size_t) s], "path-input\n");
        ro[s]->path = b.paths[(size_t) s].c_str();
        if (!p.field_only[s]) ro[s]->type = REPROC_REDIRECT_PATH;
        e.kind = Expect::OBJECT;
        e.accmode = mode;
        e.obj.open = false;
        break;
      }
      default:
        b.err = "bad effective type";
        return false;
    }
  }
  // identities of user descriptors (for the "stays open and unchanged" clause)
  b.watch_fds = b.user_fds;
  for (FILE *f : b.user_files) b.watch_fds.push_back(fileno(f));
  b.watch_ids.clear();
  for (int fd : b.watch_fds) b.watch_ids.push_back(hz::fd_id(fd));
  // PARENT expectations from the table as it is now (all user objects exist)
  for (int s = 0; s < 3; s++) {
    if (p.eff[s] != T_PARENT) continue;
    hz::FdId cur = hz::fd_id(s);
    if (cur.open) {
      b.expect[s].kind = Expect::OBJECT;
      b.expect[s].obj = cur;
    } else {
      b.expect[s].kind = Expect::NULLDEV;
      b.expect[s].accmode = s == 0 ? O_RDONLY : O_WRONLY;
    }
  }
  b.opt.nonblocking = p.nonblocking;
  b.opt.fork = p.fork;
  b.opt.deadline = p.deadline;
  b.opt.stop = p.stop;
  if (p.input_size >= 0) {
    b.input.resize((size_t) p.input_size + 1);
    for (long i = 0; i < p.input_size; i++) b.input[(size_t) i] = pup_pattern(0, (uint64_t) i);
    b.opt.input.data = b.input.data();
    b.opt.input.size = (size_t) p.input_size;
  }
  return true;
}

inline bool is_nulldev(const hz::FdInfo &f) { return S_ISCHR(f.mode) && major(f.rdev) == 1 && minor(f.rdev) == 3; }

// The user's objects (and, where open, the parent's 0-2) must be untouched.
inline std::string check_user_objects(const Built &b, std::string &sig)
{
  for (size_t i = 0; i < b.watch_fds.size(); i++) {
    hz::FdId now = hz::fd_id(b.watch_fds[i]);
    if (!now.open) {
      sig = "user-object-closed";
      return "user-owned descriptor " + std::to_string(b.watch_fds[i]) + " was closed by the library";
    }
    if (!now.same_object(b.watch_ids[i])) {
      sig = "user-object-replaced";
      return "user-owned descriptor " + std::to_string(b.watch_fds[i]) + " now refers to a different object";
    }
  }
  return "";
}

inline const char *stream_name(int s) { return s == 0 ? "stdin" : s == 1 ? "stdout" : "stderr"; }

// C10 identity oracle. `parent_pipe_ino[s]`: inode of the pipe whose parent
// end the library holds for stream s (0 = none found).
inline std::string check_child_streams(const Plan &p, const Built &b, const hz::Hello &h, std::string &sig)
{
  for (int s = 0; s < 3; s++) {
    const hz::FdInfo *c = h.fd(s);
    std::string nm = stream_name(s);
    if (!c) {
      sig = "stream-closed-in-child";
      return "the child's " + nm + " is not open at all (wanted " + model::type_name(p.eff[s]) + ")";
    }
    const Expect &e = b.expect[s];
    int acc = c->fl & O_ACCMODE;
    switch (e.kind) {
      case Expect::PIPE:
        if (!S_ISFIFO(c->mode)) {
          sig = "not-a-pipe";
          return "the child's " + nm + " should be a pipe but is not";
        }
        break;
      case Expect::NULLDEV:
        if (!is_nulldev(*c)) {
          sig = p.eff[s] == T_PARENT ? "parent-absent-not-nulldev" : "not-nulldev";
          return "the child's " + nm + " should be the null device (" + (p.eff[s] == T_PARENT ? "the parent has no such stream" : "discard") + ") but is something else";
        }
        break;
      case Expect::SAME_AS_STDOUT: {
        const hz::FdInfo *o = h.fd(1);
        if (!o || o->dev != c->dev || o->ino != c->ino) {
          sig = "stderr-not-stdout";
          return "the child's stderr is not the same object as the child's stdout";
        }
        break;
      }
      case Expect::OBJECT: {
        hz::FdId want = e.obj;
        if (!want.open && p.eff[s] == T_PATH) {
          struct stat st;
          const std::string &path = p.unset[s] ? b.paths[7] : b.paths[(size_t) s];
          if (stat(path.c_str(), &st) != 0) {
            sig = "path-not-created";
            return "the path for " + nm + " does not exist after start";
          }
          want.open = true;
          want.dev = st.st_dev;
          want.ino = st.st_ino;
        }
        if (e.alt_nulldev && is_nulldev(*c)) break;
        if (c->dev != want.dev || c->ino != want.ino) {
          sig = std::string("wrong-object:") + model::type_name(p.eff[s]);
          return "the child's " + nm + " is not the requested object (" + model::type_name(p.eff[s]) + ")";
        }
        break;
      }
    }
    if (e.accmode >= 0 && acc != e.accmode && acc != O_RDWR) {
      sig = "wrong-direction";
      return "the child's " + nm + " (" + model::type_name(p.eff[s]) + ") is open with the wrong access mode";
    }
    if (e.accmode >= 0 && acc == O_RDWR && p.eff[s] != T_HANDLE) {
      sig = "wrong-direction";
      return "the child's " + nm + " (" + model::type_name(p.eff[s]) + ") is open read-write instead of " + (s == 0 ? "read-only" : "write-only");
    }
  }
  return "";
}

inline std::string plan_json(const Plan &p)
{
  auto st = [&](int s) {
    return fw::J().kv("effective", model::type_name(p.eff[s])).kv("unset", p.unset[s]).kv("field_only", p.field_only[s]).kv("place", p.place[s]).kv("force_fd", p.force_fd[s]).str();
  };
  static const char *sh[] = { "none", "parent", "discard", "file", "path" };
  return fw::J().raw("in", st(0)).raw("out", st(1)).raw("err", st(2)).kv("shorthand", sh[p.shorthand]).kv("nonblocking", p.nonblocking).kv("input_size", p.input_size).kv("fork", p.fork).str();
}

}  // namespace sc
