// Protocol between the harness and the scripted child ("puppet"). Plain C,
// shared by puppet.c and the C++ harness.
#pragma once

#include <stdint.h>

#ifdef __cplusplus
extern "C" {
#endif

// Content of every stream is a fixed function of (stream, offset): the parent
// can verify content from offsets alone. Never produces a NUL byte (the string
// sink cannot carry NUL by its documentation).
static inline uint8_t pup_pattern(int stream, uint64_t off)
{
  uint64_t x = off * 0x9E3779B97F4A7C15ull + (uint64_t) (stream + 1) * 0xD1B54A32D192ED03ull;
  x ^= x >> 29;
  x *= 0xBF58476D1CE4E5B9ull;
  x ^= x >> 32;
  return (uint8_t) (1 + (x % 255));
}

enum pup_op {
  PUP_PING = 1,
  PUP_WRITE = 2,     // a = stream (1|2), b = number of bytes to append to the queue, then pump
  PUP_PUMP = 3,      // a = stream: try to write queued bytes (nonblocking)
  PUP_READ = 4,      // b = max bytes to read from stdin (nonblocking)
  PUP_CLOSE = 5,     // a = stream (0|1|2)
  PUP_EXIT = 6,      // a = exit code                      (no ack)
  PUP_RAISE = 7,     // a = signal: default disposition, unblocked, raise (no ack)
  PUP_TERM_MODE = 8, // a = 0 default (die), 1 = ignore+note, 2 = note only (harness schedules death)
  PUP_RUN = 9,       // free-running bulk mode, see struct: b=out bytes, c=err bytes, d=chunk,
                     // e = flags (1 = read stdin to EOF verifying pattern, 2 = echo stdin to stdout,
                     // 4 = close stdout before stderr), a = exit code. Result written to <ctl>/result.
  PUP_FDS = 10,      // re-snapshot descriptors into <ctl>/fds
  PUP_HOLDER = 11,   // a = stream (1|2): fork a descendant that keeps only that stream open (not the
                     // library's exit handle, not the control channel), blocks on the FIFO <ctl>/holder
                     // and, when a byte 'w' arrives there, writes "late\n" to the stream and exits
                     // ('x': just exits). Ack v[0] = its pid.
};

struct pup_cmd {
  uint32_t op;
  uint32_t a;
  uint64_t b, c, d, e;
};

enum pup_ack_kind {
  PUP_ACK = 1,
  PUP_NOTE_TERM = 2,  // written from the SIGTERM handler
  PUP_READY = 3,      // hello file written
};

struct pup_ack {
  uint32_t kind;
  uint32_t op;
  int32_t status;  // 0 or errno
  int32_t pad;
  // WRITE/PUMP: v[0] = total bytes written so far on that stream, v[1] = bytes still queued,
  //             v[2] = 1 if the write hit EPIPE
  // READ: v[0] = bytes read by this command, v[1] = total bytes read so far, v[2] = eof seen,
  //       v[3] = offset of first pattern mismatch or UINT64_MAX
  uint64_t v[6];
};

#define PUP_HELLO_MAGIC "PUPHELO1"

#ifdef __cplusplus
}
#endif
