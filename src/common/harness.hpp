// Harness helpers shared by the puppet-based engines (R and V).
#pragma once

#include <cstdint>
#include <deque>
#include <map>
#include <string>
#include <sys/types.h>
#include <vector>

#include "common/proto.h"

namespace hz {

struct FdInfo {
  int32_t fd;
  uint64_t dev, ino, rdev;
  uint32_t mode;
  int32_t fl, fdfl;
};

struct Hello {
  std::vector<std::string> argv, envp;
  std::string cwd;
  uint64_t cwd_dev = 0, cwd_ino = 0;
  std::string exe;
  std::vector<FdInfo> fds;
  uint64_t sigblk = 0, sigign = 0, sigcgt = 0;
  int pid = 0, ppid = 0;
  const FdInfo *fd(int n) const
  {
    for (auto &f : fds)
      if (f.fd == n) return &f;
    return nullptr;
  }
};

bool parse_hello(const std::string &path, Hello &h, std::string &err);

// Identity of an open descriptor of this process.
struct FdId {
  bool open = false;
  uint64_t dev = 0, ino = 0, rdev = 0;
  uint32_t mode = 0;
  int fl = 0, fdfl = 0;
  bool same_object(const FdInfo &o) const { return open && dev == o.dev && ino == o.ino; }
  bool same_object(const FdId &o) const { return open && o.open && dev == o.dev && ino == o.ino; }
};
FdId fd_id(int fd);
std::map<int, FdId> snapshot_self_fds();
std::string fd_table_diff(const std::map<int, FdId> &before, const std::map<int, FdId> &after);

// One scripted child: a control directory with FIFOs and a private hardlink
// of the puppet binary.
class Puppet {
public:
  // `dir` must not exist yet. `exe_dir`: where the executable link lives
  // (default: the control directory itself).
  explicit Puppet(const std::string &dir);
  ~Puppet();
  Puppet(const Puppet &) = delete;
  Puppet &operator=(const Puppet &) = delete;

  const std::string &dir() const { return dir_; }
  const std::string &exe() const { return exe_; }
  // Plants another executable link in `where` (must exist) named `name`,
  // pointing back at this control directory through a `ctl` symlink.
  std::string plant(const std::string &where, const std::string &name);

  // Waits for the READY message and parses the hello file.
  // If `pid` > 0 the wait ends early once that process is dead.
  bool wait_ready(int timeout_ms = 10000, pid_t pid = 0);
  bool ready() const { return ready_; }
  const Hello &hello() const { return hello_; }
  const std::string &error() const { return err_; }

  // Sends a command and waits for its acknowledgement (TERM notes that arrive
  // in between are queued).
  bool cmd(uint32_t op, uint32_t a, uint64_t b, uint64_t c, uint64_t d, uint64_t e, pup_ack *ack, int timeout_ms = 10000);
  bool cmd(uint32_t op, uint32_t a = 0, uint64_t b = 0, pup_ack *ack = nullptr) { return cmd(op, a, b, 0, 0, 0, ack); }
  // Sends a command that is not acknowledged (EXIT, RAISE).
  bool send(uint32_t op, uint32_t a = 0, uint64_t b = 0, uint64_t c = 0, uint64_t d = 0, uint64_t e = 0);
  // Waits for a TERM note written by the puppet's signal handler.
  bool wait_note(pup_ack *note, int timeout_ms = 10000);
  bool has_note();
  int ack_fd() const { return ack_; }
  // Result file of the free-running mode.
  bool read_result(std::map<std::string, long long> &out);

private:
  bool read_msg(pup_ack *m, int timeout_ms, pid_t watch = 0);
  std::string dir_, exe_, err_;
  std::vector<std::string> planted_;
  int cmd_ = -1, ack_ = -1;
  bool ready_ = false;
  Hello hello_;
  std::deque<pup_ack> notes_;
};

// Process observation without reaping.
bool wait_dead(pid_t pid, int timeout_ms);   // true once pid is a zombie (waitid WNOWAIT)
bool is_dead(pid_t pid);                     // zombie right now?
char proc_state(pid_t pid);                  // state letter from /proc/<pid>/stat, 0 if gone
bool pid_exists(pid_t pid);
void reap_quietly(pid_t pid);                // SIGKILL + waitpid, for strays after the verdict

// Misc
std::string mkdir_unique(const std::string &base, const std::string &prefix);
void rm_rf(const std::string &path);
std::string puppet_source_binary();  // build/puppet (copied into the scratch fs if needed)
bool write_all(int fd, const void *p, size_t n);
std::string slurp(const std::string &path);
std::string hex_sigset(uint64_t v);

}  // namespace hz
