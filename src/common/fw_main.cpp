// main() of every property target. See fw.hpp.
#include "fw.hpp"

#include <rapidcheck.h>

#include <algorithm>
#include <cerrno>
#include <csignal>
#include <cstdlib>
#include <ctime>
#include <dirent.h>
#include <fcntl.h>
#include <poll.h>
#include <set>
#include <sys/mman.h>
#include <sys/stat.h>
#include <sys/wait.h>
#include <unistd.h>

extern "C" void __sanitizer_set_report_fd(void *fd);

namespace fw {

static std::string g_scratch, g_tier = "quick", g_build = "/verif/build";
static std::set<std::string> g_known;
static PropertyDef g_prop;

const std::string &scratch_dir() { return g_scratch; }
const std::string &tier() { return g_tier; }
const std::string &build_dir() { return g_build; }
bool known(const std::string &sig) { return g_known.count(sig) != 0; }

static std::string g_case_dir;
const std::string &case_dir() { return g_case_dir; }

static void rm_at(int dfd, const char *name)
{
  struct stat st;
  if (fstatat(dfd, name, &st, AT_SYMLINK_NOFOLLOW) != 0) return;
  if (!S_ISDIR(st.st_mode)) {
    unlinkat(dfd, name, 0);
    return;
  }
  fchmodat(dfd, name, 0700, 0);
  int fd = openat(dfd, name, O_RDONLY | O_DIRECTORY | O_NOFOLLOW | O_CLOEXEC);
  if (fd >= 0) {
    DIR *d = fdopendir(fd);
    if (d) {
      struct dirent *e;
      while ((e = readdir(d)) != nullptr) {
        if (!strcmp(e->d_name, ".") || !strcmp(e->d_name, "..")) continue;
        rm_at(dirfd(d), e->d_name);
      }
      closedir(d);
    } else {
      close(fd);
    }
  }
  unlinkat(dfd, name, AT_REMOVEDIR);
}

void rm_rf(const std::string &path) { rm_at(AT_FDCWD, path.c_str()); }

static double now_s()
{
  struct timespec ts;
  clock_gettime(CLOCK_MONOTONIC, &ts);
  return (double) ts.tv_sec + ts.tv_nsec / 1e9;
}

// ------------------------------------------------------- isolated cases ----

static void put_str(std::string &out, const std::string &s)
{
  uint32_t n = (uint32_t) s.size();
  out.append((const char *) &n, 4);
  out += s;
}

static bool get_str(const std::string &in, size_t &pos, std::string &s)
{
  if (pos + 4 > in.size()) return false;
  uint32_t n;
  memcpy(&n, in.data() + pos, 4);
  pos += 4;
  if (pos + n > in.size()) return false;
  s.assign(in.data() + pos, n);
  pos += n;
  return true;
}

static std::string serialize(const CaseResult &r)
{
  std::string o;
  int32_t k = r.kind;
  o.append((const char *) &k, 4);
  o.push_back((char) ((r.nontrivial ? 1 : 0) | (r.unique_by_construction ? 2 : 0)));
  o.append((const char *) &r.hash, 8);
  put_str(o, r.msg);
  put_str(o, r.sig);
  put_str(o, r.describe);
  std::string cls;
  for (auto &c : r.classes) cls += c + "\n";
  put_str(o, cls);
  return o;
}

static bool deserialize(const std::string &in, CaseResult &r)
{
  if (in.size() < 13) return false;
  int32_t k;
  memcpy(&k, in.data(), 4);
  r.kind = k;
  r.nontrivial = (in[4] & 1) != 0;
  r.unique_by_construction = (in[4] & 2) != 0;
  memcpy(&r.hash, in.data() + 5, 8);
  size_t pos = 13;
  std::string cls;
  if (!get_str(in, pos, r.msg) || !get_str(in, pos, r.sig) ||
      !get_str(in, pos, r.describe) || !get_str(in, pos, cls))
    return false;
  r.classes.clear();
  size_t a = 0;
  while (a < cls.size()) {
    size_t b = cls.find('\n', a);
    if (b == std::string::npos) b = cls.size();
    if (b > a) r.classes.push_back(cls.substr(a, b - a));
    a = b + 1;
  }
  return true;
}

static std::string read_tail(const std::string &path, size_t max)
{
  FILE *f = fopen(path.c_str(), "r");
  if (!f) return "";
  fseek(f, 0, SEEK_END);
  long n = ftell(f);
  long from = n > (long) max ? n - (long) max : 0;
  fseek(f, from, SEEK_SET);
  std::string s((size_t) (n - from), '\0');
  size_t got = fread(&s[0], 1, s.size(), f);
  s.resize(got);
  fclose(f);
  return s;
}

static std::string crash_signature(const std::string &err)
{
  {
    // ThreadSanitizer: the SUMMARY line names the racing source location
    size_t p = err.find("SUMMARY: ThreadSanitizer: ");
    if (p != std::string::npos) {
      size_t e = err.find('\n', p);
      std::string line = err.substr(p + 9, (e == std::string::npos ? err.size() : e) - p - 9);
      size_t in = line.find(" in ");
      if (in != std::string::npos) line = line.substr(0, in);
      if (line.size() > 140) line = line.substr(0, 140);
      return line;
    }
  }
  const char *keys[] = { "WARNING: ThreadSanitizer: ", "ERROR: AddressSanitizer: ", "ERROR: LeakSanitizer: ",
                         "runtime error: ", "Assertion `" };
  for (const char *k : keys) {
    size_t p = err.find(k);
    if (p != std::string::npos) {
      size_t e = err.find_first_of("\n", p);
      std::string line = err.substr(p, (e == std::string::npos ? err.size() : e) - p);
      // keep the error class, drop addresses
      size_t sp = line.find(" on address");
      if (sp != std::string::npos) line = line.substr(0, sp);
      if (line.size() > 120) line = line.substr(0, 120);
      return line;
    }
  }
  return "";
}

// Runs one case in a forked case process.  `timed_out` is set when the case
// process had to be killed.
static CaseResult run_isolated_once(const std::vector<uint32_t> &words, long sweep, bool &timed_out)
{
  timed_out = false;
  int p[2];
  if (pipe(p) < 0) {
    perror("pipe");
    exit(2);
  }
  std::string errfile = g_scratch + "/case-stderr";
  g_case_dir = g_scratch + "/case";
  rm_rf(g_case_dir);
  mkdir(g_case_dir.c_str(), 0755);
  fflush(NULL);
  pid_t pid = fork();
  if (pid < 0) {
    perror("fork");
    exit(2);
  }
  if (pid == 0) {
    setpgid(0, 0);
    close(p[0]);
    // keep the result pipe out of the way of low descriptor numbers
    int hi = fcntl(p[1], F_DUPFD_CLOEXEC, 900);
    if (hi >= 0) {
      close(p[1]);
      p[1] = hi;
    }
    int ef = open(errfile.c_str(), O_WRONLY | O_CREAT | O_TRUNC, 0644);
    if (ef >= 0) {
      int ehi = fcntl(ef, F_DUPFD_CLOEXEC, 901);
      close(ef);
      if (ehi >= 0) {
        // sanitizer reports go to fd 2 of the case process; keep a private
        // copy so that cases which close or redirect 0-2 still report.
        dup2(ehi, 2);
        __sanitizer_set_report_fd((void *) (intptr_t) ehi);
        setenv("VERIF_CASE_STDERR_FD", std::to_string(ehi).c_str(), 1);
      }
    }
    Tape t(words);
    CaseResult r = g_prop.run(t, sweep);
    std::string s = serialize(r);
    size_t off = 0;
    while (off < s.size()) {
      ssize_t w = write(p[1], s.data() + off, s.size() - off);
      if (w < 0) {
        if (errno == EINTR) continue;
        _exit(3);
      }
      off += (size_t) w;
    }
    fflush(NULL);
    _exit(0);
  }
  close(p[1]);
  setpgid(pid, pid);
  std::string buf;
  double deadline = now_s() + g_prop.case_timeout_s;
  for (;;) {
    double left = deadline - now_s();
    if (left <= 0) {
      timed_out = true;
      break;
    }
    struct pollfd pf = { p[0], POLLIN, 0 };
    int pr = poll(&pf, 1, (int) (left * 1000) + 1);
    if (pr < 0) {
      if (errno == EINTR) continue;
      break;
    }
    if (pr == 0) continue;
    char tmp[65536];
    ssize_t n = read(p[0], tmp, sizeof(tmp));
    if (n < 0) {
      if (errno == EINTR) continue;
      break;
    }
    if (n == 0) break;
    buf.append(tmp, (size_t) n);
  }
  close(p[0]);
  if (timed_out) {
    kill(-pid, SIGKILL);
    kill(pid, SIGKILL);
  }
  int st = 0;
  while (waitpid(pid, &st, 0) < 0 && errno == EINTR) {
  }
  // Reap the whole group's leftovers (puppets are children of the case
  // process and die with it through PDEATHSIG).
  kill(-pid, SIGKILL);
  rm_rf(g_case_dir);

  CaseResult r;
  if (timed_out) {
    r.kind = CaseResult::INCONCLUSIVE;
    r.msg = "case process exceeded " + std::to_string(g_prop.case_timeout_s) + " s and was killed";
    r.sig = "timeout";
    return r;
  }
  if (deserialize(buf, r) && WIFEXITED(st) && WEXITSTATUS(st) == 0) {
    return r;
  }
  // Crash, sanitizer abort or assert inside the case process.
  std::string err = read_tail(errfile, 200000);
  if (err.size() > 9000) err = err.substr(0, 4500) + "\n[...]\n" + err.substr(err.size() - 4000);
  std::string cs = crash_signature(err);
  r = CaseResult();
  r.kind = CaseResult::FAIL;
  r.nontrivial = true;
  char hdr[160];
  if (WIFSIGNALED(st))
    snprintf(hdr, sizeof(hdr), "case process killed by signal %d", WTERMSIG(st));
  else
    snprintf(hdr, sizeof(hdr), "case process exited with code %d without a result", WEXITSTATUS(st));
  r.sig = std::string("crash:") + (cs.empty() ? hdr : cs);
  r.msg = std::string(hdr) + "\n" + err;
  // Let the property describe the case without running it?  Not possible in
  // general; the tape itself is the replay.
  r.describe = J().kv("note", "case crashed before it could describe itself").str();
  return r;
}

// In-process properties have no case process that could be killed: a watchdog
// ends the worker when one case exceeds its time limit (the code under test
// loops for ever, say). The in-flight record names the case; the driver reports
// the dead worker together with this message.
static void on_case_alarm(int)
{
  static const char m[] = "\nverif: HANG: the in-process case did not finish within its time limit (the code under test does not return)\n";
  ssize_t w = write(2, m, sizeof(m) - 1);
  (void) w;
  _exit(88);
}

static CaseResult exec_case(const std::vector<uint32_t> &words, long sweep)
{
  if (!g_prop.isolate) {
    Tape t(words);
    signal(SIGALRM, on_case_alarm);
    alarm((unsigned) (g_prop.case_timeout_s > 0 ? g_prop.case_timeout_s : 30));
    CaseResult r = g_prop.run(t, sweep);
    alarm(0);
    return r;
  }
  bool to = false;
  CaseResult r = run_isolated_once(words, sweep, to);
  if (!to) return r;
  // A hang is reported only if it reproduces twice more; anything else that
  // hits the time budget is inconclusive.
  for (int i = 0; i < 2; i++) {
    bool to2 = false;
    CaseResult r2 = run_isolated_once(words, sweep, to2);
    if (!to2) {
      r2.classes.push_back("timeout-then-finished");
      return r2;
    }
  }
  r.kind = CaseResult::FAIL;
  r.sig = "hang";
  r.msg = "case did not finish within " + std::to_string(g_prop.case_timeout_s) +
          " s of real time in three consecutive runs";
  r.nontrivial = true;
  return r;
}

// --------------------------------------------------------- accounting ------

struct Stats {
  uint64_t evaluations = 0, inconclusive = 0, shrink_evals = 0, nontrivial_unique = 0;
  std::set<uint64_t> nontrivial;
  std::map<std::string, uint64_t> classes, known_hits;
  std::vector<std::string> samples;
  uint64_t nontrivial_seen = 0;
  std::vector<std::string> inconclusive_msgs;
};
static Stats g_stats;

static void account(const CaseResult &r, const std::vector<uint32_t> &words, long sweep)
{
  g_stats.evaluations++;
  if (r.kind == CaseResult::INCONCLUSIVE) {
    g_stats.inconclusive++;
    if (g_stats.inconclusive_msgs.size() < 5) g_stats.inconclusive_msgs.push_back(r.msg);
  }
  for (auto &c : r.classes) g_stats.classes[c]++;
  if (r.nontrivial) {
    if (r.unique_by_construction) g_stats.nontrivial_unique++;
    else g_stats.nontrivial.insert(r.hash);
    g_stats.nontrivial_seen++;
    uint64_t n = g_stats.nontrivial_seen;
    if (n == 1 || n == 7 || n == 50 || n == 400 || n == 3000 || n == 20000) {
      (void) words;
      std::string s = J().kv("sweep", (long long) sweep).raw("case", r.describe).str();
      g_stats.samples.push_back(s);
    }
  }
}

struct Failure {
  bool present = false;
  std::vector<uint32_t> words;
  long sweep = -1;
  CaseResult r;
  int confirmed = 0;
};
static Failure g_fail;

static std::string failure_json(const Failure &f)
{
  if (!f.present) return "null";
  return J()
      .raw("tape", jnums(f.words))
      .kv("sweep", (long long) f.sweep)
      .kv("msg", f.r.msg)
      .kv("sig", f.r.sig)
      .raw("describe", f.r.describe)
      .kv("confirmed", f.confirmed)
      .str();
}

static void write_out(const std::string &path, double t0)
{
  std::vector<uint64_t> hashes(g_stats.nontrivial.begin(), g_stats.nontrivial.end());
  J cls, kh;
  for (auto &kv : g_stats.classes) cls.kv(kv.first, (unsigned long long) kv.second);
  for (auto &kv : g_stats.known_hits) kh.kv(kv.first, (unsigned long long) kv.second);
  std::vector<std::string> inc;
  for (auto &m : g_stats.inconclusive_msgs) inc.push_back(jstr(m));
  std::string s = J()
                      .kv("property", g_prop.id)
                      .kv("evaluations", (unsigned long long) g_stats.evaluations)
                      .kv("shrink_evaluations", (unsigned long long) g_stats.shrink_evals)
                      .kv("inconclusive", (unsigned long long) g_stats.inconclusive)
                      .raw("inconclusive_samples", jarr(inc))
                      .raw("nontrivial_hashes", jnums(hashes))
                      .kv("nontrivial_unique", (unsigned long long) g_stats.nontrivial_unique)
                      .raw("classes", cls.str())
                      .raw("known_hits", kh.str())
                      .raw("samples", jarr(g_stats.samples))
                      .raw("failure", failure_json(g_fail))
                      .kv("wall_s", (long long) (now_s() - t0))
                      .str();
  std::string tmp = path + ".tmp";
  FILE *f = fopen(tmp.c_str(), "w");
  if (!f) {
    perror(tmp.c_str());
    exit(2);
  }
  fputs(s.c_str(), f);
  fputc('\n', f);
  fclose(f);
  rename(tmp.c_str(), path.c_str());
}

// In-flight record for in-process properties: if the worker dies, the driver
// finds the tape of the case that killed it here.
static uint32_t *g_inflight = nullptr;
static size_t g_inflight_words = 0;

static void inflight_open(const std::string &out)
{
  std::string p = out + ".inflight";
  int fd = open(p.c_str(), O_RDWR | O_CREAT | O_TRUNC, 0644);
  if (fd < 0) return;
  g_inflight_words = g_prop.tape_len + 4;
  if (ftruncate(fd, (off_t) (g_inflight_words * 4)) < 0) {
    close(fd);
    return;
  }
  void *m = mmap(NULL, g_inflight_words * 4, PROT_READ | PROT_WRITE, MAP_SHARED, fd, 0);
  close(fd);
  if (m != MAP_FAILED) g_inflight = (uint32_t *) m;
}

static void inflight_set(const std::vector<uint32_t> &words, long sweep)
{
  if (!g_inflight) return;
  g_inflight[0] = 1;  // busy
  int64_t s = sweep;
  memcpy(&g_inflight[1], &s, 8);
  g_inflight[3] = (uint32_t) words.size();
  memcpy(&g_inflight[4], words.data(), std::min(words.size(), g_prop.tape_len) * 4);
}
static void inflight_clear()
{
  if (g_inflight) g_inflight[0] = 0;
}

// Returns true if the (possibly known) result counts as a failure.
static bool judge(CaseResult &r)
{
  if (r.kind != CaseResult::FAIL) return false;
  if (g_known.count(r.sig)) {
    g_stats.known_hits[r.sig]++;
    r.kind = CaseResult::PASS;
    return false;
  }
  return true;
}

static int confirm(const std::vector<uint32_t> &words, long sweep, const std::string &sig)
{
  // a hang has already been reproduced three times inside exec_case
  if (sig == "hang") return 3;
  int c = 0;
  for (int i = 0; i < 3; i++) {
    CaseResult r = exec_case(words, sweep);
    if (r.kind == CaseResult::FAIL && !g_known.count(r.sig)) c++;
    (void) sig;
  }
  return c;
}

// Deterministic tape for sweep case number i (free dimensions still vary).
static std::vector<uint32_t> sweep_tape(uint64_t seed, long i)
{
  std::vector<uint32_t> w(g_prop.tape_len);
  uint64_t x = seed * 0x9E3779B97F4A7C15ull + (uint64_t) i * 0xBF58476D1CE4E5B9ull + 1;
  for (auto &v : w) {
    x ^= x << 13;
    x ^= x >> 7;
    x ^= x << 17;
    v = (uint32_t) (x >> 16);
  }
  return w;
}

static bool parse_replay(const std::string &path, std::vector<uint32_t> &words, long &sweep)
{
  FILE *f = fopen(path.c_str(), "r");
  if (!f) return false;
  std::string s;
  char buf[65536];
  size_t n;
  while ((n = fread(buf, 1, sizeof(buf), f)) > 0) s.append(buf, n);
  fclose(f);
  size_t p = s.find("\"tape\"");
  if (p == std::string::npos) return false;
  p = s.find('[', p);
  if (p == std::string::npos) return false;
  size_t e = s.find(']', p);
  if (e == std::string::npos) return false;
  words.clear();
  const char *c = s.c_str() + p + 1;
  const char *end = s.c_str() + e;
  while (c < end) {
    while (c < end && (*c < '0' || *c > '9')) c++;
    if (c >= end) break;
    words.push_back((uint32_t) strtoul(c, (char **) &c, 10));
  }
  sweep = -1;
  p = s.find("\"sweep\"");
  if (p != std::string::npos) {
    p = s.find(':', p);
    if (p != std::string::npos) sweep = strtol(s.c_str() + p + 1, NULL, 10);
  }
  return true;
}

}  // namespace fw

using namespace fw;

int main(int argc, char **argv)
{
  std::string mode, out, replay;
  long n_random = 0, sweep_k = 0, sweep_w = 1;
  uint64_t seed = 1;
  double budget_s = 0;
  for (int i = 1; i < argc; i++) {
    std::string a = argv[i];
    auto val = [&]() -> std::string { return i + 1 < argc ? argv[++i] : ""; };
    if (a == "--random") { mode = "random"; n_random = atol(val().c_str()); }
    else if (a == "--sweep") { mode = "sweep"; std::string v = val(); sscanf(v.c_str(), "%ld/%ld", &sweep_k, &sweep_w); }
    else if (a == "--replay") { mode = "replay"; replay = val(); }
    else if (a == "--count-sweep") { mode = "count"; }
    else if (a == "--seed") seed = strtoull(val().c_str(), NULL, 10);
    else if (a == "--out") out = val();
    else if (a == "--tier") g_tier = val();
    else if (a == "--budget") budget_s = atof(val().c_str());
    else { fprintf(stderr, "unknown argument %s\n", a.c_str()); return 2; }
  }
  if (const char *b = getenv("VERIF_BUILD")) g_build = b;
  if (const char *k = getenv("VERIF_KNOWN")) {
    std::string s = k;
    size_t a = 0;
    while (a <= s.size()) {
      size_t b = s.find(';', a);
      if (b == std::string::npos) b = s.size();
      if (b > a) g_known.insert(s.substr(a, b - a));
      a = b + 1;
    }
  }
  bool own_scratch = false;
  if (const char *s = getenv("VERIF_SCRATCH_DIR")) {
    g_scratch = s;
    mkdir(g_scratch.c_str(), 0755);
  } else {
    char tmpl[] = "/dev/shm/verif-w-XXXXXX";
    char *d = mkdtemp(tmpl);
    if (!d) {
      char tmpl2[] = "/var/tmp/verif-w-XXXXXX";
      d = mkdtemp(tmpl2);
    }
    if (!d) { perror("mkdtemp"); return 2; }
    g_scratch = d;
    own_scratch = true;
  }
  signal(SIGPIPE, SIG_IGN);

  g_prop = make_property();
  double t0 = now_s();
  int rc_exit = 0;

  if (mode == "count") {
    printf("%ld\n", g_prop.sweep_count(g_tier));
  } else if (mode == "replay") {
    g_prop.setup();
    std::vector<uint32_t> words;
    long sweep = -1;
    if (!parse_replay(replay, words, sweep)) {
      fprintf(stderr, "cannot parse replay file %s\n", replay.c_str());
      return 2;
    }
    words.resize(g_prop.tape_len);
    int fails = 0, known_hits = 0;
    CaseResult last;
    for (int i = 0; i < 3; i++) {
      CaseResult r = exec_case(words, sweep);
      if (r.kind == CaseResult::FAIL) {
        if (g_known.count(r.sig)) known_hits++;
        else fails++;
      }
      last = r;
    }
    printf("%s\n", J().kv("replay", replay)
                       .kv("fails", fails)
                       .kv("known_hits", known_hits)
                       .kv("kind", last.kind)
                       .kv("sig", last.sig)
                       .kv("msg", last.msg)
                       .raw("describe", last.describe)
                       .str()
                       .c_str());
    rc_exit = fails == 3 ? 1 : (fails == 0 ? 0 : 3);
  } else if (mode == "sweep") {
    g_prop.setup();
    if (!g_prop.isolate && !out.empty()) inflight_open(out);
    long total = g_prop.sweep_count(g_tier);
    for (long i = sweep_k; i < total; i += sweep_w) {
      std::vector<uint32_t> words = sweep_tape(seed, i);
      inflight_set(words, i);
      CaseResult r = exec_case(words, i);
      inflight_clear();
      bool bad = judge(r);
      account(r, words, i);
      if (bad) {
        g_fail.present = true;
        g_fail.words = words;
        g_fail.sweep = i;
        g_fail.r = r;
        g_fail.confirmed = confirm(words, i, r.sig);
        break;
      }
    }
    if (!out.empty()) write_out(out, t0);
    rc_exit = g_fail.present ? 1 : 0;
  } else if (mode == "random") {
    g_prop.setup();
    if (!g_prop.isolate && !out.empty()) inflight_open(out);
    std::string params = "seed=" + std::to_string(seed) + " max_success=" + std::to_string(n_random) +
                         " max_size=100 max_discard_ratio=100";
    setenv("RC_PARAMS", params.c_str(), 1);
    bool shrinking = false;
    double shrink_deadline = 0;
    auto gen = rc::gen::resize(
        100, rc::gen::container<std::vector<uint32_t>>(g_prop.tape_len, rc::gen::arbitrary<uint32_t>()));
    bool budget_hit = false;
    bool ok = rc::check(g_prop.id, [&] {
      std::vector<uint32_t> words = *gen;
      if (shrinking && now_s() > shrink_deadline) return;  // stop shrinking: keep current minimum
      if (!shrinking && budget_s > 0 && now_s() - t0 > budget_s) {
        budget_hit = true;
        return;  // wall-clock budget: remaining cases are skipped, not failed
      }
      inflight_set(words, -1);
      CaseResult r = exec_case(words, -1);
      inflight_clear();
      bool bad = judge(r);
      if (!shrinking) account(r, words, -1);
      else g_stats.shrink_evals++;
      if (bad) {
        if (!shrinking) {
          shrinking = true;
          shrink_deadline = now_s() + (g_tier == "quick" ? 60 : 180);
          // every attempt to shrink a hang costs three full time-outs: keep the case as it is
          if (r.sig == "hang") shrink_deadline = 0;
        }
        g_fail.present = true;
        g_fail.words = words;
        g_fail.sweep = -1;
        g_fail.r = r;
        RC_FAIL(r.sig);
      }
    });
    if (!ok && g_fail.present) {
      g_fail.confirmed = confirm(g_fail.words, -1, g_fail.r.sig);
    }
    if (budget_hit) g_stats.classes["budget-hit"] = 1;
    if (!out.empty()) write_out(out, t0);
    rc_exit = g_fail.present ? 1 : 0;
  } else {
    fprintf(stderr, "usage: %s --random N | --sweep K/W | --replay FILE | --count-sweep  [--seed S] [--out F] [--tier T]\n", argv[0]);
    rc_exit = 2;
  }

  if (own_scratch) rm_rf(g_scratch);
  return rc_exit;
}
