// puppet: the scripted child used by every check. It reports what it was given
// (argv, envp, cwd, descriptor table with identities, signal state) and then
// does only what the harness tells it to, over FIFOs found by *path* (the
// library under test closes every other descriptor).
#define _GNU_SOURCE
#include <dirent.h>
#include <errno.h>
#include <fcntl.h>
#include <limits.h>
#include <poll.h>
#include <signal.h>
#include <stdint.h>
#include <stdio.h>
#include <stdlib.h>
#include <string.h>
#include <sys/prctl.h>
#include <sys/resource.h>
#include <sys/stat.h>
#include <unistd.h>

#include "common/proto.h"

static int g_cmd = -1, g_ack = -1;
static char g_ctl[PATH_MAX];

static void die(const char *what)
{
  char buf[PATH_MAX + 64];
  int n = snprintf(buf, sizeof(buf), "%s/puppet-error", g_ctl);
  (void) n;
  int fd = open(buf, O_WRONLY | O_CREAT | O_APPEND, 0644);
  if (fd >= 0) {
    dprintf(fd, "%s: %s\n", what, strerror(errno));
    close(fd);
  }
  _exit(99);
}

static void put(int fd, const void *p, size_t n)
{
  const char *c = (const char *) p;
  while (n > 0) {
    ssize_t w = write(fd, c, n);
    if (w < 0) {
      if (errno == EINTR) {
        continue;
      }
      die("hello write");
    }
    c += w;
    n -= (size_t) w;
  }
}

static void put32(int fd, uint32_t v) { put(fd, &v, 4); }
static void put64(int fd, uint64_t v) { put(fd, &v, 8); }
static void putstr(int fd, const char *s)
{
  uint32_t n = (uint32_t) strlen(s);
  put32(fd, n);
  put(fd, s, n);
}

struct fdinfo {
  int32_t fd;
  uint64_t dev, ino, rdev;
  uint32_t mode;
  int32_t fl, fdfl;
};

static int snapshot_fds(struct fdinfo *out, int max)
{
  DIR *d = opendir("/proc/self/fd");
  if (!d) {
    return -1;
  }
  int self = dirfd(d);
  int n = 0;
  struct dirent *e;
  while ((e = readdir(d)) != NULL) {
    if (e->d_name[0] < '0' || e->d_name[0] > '9') {
      continue;
    }
    int fd = atoi(e->d_name);
    if (fd == self) {
      continue;
    }
    if (n < max) {
      struct stat st;
      memset(&st, 0, sizeof(st));
      fstat(fd, &st);
      out[n].fd = fd;
      out[n].dev = st.st_dev;
      out[n].ino = st.st_ino;
      out[n].rdev = st.st_rdev;
      out[n].mode = st.st_mode;
      out[n].fl = fcntl(fd, F_GETFL);
      out[n].fdfl = fcntl(fd, F_GETFD);
      n++;
    }
  }
  closedir(d);
  return n;
}

static void read_sigstate(uint64_t *blk, uint64_t *ign, uint64_t *cgt)
{
  *blk = *ign = *cgt = ~0ull;
  FILE *f = fopen("/proc/self/status", "r");
  if (!f) {
    return;
  }
  char line[256];
  while (fgets(line, sizeof(line), f)) {
    if (strncmp(line, "SigBlk:", 7) == 0) {
      *blk = strtoull(line + 7, NULL, 16);
    } else if (strncmp(line, "SigIgn:", 7) == 0) {
      *ign = strtoull(line + 7, NULL, 16);
    } else if (strncmp(line, "SigCgt:", 7) == 0) {
      *cgt = strtoull(line + 7, NULL, 16);
    }
  }
  fclose(f);
}

static void send_ack(struct pup_ack *a)
{
  for (;;) {
    ssize_t w = write(g_ack, a, sizeof(*a));
    if (w == (ssize_t) sizeof(*a)) {
      return;
    }
    if (w < 0 && errno == EINTR) {
      continue;
    }
    _exit(98);
  }
}

static volatile sig_atomic_t g_term_mode = 0;
static long g_auto_sleep_ms = 0;

static void on_term(int sig)
{
  (void) sig;
  int e = errno;
  struct pup_ack a;
  memset(&a, 0, sizeof(a));
  a.kind = PUP_NOTE_TERM;
  a.v[0] = (uint64_t) g_term_mode;
  ssize_t w = write(g_ack, &a, sizeof(a));
  (void) w;
  errno = e;
}

static uint64_t g_queued[3], g_written[3], g_epipe[3];
static uint64_t g_in_total, g_in_mismatch = UINT64_MAX;
static int g_in_eof;

static void set_nonblock(int fd, int on)
{
  int fl = fcntl(fd, F_GETFL);
  if (fl < 0) {
    return;
  }
  fcntl(fd, F_SETFL, on ? (fl | O_NONBLOCK) : (fl & ~O_NONBLOCK));
}

// Nonblocking pump of the queue of `stream`.
static void pump(int stream)
{
  static uint8_t buf[65536];
  set_nonblock(stream, 1);
  while (g_queued[stream] > 0) {
    size_t n = g_queued[stream] < sizeof(buf) ? (size_t) g_queued[stream]
                                              : sizeof(buf);
    for (size_t i = 0; i < n; i++) {
      buf[i] = pup_pattern(stream, g_written[stream] + i);
    }
    ssize_t w = write(stream, buf, n);
    if (w < 0) {
      if (errno == EINTR) {
        continue;
      }
      if (errno == EPIPE || errno == EBADF) {
        g_epipe[stream] = 1;
        g_queued[stream] = 0;
      }
      break;
    }
    g_written[stream] += (uint64_t) w;
    g_queued[stream] -= (uint64_t) w;
  }
  set_nonblock(stream, 0);
}

static void check_in(const uint8_t *p, size_t n)
{
  for (size_t i = 0; i < n; i++) {
    if (g_in_mismatch == UINT64_MAX &&
        p[i] != pup_pattern(0, g_in_total + i)) {
      g_in_mismatch = g_in_total + i;
    }
  }
  g_in_total += n;
}

static void do_read(uint64_t max, struct pup_ack *a)
{
  static uint8_t buf[65536];
  uint64_t got = 0;
  set_nonblock(0, 1);
  while (got < max && !g_in_eof) {
    size_t want = max - got < sizeof(buf) ? (size_t) (max - got) : sizeof(buf);
    ssize_t r = read(0, buf, want);
    if (r < 0) {
      if (errno == EINTR) {
        continue;
      }
      if (errno != EAGAIN) {
        a->status = errno;
      }
      break;
    }
    if (r == 0) {
      g_in_eof = 1;
      break;
    }
    check_in(buf, (size_t) r);
    got += (uint64_t) r;
  }
  set_nonblock(0, 0);
  a->v[0] = got;
  a->v[1] = g_in_total;
  a->v[2] = (uint64_t) g_in_eof;
  a->v[3] = g_in_mismatch;
}

static void write_result(int code)
{
  char path[PATH_MAX + 32], tmp[PATH_MAX + 32];
  snprintf(path, sizeof(path), "%s/result", g_ctl);
  snprintf(tmp, sizeof(tmp), "%s/result.tmp", g_ctl);
  FILE *f = fopen(tmp, "w");
  if (!f) {
    return;
  }
  fprintf(f,
          "{\"in_total\": %llu, \"in_eof\": %d, \"in_mismatch\": %lld, "
          "\"out_written\": %llu, \"err_written\": %llu, \"out_epipe\": %llu, "
          "\"err_epipe\": %llu, \"code\": %d}\n",
          (unsigned long long) g_in_total, g_in_eof,
          g_in_mismatch == UINT64_MAX ? -1LL : (long long) g_in_mismatch,
          (unsigned long long) g_written[1], (unsigned long long) g_written[2],
          (unsigned long long) g_epipe[1], (unsigned long long) g_epipe[2],
          code);
  fclose(f);
  rename(tmp, path);
}

// Free-running full-duplex bulk mode.
static void do_run(struct pup_cmd *c)
{
  uint64_t want[3] = { 0, c->b, c->c };
  size_t chunk = c->d ? (size_t) c->d : 4096;
  int read_in = (c->e & 1) != 0;
  int echo = (c->e & 2) != 0;
  static uint8_t buf[1 << 16];
  static uint8_t ebuf[1 << 16];
  size_t epend = 0, eoff = 0;
  if (chunk > sizeof(buf)) {
    chunk = sizeof(buf);
  }
  int open_[3] = { read_in || echo, 1, 1 };
  for (int s = 0; s < 3; s++) {
    set_nonblock(s, 1);
  }
  for (;;) {
    struct pollfd p[3];
    int np = 0;
    int idx[3];
    if (open_[0] && !g_in_eof && epend == 0) {
      p[np].fd = 0;
      p[np].events = POLLIN;
      idx[np++] = 0;
    }
    for (int s = 1; s <= 2; s++) {
      int pending = g_written[s] < want[s] || (s == 1 && epend > 0);
      if (open_[s] && pending && !g_epipe[s]) {
        p[np].fd = s;
        p[np].events = POLLOUT;
        idx[np++] = s;
      }
    }
    if (np == 0) {
      break;
    }
    int r = poll(p, (nfds_t) np, -1);
    if (r < 0) {
      if (errno == EINTR) {
        continue;
      }
      break;
    }
    for (int k = 0; k < np; k++) {
      if (!p[k].revents) {
        continue;
      }
      int s = idx[k];
      if (s == 0) {
        ssize_t n = read(0, ebuf, echo ? sizeof(ebuf) : sizeof(ebuf));
        if (n == 0) {
          g_in_eof = 1;
        } else if (n > 0) {
          check_in(ebuf, (size_t) n);
          if (echo) {
            epend = (size_t) n;
            eoff = 0;
          }
        } else if (errno != EAGAIN && errno != EINTR) {
          g_in_eof = 1;
        }
      } else if (s == 1 && epend > 0) {
        ssize_t n = write(1, ebuf + eoff, epend);
        if (n > 0) {
          eoff += (size_t) n;
          epend -= (size_t) n;
          g_written[1] += (uint64_t) n;
        } else if (n < 0 && errno != EAGAIN && errno != EINTR) {
          g_epipe[1] = 1;
          epend = 0;
        }
      } else {
        uint64_t left = want[s] - g_written[s];
        size_t n = left < chunk ? (size_t) left : chunk;
        for (size_t i = 0; i < n; i++) {
          buf[i] = pup_pattern(s, g_written[s] + i);
        }
        ssize_t w = write(s, buf, n);
        if (w > 0) {
          g_written[s] += (uint64_t) w;
        } else if (w < 0 && errno != EAGAIN && errno != EINTR) {
          g_epipe[s] = 1;
        }
      }
    }
    if (echo && g_in_eof && epend == 0) {
      open_[0] = 0;
    }
    if ((c->e & 4) && g_written[1] >= want[1] && open_[1] && epend == 0 &&
        (!echo || g_in_eof)) {
      close(1);
      open_[1] = 0;
    }
  }
  write_result((int) c->a);
  if (g_auto_sleep_ms > 0) {
    // keep the streams open while lingering (flag 16: close them first)
    if (c->e & 16) {
      close(1);
      close(2);
    }
    usleep((useconds_t) g_auto_sleep_ms * 1000);
  }
  _exit((int) c->a);
}

int main(int argc, char **argv, char **envp)
{
  // --- entry snapshot, before this program opens anything of its own ---
  static struct fdinfo fds[4096];
  int nfds = snapshot_fds(fds, 4096);
  uint64_t blk, ign, cgt;
  read_sigstate(&blk, &ign, &cgt);

  prctl(PR_SET_PDEATHSIG, SIGKILL);
  if (getppid() == 1) {
    _exit(97);
  }

  char exe[PATH_MAX];
  ssize_t en = readlink("/proc/self/exe", exe, sizeof(exe) - 1);
  if (en < 0) {
    _exit(96);
  }
  exe[en] = 0;

  // Control directory: the directory of the executed image if it holds the
  // FIFOs, otherwise whatever its `ctl` symlink points to.
  char dir[PATH_MAX];
  strcpy(dir, exe);
  char *slash = strrchr(dir, '/');
  if (slash) {
    *slash = 0;
  }
  char probe[PATH_MAX + 16];
  snprintf(probe, sizeof(probe), "%s/cmd", dir);
  struct stat st;
  if (stat(probe, &st) == 0) {
    strcpy(g_ctl, dir);
  } else {
    snprintf(probe, sizeof(probe), "%s/ctl", dir);
    ssize_t ln = readlink(probe, g_ctl, sizeof(g_ctl) - 1);
    if (ln < 0) {
      _exit(95);
    }
    g_ctl[ln] = 0;
  }

  char cwd[PATH_MAX * 4];
  if (getcwd(cwd, sizeof(cwd)) == NULL) {
    cwd[0] = 0;
  }
  struct stat cwdst;
  memset(&cwdst, 0, sizeof(cwdst));
  stat(".", &cwdst);

  char path[PATH_MAX + 32], tmp[PATH_MAX + 32];
  snprintf(path, sizeof(path), "%s/hello", g_ctl);
  snprintf(tmp, sizeof(tmp), "%s/hello.tmp", g_ctl);
  int h = open(tmp, O_WRONLY | O_CREAT | O_TRUNC, 0644);
  if (h < 0) {
    die("open hello");
  }
  put(h, PUP_HELLO_MAGIC, 8);
  put32(h, (uint32_t) argc);
  for (int i = 0; i < argc; i++) {
    putstr(h, argv[i]);
  }
  uint32_t envc = 0;
  while (envp[envc]) {
    envc++;
  }
  put32(h, envc);
  for (uint32_t i = 0; i < envc; i++) {
    putstr(h, envp[i]);
  }
  putstr(h, cwd);
  put64(h, cwdst.st_dev);
  put64(h, cwdst.st_ino);
  putstr(h, exe);
  put32(h, (uint32_t) (nfds < 0 ? 0 : nfds));
  for (int i = 0; i < nfds; i++) {
    put(h, &fds[i], sizeof(fds[i]));
  }
  put64(h, blk);
  put64(h, ign);
  put64(h, cgt);
  put32(h, (uint32_t) getpid());
  put32(h, (uint32_t) getppid());
  close(h);
  if (rename(tmp, path) < 0) {
    die("rename hello");
  }

  // Self-destruct: no stray can outlive a run.
  alarm(300);

  snprintf(path, sizeof(path), "%s/cmd", g_ctl);
  g_cmd = open(path, O_RDONLY | O_CLOEXEC);
  if (g_cmd < 0) {
    die("open cmd");
  }
  snprintf(path, sizeof(path), "%s/ack", g_ctl);
  g_ack = open(path, O_WRONLY | O_CLOEXEC);
  if (g_ack < 0) {
    die("open ack");
  }

  // EPIPE instead of death when the parent closed our stdout/stderr.
  signal(SIGPIPE, SIG_IGN);

  struct pup_ack ready;
  memset(&ready, 0, sizeof(ready));
  ready.kind = PUP_READY;
  send_ack(&ready);

  // Autonomous mode for callers that cannot talk to the child between start
  // and the end (reproc_run): puppet --auto <out> <err> <chunk> <flags> <code> <sleep_ms>
  if (argc >= 8 && strcmp(argv[1], "--auto") == 0) {
    struct pup_cmd c;
    memset(&c, 0, sizeof(c));
    c.op = PUP_RUN;
    c.b = strtoull(argv[2], NULL, 10);
    c.c = strtoull(argv[3], NULL, 10);
    c.d = strtoull(argv[4], NULL, 10);
    c.e = strtoull(argv[5], NULL, 10);
    c.a = (uint32_t) atoi(argv[6]);
    long sleep_ms = atol(argv[7]);
    if (sleep_ms > 0) {
      // flag 8: sleep before producing anything, else after
      if (c.e & 8) usleep((useconds_t) sleep_ms * 1000);
      else g_auto_sleep_ms = sleep_ms;
    }
    do_run(&c);
  }

  for (;;) {
    struct pup_cmd c;
    size_t got = 0;
    while (got < sizeof(c)) {
      ssize_t r = read(g_cmd, (char *) &c + got, sizeof(c) - got);
      if (r < 0) {
        if (errno == EINTR) {
          continue;
        }
        _exit(94);
      }
      if (r == 0) {
        _exit(93);  // harness went away
      }
      got += (size_t) r;
    }

    struct pup_ack a;
    memset(&a, 0, sizeof(a));
    a.kind = PUP_ACK;
    a.op = c.op;

    switch (c.op) {
      case PUP_PING:
        break;
      case PUP_WRITE:
        if (c.a == 1 || c.a == 2) {
          g_queued[c.a] += c.b;
          pump((int) c.a);
          a.v[0] = g_written[c.a];
          a.v[1] = g_queued[c.a];
          a.v[2] = g_epipe[c.a];
        }
        break;
      case PUP_PUMP:
        if (c.a == 1 || c.a == 2) {
          pump((int) c.a);
          a.v[0] = g_written[c.a];
          a.v[1] = g_queued[c.a];
          a.v[2] = g_epipe[c.a];
        }
        break;
      case PUP_READ:
        do_read(c.b, &a);
        break;
      case PUP_CLOSE:
        if (c.a <= 2) {
          if (close((int) c.a) < 0) {
            a.status = errno;
          }
        } else if (c.a == 9) {
          // what a program does that tidies up after its parent (closefrom-style):
          // every descriptor it does not know goes - including whatever the
          // library uses to notice that this process has ended
          for (int fd = 3; fd < 1024; fd++)
            if (fd != g_cmd && fd != g_ack) close(fd);
        }
        break;
      case PUP_EXIT:
        _exit((int) c.a);
      case PUP_RAISE: {
        struct rlimit rl = { 0, 0 };
        if (c.b == 1) {
          // die with a (truncated) core file in the per-case control directory:
          // the wait status then carries the "core dumped" flag
          struct rlimit cur;
          if (getrlimit(RLIMIT_CORE, &cur) == 0) {
            rl.rlim_max = cur.rlim_max;
            rl.rlim_cur = cur.rlim_max < 4096 ? cur.rlim_max : 4096;
          }
          setrlimit(RLIMIT_CORE, &rl);
          prctl(PR_SET_DUMPABLE, 1);
          if (g_ctl[0]) (void) !chdir(g_ctl);
        } else {
          setrlimit(RLIMIT_CORE, &rl);
          prctl(PR_SET_DUMPABLE, 0);
        }
        signal((int) c.a, SIG_DFL);
        sigset_t s;
        sigemptyset(&s);
        sigaddset(&s, (int) c.a);
        sigprocmask(SIG_UNBLOCK, &s, NULL);
        raise((int) c.a);
        // A signal whose default action does not terminate: report and go on.
        a.status = EINVAL;
        break;
      }
      case PUP_TERM_MODE: {
        g_term_mode = (sig_atomic_t) c.a;
        if (c.a == 0) {
          signal(SIGTERM, SIG_DFL);
        } else {
          struct sigaction sa;
          memset(&sa, 0, sizeof(sa));
          sa.sa_handler = on_term;
          sigemptyset(&sa.sa_mask);
          sigaction(SIGTERM, &sa, NULL);
        }
        break;
      }
      case PUP_RUN:
        send_ack(&a);
        do_run(&c);
        break;
      case PUP_HOLDER: {
        snprintf(path, sizeof(path), "%s/holder", g_ctl);
        mkfifo(path, 0600);
        pid_t h = fork();
        if (h == 0) {
          int keep = (int) c.a;
          for (int fd = 0; fd < 1024; fd++)
            if (fd != keep) close(fd);
          alarm(60);
          int f = open(path, O_RDONLY);
          char cmdc = 'x';
          if (f >= 0 && read(f, &cmdc, 1) == 1 && cmdc == 'w') (void) !write(keep, "late\n", 5);
          _exit(0);
        }
        a.status = h < 0 ? errno : 0;
        a.v[0] = (uint64_t) h;
        break;
      }
      case PUP_FDS: {
        nfds = snapshot_fds(fds, 4096);
        snprintf(path, sizeof(path), "%s/fds", g_ctl);
        int f = open(path, O_WRONLY | O_CREAT | O_TRUNC, 0644);
        if (f >= 0) {
          put32(f, (uint32_t) nfds);
          for (int i = 0; i < nfds; i++) {
            put(f, &fds[i], sizeof(fds[i]));
          }
          close(f);
        }
        break;
      }
      default:
        a.status = ENOSYS;
        break;
    }
    send_ack(&a);
  }
}
