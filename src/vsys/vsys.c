// See vsys.h. Single-threaded engines only (the multi-threaded engine T uses
// vsys_mt.c).
#define _GNU_SOURCE
#include "vsys.h"

#include <errno.h>
#include <fcntl.h>
#include <signal.h>
#include <stdarg.h>
#include <stdio.h>
#include <stdlib.h>
#include <string.h>
#include <sys/mman.h>
#include <sys/resource.h>
#include <sys/stat.h>
#include <sys/wait.h>
#include <time.h>
#include <unistd.h>

const char *const vs_fn_name[VS_NFN] = {
  "_exit",     "calloc",      "chdir",      "clock_gettime", "close",
  "dup2",      "execvp",      "fcntl",      "fileno",        "fork",
  "free",      "getcwd",      "getrlimit",  "kill",          "malloc",
  "open",      "pipe",        "poll",       "pthread_sigmask", "read",
  "realloc",   "sigaction",   "sigemptyset", "sigfillset",   "strdup",
  "waitpid",   "write",
};

struct vs_shared *vs_sh = NULL;
struct vs_hooks vs_hooks;
struct vs_counts vs_counts;

static int g_side = VS_PARENT;
static int g_trace = 1;
static int g_dry = 0;

// ---------------------------------------------------------------- ledger ----

enum { FD_MAX = 1 << 16 };
// 0 = not ours, 1 = ours and open, 2 = ours and closed again
static unsigned char g_fd[FD_MAX];
static unsigned char g_fd_ever[FD_MAX];

enum { HEAP_CAP = 1 << 16 };
static struct {
  void *p;
  size_t n;
} g_heap[HEAP_CAP];
static size_t g_heap_blocks, g_heap_bytes;

enum { MAXCHILD = 64 };
static struct {
  pid_t pid;
  int live;
  int reaps;
} g_child[MAXCHILD];
static int g_nchild;

enum { MAXSIG = 64 };
static struct vs_sig g_sig[MAXSIG];
static int g_nsig;

static char g_viol[VS_MAXVIOL][VS_VIOLLEN];
static int g_nviol;

static int g_nth_fn = -1, g_nth_left = -1;  // fail the n-th call of one function
static int g_nth_err;                       // 0: the default for that function (ENOMEM / EINTR)
static unsigned g_nth_fired;
static int g_pipe_capacity;  // > 0: every pipe the library creates is shrunk to this many bytes
static int g_dry_nextfd = 1000;
static pid_t g_dry_pid = 400000;

void vs_add_viol(const char *fmt, ...)
{
  if (g_side != VS_PARENT) {
    return;
  }
  if (g_nviol >= VS_MAXVIOL) {
    return;
  }
  va_list ap;
  va_start(ap, fmt);
  vsnprintf(g_viol[g_nviol], VS_VIOLLEN, fmt, ap);
  va_end(ap);
  g_nviol++;
}

int vs_nviol(void) { return g_nviol; }
const char *vs_viol(int i) { return g_viol[i]; }

static size_t heap_slot(void *p)
{
  uintptr_t h = (uintptr_t) p;
  h ^= h >> 17;
  h *= 0x9E3779B97F4A7C15ull;
  return (size_t) (h >> 20) & (HEAP_CAP - 1);
}

static void heap_add(void *p, size_t n)
{
  if (p == NULL || g_side != VS_PARENT) {
    return;
  }
  size_t s = heap_slot(p);
  for (size_t i = 0; i < HEAP_CAP; i++) {
    size_t k = (s + i) & (HEAP_CAP - 1);
    if (g_heap[k].p == NULL || g_heap[k].p == (void *) 1) {
      g_heap[k].p = p;
      g_heap[k].n = n;
      g_heap_blocks++;
      g_heap_bytes += n;
      return;
    }
  }
}

// returns 1 if found (and removed)
static int heap_del(void *p)
{
  if (g_side != VS_PARENT) {
    return 1;
  }
  size_t s = heap_slot(p);
  for (size_t i = 0; i < HEAP_CAP; i++) {
    size_t k = (s + i) & (HEAP_CAP - 1);
    if (g_heap[k].p == NULL) {
      return 0;
    }
    if (g_heap[k].p == p) {
      g_heap[k].p = (void *) 1;  // tombstone
      g_heap_blocks--;
      g_heap_bytes -= g_heap[k].n;
      return 1;
    }
  }
  return 0;
}

// A block the caller allocated itself and hands to the library to own
// (initial content of a string sink).
void vs_heap_adopt(void *p, size_t n) { heap_add(p, n); }

size_t vs_heap_live_blocks(void) { return g_heap_blocks; }
size_t vs_heap_live_bytes(void) { return g_heap_bytes; }

int vs_own_open_fds(int *out, int max)
{
  int n = 0;
  for (int i = 0; i < FD_MAX; i++) {
    if (g_fd[i] == 1) {
      if (n < max && out) {
        out[n] = i;
      }
      n++;
    }
  }
  return n;
}

int vs_own_ever(int fd) { return fd >= 0 && fd < FD_MAX && g_fd_ever[fd]; }

static int child_find(pid_t pid)
{
  for (int i = 0; i < g_nchild; i++) {
    if (g_child[i].pid == pid) {
      return i;
    }
  }
  return -1;
}

int vs_is_live(pid_t pid)
{
  int i = child_find(pid);
  return i >= 0 && g_child[i].live;
}

int vs_live_children(pid_t *out, int max)
{
  int n = 0;
  for (int i = 0; i < g_nchild; i++) {
    if (g_child[i].live) {
      if (n < max && out) {
        out[n] = g_child[i].pid;
      }
      n++;
    }
  }
  return n;
}

int vs_all_children(pid_t *out, int max)
{
  for (int i = 0; i < g_nchild && i < max; i++) {
    out[i] = g_child[i].pid;
  }
  return g_nchild;
}

int vs_reaps(pid_t pid)
{
  int i = child_find(pid);
  return i < 0 ? 0 : g_child[i].reaps;
}

int vs_nsig(void) { return g_nsig; }
struct vs_sig vs_sig_at(int i) { return g_sig[i]; }

// ------------------------------------------------------------- lifecycle ----

void vs_init(void)
{
  if (vs_sh != NULL) {
    return;
  }
  void *p = mmap(NULL, sizeof(struct vs_shared), PROT_READ | PROT_WRITE,
                 MAP_SHARED | MAP_ANONYMOUS, -1, 0);
  if (p == MAP_FAILED) {
    perror("vsys mmap");
    abort();
  }
  vs_sh = (struct vs_shared *) p;
  vs_reset();
}

void vs_reset(void)
{
  vs_sh->nrec = 0;
  vs_sh->dropped = 0;
  vs_sh->fidx[0] = vs_sh->fidx[1] = 0;
  memset(vs_sh->fncount, 0, sizeof(vs_sh->fncount));
  vs_sh->nfaults = 0;
  vs_sh->child_loop = 0;
  vs_sh->child_last_probe = -1;
  memset(g_fd, 0, sizeof(g_fd));
  memset(g_fd_ever, 0, sizeof(g_fd_ever));
  memset(g_heap, 0, sizeof(g_heap));
  g_heap_blocks = g_heap_bytes = 0;
  g_nchild = 0;
  g_nsig = 0;
  g_nviol = 0;
  g_side = VS_PARENT;
  g_dry_nextfd = 1000;
  g_nth_fn = -1;
  g_nth_left = -1;
  g_pipe_capacity = 0;
  memset(&vs_counts, 0, sizeof(vs_counts));
}

// Cheap reset for engines that run millions of tiny cases in one process (DRY):
// only what a case can have touched is cleared.
void vs_reset_light(void)
{
  static size_t tombstones_estimate = 0;
  vs_sh->nrec = 0;
  vs_sh->dropped = 0;
  vs_sh->fidx[0] = vs_sh->fidx[1] = 0;
  memset(vs_sh->fncount, 0, sizeof(vs_sh->fncount));
  vs_sh->nfaults = 0;
  vs_sh->child_loop = 0;
  vs_sh->child_last_probe = -1;
  if (g_dry_nextfd > 1000) {
    size_t n = (size_t) (g_dry_nextfd < FD_MAX ? g_dry_nextfd : FD_MAX) - 1000;
    memset(g_fd + 1000, 0, n);
    memset(g_fd_ever + 1000, 0, n);
  }
  g_dry_nextfd = 1000;
  tombstones_estimate += 16;
  if (g_heap_blocks != 0 || tombstones_estimate > 4096) {
    memset(g_heap, 0, sizeof(g_heap));
    g_heap_blocks = g_heap_bytes = 0;
    tombstones_estimate = 0;
  }
  g_nchild = 0;
  g_nsig = 0;
  g_nviol = 0;
  g_side = VS_PARENT;
  memset(&vs_counts, 0, sizeof(vs_counts));
}

unsigned vs_nth_fired(void) { return g_nth_fired; }
void vs_pipe_capacity(int bytes) { g_pipe_capacity = bytes; }

void vs_fail_nth_err(int fn, int n, int err)
{
  g_nth_fn = fn;
  g_nth_left = n;
  g_nth_err = err;
}

void vs_fail_nth(int fn, int n)
{
  g_nth_err = 0;
  g_nth_fn = fn;
  g_nth_left = n;
}

static int nth_hit(int fn)
{
  if (g_side != VS_PARENT || fn != g_nth_fn || g_nth_left < 0) {
    return 0;
  }
  if (g_nth_left-- == 0) {
    g_nth_fn = -1;
    g_nth_fired++;
    return 1;
  }
  return 0;
}

void vs_trace(int on) { g_trace = on; }
void vs_dry(int on) { g_dry = on; }

void vs_add_fault(struct vs_fault f)
{
  if (vs_sh->nfaults < VS_MAXFAULT) {
    f.fired = 0;
    f.mismatch = 0;
    vs_sh->faults[vs_sh->nfaults++] = f;
  }
}

void vs_clear_faults(void) { vs_sh->nfaults = 0; }

// ----------------------------------------------------------------- trace ----

static struct vs_rec *rec_begin(int fn, int64_t a0, int64_t a1, int64_t a2,
                                int fidx, int probing)
{
  static struct vs_rec scratch;
  if (g_side == VS_PARENT) {
    vs_counts.calls[fn]++;
  }
  if (!g_trace || vs_sh == NULL) {
    return &scratch;
  }
  uint32_t i = __atomic_fetch_add(&vs_sh->nrec, 1, __ATOMIC_SEQ_CST);
  if (i >= VS_MAXREC) {
    __atomic_fetch_sub(&vs_sh->nrec, 1, __ATOMIC_SEQ_CST);
    __atomic_fetch_add(&vs_sh->dropped, 1, __ATOMIC_SEQ_CST);
    return &scratch;
  }
  struct vs_rec *r = &vs_sh->rec[i];
  r->seq = i;
  r->side = (uint8_t) g_side;
  r->fn = (uint8_t) fn;
  r->faulted = 0;
  r->probing = (uint8_t) probing;
  r->fidx = fidx;
  r->err = 0;
  r->a0 = a0;
  r->a1 = a1;
  r->a2 = a2;
  r->ret = 0;
  return r;
}

// Allocates the next fault-point index for this side and returns the fault to
// apply, if any.
static struct vs_fault *fault_point(int fn, int *fidx)
{
  if (vs_sh == NULL) {
    *fidx = -1;
    return NULL;
  }
  int idx = (int) __atomic_fetch_add(&vs_sh->fidx[g_side], 1, __ATOMIC_SEQ_CST);
  int ord = fn >= 0 && fn < 64 ? (int) __atomic_fetch_add(&vs_sh->fncount[g_side][fn], 1, __ATOMIC_SEQ_CST) : 0;
  *fidx = idx;
  for (int i = 0; i < vs_sh->nfaults; i++) {
    struct vs_fault *f = &vs_sh->faults[i];
    // index < 0: "the (-index-1)-th call of this function on this side",
    // whatever else the library calls before it in this configuration
    if (f->index < 0) {
      if (f->side == g_side && f->fn == fn && ord == -f->index - 1 && !f->fired) {
        f->fired = 1;
        return f;
      }
      continue;
    }
    if (f->side == g_side && f->index == idx && !f->fired) {
      if (f->fn >= 0 && f->fn != fn) {
        f->mismatch = 1;
        return NULL;
      }
      f->fired = 1;
      return f;
    }
  }
  return NULL;
}

#define FINISH(r, val)                                                         \
  do {                                                                         \
    (r)->ret = (int64_t) (val);                                                \
    (r)->err = errno;                                                          \
  } while (0)

// ------------------------------------------------------------- functions ----

void vs__exit(int status)
{
  rec_begin(VS_EXIT, status, 0, 0, -1, 0);
  _exit(status);
}

void *vs_malloc(size_t n)
{
  int fidx;
  struct vs_fault *f = fault_point(VS_MALLOC, &fidx);
  struct vs_rec *r = rec_begin(VS_MALLOC, (int64_t) n, 0, 0, fidx, 0);
  if (f) {
    r->faulted = 1;
    errno = ENOMEM;
    FINISH(r, 0);
    return NULL;
  }
  void *p = malloc(n);
  heap_add(p, n);
  FINISH(r, (intptr_t) p);
  return p;
}

void *vs_calloc(size_t a, size_t b)
{
  int fidx;
  struct vs_fault *f = fault_point(VS_CALLOC, &fidx);
  struct vs_rec *r = rec_begin(VS_CALLOC, (int64_t) a, (int64_t) b, 0, fidx, 0);
  if (f) {
    r->faulted = 1;
    errno = ENOMEM;
    FINISH(r, 0);
    return NULL;
  }
  void *p = calloc(a, b);
  heap_add(p, a * b);
  FINISH(r, (intptr_t) p);
  return p;
}

void *vs_realloc(void *old, size_t n)
{
  int fidx;
  struct vs_fault *f = fault_point(VS_REALLOC, &fidx);
  struct vs_rec *r =
      rec_begin(VS_REALLOC, (int64_t) (intptr_t) old, (int64_t) n, 0, fidx, 0);
  if (f || nth_hit(VS_REALLOC)) {
    r->faulted = 1;
    errno = ENOMEM;
    FINISH(r, 0);
    return NULL;
  }
  void *p = realloc(old, n);
  if (p != NULL) {
    // A block that the caller of the library allocated itself (string sink)
    // is adopted silently.
    if (old != NULL) {
      heap_del(old);
    }
    heap_add(p, n);
  }
  FINISH(r, (intptr_t) p);
  return p;
}

char *vs_strdup(const char *s)
{
  int fidx;
  struct vs_fault *f = fault_point(VS_STRDUP, &fidx);
  struct vs_rec *r = rec_begin(VS_STRDUP, (int64_t) strlen(s), 0, 0, fidx, 0);
  if (f) {
    r->faulted = 1;
    errno = ENOMEM;
    FINISH(r, 0);
    return NULL;
  }
  char *p = strdup(s);
  heap_add(p, strlen(s) + 1);
  FINISH(r, (intptr_t) p);
  return p;
}

void vs_free(void *p)
{
  struct vs_rec *r = rec_begin(VS_FREE, (int64_t) (intptr_t) p, 0, 0, -1, 0);
  if (p != NULL && g_side == VS_PARENT) {
    if (!heap_del(p)) {
      // Not allocated through the library: either a caller-owned block
      // (reproc_free of a string the harness allocated) or a double free. ASan
      // decides the second; the ledger records it so that the oracle of C05
      // can tell.
      vs_add_viol("free of block %p not allocated by the library (or freed "
                  "twice)",
                  p);
      FINISH(r, -1);
      return;  // do not forward: a double free would abort under ASan anyway
    }
  }
  free(p);
  FINISH(r, 0);
}

int vs_chdir(const char *path)
{
  int fidx;
  struct vs_fault *f = fault_point(VS_CHDIR, &fidx);
  struct vs_rec *r = rec_begin(VS_CHDIR, 0, 0, 0, fidx, 0);
  if (g_side == VS_PARENT) {
    vs_add_viol("chdir(\"%s\") called in the parent process", path);
  }
  if (f) {
    r->faulted = 1;
    errno = f->err;
    FINISH(r, -1);
    return -1;
  }
  int ret = chdir(path);
  FINISH(r, ret);
  return ret;
}

int vs_clock_gettime(clockid_t id, struct timespec *ts)
{
  struct vs_rec *r = rec_begin(VS_CLOCK, id, 0, 0, -1, 0);
  int64_t ms;
  if (vs_hooks.clock && vs_hooks.clock(&ms)) {
    ts->tv_sec = ms / 1000;
    ts->tv_nsec = (ms % 1000) * 1000000;
    FINISH(r, 0);
    r->a1 = ms;
    return 0;
  }
  int ret = clock_gettime(id, ts);
  FINISH(r, ret);
  return ret;
}

int vs_close(int fd)
{
  // Child-side close-loop state machine (see DESIGN 3.3): a close directly
  // after a successful probe of the same descriptor belongs to the loop.
  int loop_close = 0;
  if (g_side == VS_CHILD && vs_sh && vs_sh->child_loop) {
    if (vs_sh->child_last_probe == fd) {
      loop_close = 1;
      vs_sh->child_last_probe = -1;
    } else {
      vs_sh->child_loop = 0;
    }
  }
  int fidx;
  struct vs_fault *f = fault_point(VS_CLOSE, &fidx);
  struct vs_rec *r = rec_begin(VS_CLOSE, fd, loop_close, 0, fidx, 0);

  if (g_dry) {
    if (fd >= 0 && fd < FD_MAX) {
      if (g_fd[fd] != 1) {
        vs_add_viol("close(%d): descriptor not owned/open (dry)", fd);
      }
      g_fd[fd] = 2;
    }
    FINISH(r, 0);
    return 0;
  }

  if (g_side == VS_PARENT) {
    if (fd < 0 || fd >= FD_MAX) {
      vs_add_viol("close(%d): invalid descriptor number", fd);
      errno = EBADF;
      FINISH(r, -1);
      return -1;
    }
    if (g_fd[fd] == 0) {
      struct stat st;
      if (fstat(fd, &st) == 0) {
        vs_add_viol("foreign close: close(%d) of a descriptor the library did "
                    "not create",
                    fd);
      } else {
        vs_add_viol("close(%d) of a descriptor that is not open and was never "
                    "created by the library",
                    fd);
      }
      // Not forwarded: the harness's own descriptors must survive.
      errno = EBADF;
      FINISH(r, -1);
      return -1;
    }
    if (g_fd[fd] == 2) {
      struct stat st;
      int open_now = fstat(fd, &st) == 0;
      vs_add_viol("double close: close(%d) of a descriptor the library already "
                  "closed%s",
                  fd, open_now ? " (number re-used by someone else)" : "");
      errno = EBADF;
      FINISH(r, -1);
      return -1;
    }
    g_fd[fd] = 2;
  }

  int ret = close(fd);
  if (f) {
    // As on Linux: the descriptor is released even when close reports an error.
    r->faulted = 1;
    errno = f->err;
    ret = -1;
  }
  FINISH(r, ret);
  return ret;
}

int vs_dup2(int a, int b)
{
  if (vs_sh && g_side == VS_CHILD) {
    vs_sh->child_loop = 0;
  }
  int fidx;
  struct vs_fault *f = fault_point(VS_DUP2, &fidx);
  struct vs_rec *r = rec_begin(VS_DUP2, a, b, 0, fidx, 0);
  if (g_side == VS_PARENT) {
    vs_add_viol("dup2(%d,%d) called in the parent process", a, b);
  }
  if (f) {
    r->faulted = 1;
    errno = f->err;
    FINISH(r, -1);
    return -1;
  }
  int ret = dup2(a, b);
  FINISH(r, ret);
  return ret;
}

int vs_execvp(const char *file, char *const argv[])
{
  int fidx;
  struct vs_fault *f = fault_point(VS_EXECVP, &fidx);
  struct vs_rec *r = rec_begin(VS_EXECVP, 0, 0, 0, fidx, 0);
  if (g_side == VS_PARENT) {
    vs_add_viol("execvp called in the parent process");
    errno = EPERM;
    return -1;
  }
  if (f) {
    r->faulted = 1;
    errno = f->err;
    FINISH(r, -1);
    return -1;
  }
  int ret = execvp(file, argv);
  FINISH(r, ret);
  return ret;
}

int vs_fcntl(int fd, int cmd, ...)
{
  va_list ap;
  va_start(ap, cmd);
  long arg = va_arg(ap, long);
  va_end(ap);

  int probing = 0;
  if (g_side == VS_CHILD && vs_sh && vs_sh->child_loop && cmd == F_GETFD) {
    probing = 1;
  } else if (g_side == VS_CHILD && vs_sh) {
    vs_sh->child_loop = 0;
  }

  int fidx = -1;
  struct vs_fault *f = NULL;
  if (!probing) {
    f = fault_point(VS_FCNTL, &fidx);
  }
  // the child's descriptor-closing loop probes every number up to the limit:
  // only the low ones are worth a trace record
  static struct vs_rec unrecorded;
  struct vs_rec *r = (probing && fd >= 128) ? &unrecorded : rec_begin(VS_FCNTL, fd, cmd, arg, fidx, probing);

  if (g_dry) {
    FINISH(r, 0);
    return 0;
  }
  if (f) {
    r->faulted = 1;
    errno = f->err;
    FINISH(r, -1);
    return -1;
  }
  int ret = (cmd == F_GETFD || cmd == F_GETFL) ? fcntl(fd, cmd)
                                               : fcntl(fd, cmd, arg);
  if ((cmd == F_DUPFD || cmd == F_DUPFD_CLOEXEC) && ret >= 0 && ret < FD_MAX &&
      g_side == VS_PARENT) {
    // a descriptor created by the library (duplicate of one of its own)
    g_fd[ret] = 1;
    g_fd_ever[ret] = 1;
  }
  if (probing) {
    vs_sh->child_last_probe = ret >= 0 ? fd : -1;
  }
  FINISH(r, ret);
  return ret;
}

int vs_fileno(FILE *file)
{
  int fidx;
  struct vs_fault *f = fault_point(VS_FILENO, &fidx);
  struct vs_rec *r = rec_begin(VS_FILENO, 0, 0, 0, fidx, 0);
  if (f) {
    r->faulted = 1;
    errno = f->err;
    FINISH(r, -1);
    return -1;
  }
  int ret = fileno(file);
  FINISH(r, ret);
  return ret;
}

pid_t vs_fork(void)
{
  int fidx;
  struct vs_fault *f = fault_point(VS_FORK, &fidx);
  struct vs_rec *r = rec_begin(VS_FORK, 0, 0, 0, fidx, 0);
  if (f) {
    r->faulted = 1;
    errno = f->err;
    FINISH(r, -1);
    return -1;
  }
  if (g_dry) {
    pid_t pid = ++g_dry_pid;
    if (g_nchild < MAXCHILD) {
      g_child[g_nchild].pid = pid;
      g_child[g_nchild].live = 1;
      g_child[g_nchild].reaps = 0;
      g_nchild++;
    }
    FINISH(r, pid);
    return pid;
  }
  fflush(NULL);
  pid_t pid = fork();
  if (pid == 0) {
    g_side = VS_CHILD;
    return 0;
  }
  if (pid > 0 && g_nchild < MAXCHILD) {
    g_child[g_nchild].pid = pid;
    g_child[g_nchild].live = 1;
    g_child[g_nchild].reaps = 0;
    g_nchild++;
  }
  FINISH(r, pid);
  return pid;
}

char *vs_getcwd(char *buf, size_t size)
{
  int fidx;
  struct vs_fault *f = fault_point(VS_GETCWD, &fidx);
  struct vs_rec *r = rec_begin(VS_GETCWD, (int64_t) size, 0, 0, fidx, 0);
  if (f) {
    r->faulted = 1;
    errno = f->err;
    FINISH(r, 0);
    return NULL;
  }
  char *ret = getcwd(buf, size);
  FINISH(r, ret != NULL);
  return ret;
}

int vs_getrlimit(int resource, struct rlimit *rl)
{
  int fidx;
  struct vs_fault *f = fault_point(VS_GETRLIMIT, &fidx);
  struct vs_rec *r = rec_begin(VS_GETRLIMIT, resource, 0, 0, fidx, 0);
  if (g_side == VS_CHILD && vs_sh) {
    vs_sh->child_loop = 1;
    vs_sh->child_last_probe = -1;
  }
  if (f && f->kind == VS_FK_ERRNO) {
    r->faulted = 1;
    errno = f->err;
    FINISH(r, -1);
    return -1;
  }
  int ret = getrlimit((__rlimit_resource_t) resource, rl);
  if (f && f->kind == VS_FK_VALUE && ret == 0) {
    r->faulted = 1;
    rl->rlim_cur = (rlim_t) f->value;
  }
  FINISH(r, ret);
  r->a1 = ret == 0 ? (int64_t) rl->rlim_cur : -1;
  return ret;
}

int vs_kill(pid_t pid, int sig)
{
  int fidx;
  struct vs_fault *f = fault_point(VS_KILL, &fidx);
  struct vs_rec *r = rec_begin(VS_KILL, pid, sig, 0, fidx, 0);
  struct vs_sig s = { pid, sig, 0, 0, 0, vs_hooks.now ? vs_hooks.now() : 0 };

  // Safety interlock: only a live child of this library instance is ever
  // signalled for real.
  if (pid <= 0 || !vs_is_live(pid)) {
    vs_add_viol("kill(%d, %d): target is not a live, unreaped child started by "
                "the library",
                (int) pid, sig);
    errno = ESRCH;
    s.ret = -1;
    s.err = ESRCH;
    if (g_nsig < MAXSIG) {
      g_sig[g_nsig++] = s;
    }
    FINISH(r, -1);
    return -1;
  }
  if (sig != SIGTERM && sig != SIGKILL) {
    vs_add_viol("kill(%d, %d): unexpected signal number", (int) pid, sig);
  }
  if (f) {
    r->faulted = 1;
    errno = f->err;
    s.ret = -1;
    s.err = f->err;
    if (g_nsig < MAXSIG) {
      g_sig[g_nsig++] = s;
    }
    FINISH(r, -1);
    return -1;
  }
  int ret = g_dry ? 0 : kill(pid, sig);
  int e = errno;
  s.forwarded = 1;
  s.ret = ret;
  s.err = ret < 0 ? e : 0;
  if (g_nsig < MAXSIG) {
    g_sig[g_nsig++] = s;
  }
  if (vs_hooks.after_kill) {
    vs_hooks.after_kill(pid, sig, ret);
  }
  errno = e;
  FINISH(r, ret);
  return ret;
}

int vs_open(const char *path, int flags, ...)
{
  va_list ap;
  va_start(ap, flags);
  int mode = va_arg(ap, int);
  va_end(ap);
  int fidx;
  struct vs_fault *f = fault_point(VS_OPEN, &fidx);
  struct vs_rec *r = rec_begin(VS_OPEN, flags, mode, 0, fidx, 0);
  if (f) {
    r->faulted = 1;
    errno = f->err;
    FINISH(r, -1);
    return -1;
  }
  int ret;
  if (g_dry) {
    ret = g_dry_nextfd++;
    // a1 := 1 if the path is the null device, a2 := hash of path for the oracle
    r->a1 = strcmp(path, "/dev/null") == 0;
    uint64_t h = 1469598103934665603ull;
    for (const char *c = path; *c; c++) {
      h = (h ^ (unsigned char) *c) * 1099511628211ull;
    }
    r->a2 = (int64_t) h;
  } else {
    ret = open(path, flags, mode);
  }
  if (ret >= 0 && ret < FD_MAX && g_side == VS_PARENT) {
    g_fd[ret] = 1;
    g_fd_ever[ret] = 1;
  }
  FINISH(r, ret);
  return ret;
}

int vs_pipe(int fds[2])
{
  int fidx;
  struct vs_fault *f = fault_point(VS_PIPE, &fidx);
  struct vs_rec *r = rec_begin(VS_PIPE, 0, 0, 0, fidx, 0);
  if (f) {
    r->faulted = 1;
    errno = f->err;
    FINISH(r, -1);
    return -1;
  }
  int ret;
  if (g_dry) {
    fds[0] = g_dry_nextfd++;
    fds[1] = g_dry_nextfd++;
    ret = 0;
  } else {
    ret = pipe(fds);
    // what a machine with scarce pipe buffers gives a process (pipe(7): once a
    // user holds more than pipe-user-pages-soft, new pipes get a single page)
    if (ret == 0 && g_pipe_capacity > 0) fcntl(fds[1], F_SETPIPE_SZ, g_pipe_capacity);
  }
  if (ret == 0 && g_side == VS_PARENT) {
    for (int i = 0; i < 2; i++) {
      if (fds[i] >= 0 && fds[i] < FD_MAX) {
        g_fd[fds[i]] = 1;
        g_fd_ever[fds[i]] = 1;
      }
    }
    r->a0 = fds[0];
    r->a1 = fds[1];
  }
  FINISH(r, ret);
  return ret;
}

int vs_poll(struct pollfd *fds, nfds_t n, int timeout)
{
  int fidx;
  struct vs_fault *f = fault_point(VS_POLL, &fidx);
  struct vs_rec *r = rec_begin(VS_POLL, (int64_t) n, timeout, 0, fidx, 0);
  if (f) {
    r->faulted = 1;
    errno = f->err;
    FINISH(r, -1);
    return -1;
  }
  if (nth_hit(VS_POLL)) {
    r->faulted = 1;
    errno = EINTR;
    FINISH(r, -1);
    return -1;
  }
  if (g_dry) {
    // Everything the library polls in DRY mode is the exit pipe of a fake
    // child that "has exited".
    int c = 0;
    for (nfds_t i = 0; i < n; i++) {
      fds[i].revents = 0;
      if (fds[i].fd >= 0) {
        fds[i].revents = POLLHUP;
        c++;
      }
    }
    FINISH(r, c);
    return c;
  }
  int ret, err;
  if (vs_hooks.poll && vs_hooks.poll(fds, n, timeout, &ret, &err)) {
    errno = err;
    FINISH(r, ret);
    return ret;
  }
  ret = poll(fds, n, timeout);
  FINISH(r, ret);
  return ret;
}

int vs_pthread_sigmask(int how, const sigset_t *set, sigset_t *old)
{
  int fidx;
  struct vs_fault *f = fault_point(VS_SIGMASK, &fidx);
  struct vs_rec *r = rec_begin(VS_SIGMASK, how, 0, 0, fidx, 0);
  if (f) {
    r->faulted = 1;
    FINISH(r, f->err);
    return f->err;
  }
  if (g_dry) {
    if (old) {
      sigemptyset(old);
    }
    FINISH(r, 0);
    return 0;
  }
  int ret = pthread_sigmask(how, set, old);
  FINISH(r, ret);
  return ret;
}

ssize_t vs_read(int fd, void *buf, size_t n)
{
  int fidx;
  struct vs_fault *f = fault_point(VS_READ, &fidx);
  struct vs_rec *r = rec_begin(VS_READ, fd, (int64_t) n, 0, fidx, 0);
  if (g_dry) {
    FINISH(r, 0);
    return 0;
  }
  if ((f && f->kind == VS_FK_ERRNO) || nth_hit(VS_READ)) {
    r->faulted = 1;
    errno = f ? f->err : EINTR;
    FINISH(r, -1);
    return -1;
  }
  int fl = fcntl(fd, F_GETFL);
  r->a2 = fl;
  if (vs_hooks.before_blocking_read && fl >= 0 && !(fl & O_NONBLOCK)) {
    vs_hooks.before_blocking_read(fd);
  }
  ssize_t ret = read(fd, buf, (f && f->kind == VS_FK_SHORT && n > 1) ? 1 : n);
  FINISH(r, ret);
  return ret;
}

ssize_t vs_write(int fd, const void *buf, size_t n)
{
  int fidx;
  struct vs_fault *f = fault_point(VS_WRITE, &fidx);
  struct vs_rec *r = rec_begin(VS_WRITE, fd, (int64_t) n, 0, fidx, 0);
  if (g_dry) {
    FINISH(r, (ssize_t) n);
    return (ssize_t) n;
  }
  if ((f && f->kind == VS_FK_ERRNO) || nth_hit(VS_WRITE)) {
    r->faulted = 1;
    errno = f ? f->err : EINTR;
    FINISH(r, -1);
    return -1;
  }
  int fl = fcntl(fd, F_GETFL);
  r->a2 = fl;
  if (f && f->kind == VS_FK_SHORT && n > 1) {
    r->faulted = 1;
    n = 1;
  }
  if (g_side == VS_PARENT && vs_hooks.blocking_write && fl >= 0 &&
      !(fl & O_NONBLOCK)) {
    ssize_t ret;
    int err;
    if (vs_hooks.blocking_write(fd, buf, n, &ret, &err)) {
      errno = err;
      FINISH(r, ret);
      return ret;
    }
  }
  ssize_t ret = write(fd, buf, n);
  FINISH(r, ret);
  return ret;
}

int vs_sigaction(int sig, const struct sigaction *act, struct sigaction *old)
{
  int fidx = -1;
  struct vs_fault *f = NULL;
  // sigaction on 0, SIGKILL, SIGSTOP fails with EINVAL by design of the loop;
  // those are not fault points.
  int natural = sig <= 0 || sig == SIGKILL || sig == SIGSTOP || sig >= 65;
  if (!natural) {
    f = fault_point(VS_SIGACTION, &fidx);
  }
  struct vs_rec *r = rec_begin(VS_SIGACTION, sig, 0, 0, fidx, 0);
  if (g_side == VS_PARENT && act != NULL) {
    vs_add_viol("sigaction(%d) changing a disposition in the parent process",
                sig);
  }
  if (f) {
    r->faulted = 1;
    errno = f->err;
    FINISH(r, -1);
    return -1;
  }
  int ret = sigaction(sig, act, old);
  FINISH(r, ret);
  return ret;
}

int vs_sigemptyset(sigset_t *set)
{
  int fidx;
  struct vs_fault *f = fault_point(VS_SIGEMPTYSET, &fidx);
  struct vs_rec *r = rec_begin(VS_SIGEMPTYSET, 0, 0, 0, fidx, 0);
  if (f) {
    r->faulted = 1;
    errno = f->err;
    FINISH(r, -1);
    return -1;
  }
  int ret = sigemptyset(set);
  FINISH(r, ret);
  return ret;
}

int vs_sigfillset(sigset_t *set)
{
  int fidx;
  struct vs_fault *f = fault_point(VS_SIGFILLSET, &fidx);
  struct vs_rec *r = rec_begin(VS_SIGFILLSET, 0, 0, 0, fidx, 0);
  if (f) {
    r->faulted = 1;
    errno = f->err;
    FINISH(r, -1);
    return -1;
  }
  int ret = sigfillset(set);
  FINISH(r, ret);
  return ret;
}

pid_t vs_waitpid(pid_t pid, int *status, int options)
{
  int fidx;
  struct vs_fault *f = fault_point(VS_WAITPID, &fidx);
  struct vs_rec *r = rec_begin(VS_WAITPID, pid, options, 0, fidx, 0);
  int ci = child_find(pid);
  if (pid <= 0 || ci < 0) {
    vs_add_viol("waitpid(%d): not a child started by the library", (int) pid);
    errno = ECHILD;
    FINISH(r, -1);
    return -1;
  }
  if (!g_child[ci].live) {
    vs_add_viol("second reap: waitpid(%d) on a child that was already reaped",
                (int) pid);
    errno = ECHILD;
    FINISH(r, -1);
    return -1;
  }
  if (f) {
    r->faulted = 1;
    if (f->err == ECHILD && !g_dry) {
      // ECHILD means the kernel has no such child any more (e.g. it was
      // auto-reaped): make that true before reporting it.
      int st2;
      if (waitpid(pid, &st2, 0) == pid) {
        g_child[ci].live = 0;
      }
    }
    errno = f->err;
    FINISH(r, -1);
    return -1;
  }
  if (nth_hit(VS_WAITPID)) {
    r->faulted = 1;
    if (g_nth_err == ECHILD && !g_dry) {
      // "no such child" is what a caller gets whose SIGCHLD is ignored or whose own
      // reaper was quicker: make it true (the child is collected here) before reporting it
      int st2;
      if (waitpid(pid, &st2, 0) == pid) {
        g_child[ci].live = 0;
      }
    }
    errno = g_nth_err ? g_nth_err : EINTR;
    FINISH(r, -1);
    return -1;
  }
  if (g_dry) {
    if (status) {
      *status = 0;
    }
    g_child[ci].live = 0;
    g_child[ci].reaps++;
    FINISH(r, pid);
    return pid;
  }
  if (vs_hooks.before_waitpid) {
    vs_hooks.before_waitpid(pid, options);
  }
  int st = 0;
  pid_t ret = waitpid(pid, &st, options);
  int e = errno;
  if (ret == pid) {
    // a stop / continue notification (WUNTRACED, WCONTINUED) reaps nothing
    if (WIFEXITED(st) || WIFSIGNALED(st)) {
      g_child[ci].live = 0;
      g_child[ci].reaps++;
    }
    r->a2 = st;
  }
  if (status) {
    *status = st;
  }
  errno = e;
  FINISH(r, ret);
  return ret;
}

// ---------------------------------------------------------------------------
// Alternates a correct implementation might use instead of the 27 functions
// above. They are mapped onto the same ledger / fault / hook machinery so that
// a behaviour-preserving refactoring of the library does not blind the checks
// or raise false alarms (a descriptor made by pipe2 is as much the library's
// own as one made by pipe).

#include <sys/socket.h>
#include <sys/time.h>

int vs_pipe2(int fds[2], int flags)
{
  int r = vs_pipe(fds);
  if (r == 0 && !g_dry) {
    if (flags & O_CLOEXEC) {
      fcntl(fds[0], F_SETFD, FD_CLOEXEC);
      fcntl(fds[1], F_SETFD, FD_CLOEXEC);
    }
    if (flags & O_NONBLOCK) {
      fcntl(fds[0], F_SETFL, fcntl(fds[0], F_GETFL) | O_NONBLOCK);
      fcntl(fds[1], F_SETFL, fcntl(fds[1], F_GETFL) | O_NONBLOCK);
    }
  }
  return r;
}

int vs_dup(int fd)
{
  int fidx;
  struct vs_fault *f = fault_point(VS_FCNTL, &fidx);
  struct vs_rec *r = rec_begin(VS_FCNTL, fd, F_DUPFD, 0, fidx, 0);
  if (f) {
    r->faulted = 1;
    errno = f->err;
    FINISH(r, -1);
    return -1;
  }
  int ret = g_dry ? g_dry_nextfd++ : dup(fd);
  if (ret >= 0 && ret < FD_MAX && g_side == VS_PARENT) {
    g_fd[ret] = 1;
    g_fd_ever[ret] = 1;
  }
  FINISH(r, ret);
  return ret;
}

int vs_dup3(int a, int b, int flags)
{
  int ret = vs_dup2(a, b);
  if (ret >= 0 && (flags & O_CLOEXEC)) {
    fcntl(b, F_SETFD, FD_CLOEXEC);
  }
  return ret;
}

int vs_sigprocmask(int how, const sigset_t *set, sigset_t *old)
{
  int e = vs_pthread_sigmask(how, set, old);
  if (e != 0) {
    errno = e;
    return -1;
  }
  return 0;
}

int vs_ppoll(struct pollfd *fds, nfds_t n, const struct timespec *ts, const sigset_t *mask)
{
  (void) mask;
  int timeout = -1;
  if (ts != NULL) {
    long long ms = (long long) ts->tv_sec * 1000 + (ts->tv_nsec + 999999) / 1000000;
    timeout = ms > 2147483647LL ? 2147483647 : (int) ms;
  }
  return vs_poll(fds, n, timeout);
}

pid_t vs_wait4(pid_t pid, int *status, int options, void *rusage)
{
  (void) rusage;
  return vs_waitpid(pid, status, options);
}

int vs_waitid(int idtype, id_t id, siginfo_t *info, int options)
{
  // Only the form "wait for this child" is mapped; a peek (WNOWAIT) reaps nothing.
  if (idtype != P_PID || (options & WNOWAIT)) {
    return waitid((idtype_t) idtype, id, info, options);
  }
  int st = 0;
  pid_t r = vs_waitpid((pid_t) id, &st, (options & WNOHANG) ? WNOHANG : 0);
  if (r < 0) {
    return -1;
  }
  if (info != NULL) {
    memset(info, 0, sizeof(*info));
    if (r > 0) {
      info->si_pid = r;
      info->si_signo = SIGCHLD;
      if (WIFEXITED(st)) {
        info->si_code = CLD_EXITED;
        info->si_status = WEXITSTATUS(st);
      } else {
        info->si_code = WCOREDUMP(st) ? CLD_DUMPED : CLD_KILLED;
        info->si_status = WTERMSIG(st);
      }
    }
  }
  return 0;
}

int vs_openat(int dirfd, const char *path, int flags, ...)
{
  va_list ap;
  va_start(ap, flags);
  int mode = va_arg(ap, int);
  va_end(ap);
  if (dirfd == AT_FDCWD || path[0] == '/') {
    return vs_open(path, flags, mode);
  }
  int ret = openat(dirfd, path, flags, mode);
  if (ret >= 0 && ret < FD_MAX && g_side == VS_PARENT) {
    g_fd[ret] = 1;
    g_fd_ever[ret] = 1;
  }
  return ret;
}

int vs_close_range(unsigned lo, unsigned hi, int flags)
{
  (void) flags;
  // expressed through close() so that the ledger and the keep-list logic of
  // the caller stay visible; descriptors that are not open are skipped
  for (unsigned fd = lo; fd <= hi && fd < (unsigned) FD_MAX; fd++) {
    if (fcntl((int) fd, F_GETFD) >= 0) {
      if (g_side == VS_PARENT) {
        vs_close((int) fd);
      } else {
        close((int) fd);
      }
    }
    if (fd == 0xffffffffu) {
      break;
    }
  }
  return 0;
}

void vs__Exit(int status) { vs__exit(status); }

int vs_execv(const char *path, char *const argv[])
{
  int fidx;
  struct vs_fault *f = fault_point(VS_EXECVP, &fidx);
  struct vs_rec *r = rec_begin(VS_EXECVP, 0, 0, 0, fidx, 0);
  if (g_side == VS_PARENT) {
    vs_add_viol("exec called in the parent process");
    errno = EPERM;
    return -1;
  }
  if (f) {
    r->faulted = 1;
    errno = f->err;
    FINISH(r, -1);
    return -1;
  }
  return execv(path, argv);
}

int vs_execve(const char *path, char *const argv[], char *const envp[])
{
  int fidx;
  struct vs_fault *f = fault_point(VS_EXECVP, &fidx);
  struct vs_rec *r = rec_begin(VS_EXECVP, 0, 0, 0, fidx, 0);
  if (g_side == VS_PARENT) {
    vs_add_viol("exec called in the parent process");
    errno = EPERM;
    return -1;
  }
  if (f) {
    r->faulted = 1;
    errno = f->err;
    FINISH(r, -1);
    return -1;
  }
  return execve(path, argv, envp);
}

int vs_execvpe(const char *file, char *const argv[], char *const envp[])
{
  int fidx;
  struct vs_fault *f = fault_point(VS_EXECVP, &fidx);
  struct vs_rec *r = rec_begin(VS_EXECVP, 0, 0, 0, fidx, 0);
  if (g_side == VS_PARENT) {
    vs_add_viol("exec called in the parent process");
    errno = EPERM;
    return -1;
  }
  if (f) {
    r->faulted = 1;
    errno = f->err;
    FINISH(r, -1);
    return -1;
  }
  return execvpe(file, argv, envp);
}

pid_t vs_vfork(void) { return vs_fork(); }

int vs_socketpair(int d, int type, int proto, int sv[2])
{
  int fidx;
  struct vs_fault *f = fault_point(VS_PIPE, &fidx);
  struct vs_rec *r = rec_begin(VS_PIPE, 0, 0, 0, fidx, 0);
  if (f) {
    r->faulted = 1;
    errno = f->err;
    FINISH(r, -1);
    return -1;
  }
  int ret = socketpair(d, type, proto, sv);
  if (ret == 0 && g_side == VS_PARENT) {
    for (int i = 0; i < 2; i++) {
      if (sv[i] >= 0 && sv[i] < FD_MAX) {
        g_fd[sv[i]] = 1;
        g_fd_ever[sv[i]] = 1;
      }
    }
    r->a0 = sv[0];
    r->a1 = sv[1];
  }
  FINISH(r, ret);
  return ret;
}

int vs_gettimeofday(struct timeval *tv, void *tz)
{
  int64_t ms;
  if (vs_hooks.clock && vs_hooks.clock(&ms)) {
    tv->tv_sec = ms / 1000;
    tv->tv_usec = (ms % 1000) * 1000;
    return 0;
  }
  return gettimeofday(tv, (struct timezone *) tz);
}
