// Thread-safe pass-through shim for engine T (ThreadSanitizer): every boundary
// function forwards to libc; a per-thread generator seeded from the plan
// inserts yields and micro-sleeps at the boundary to diversify interleavings;
// atomics measure how many threads are inside fork/start concurrently.
#define _GNU_SOURCE
#include <errno.h>
#include <fcntl.h>
#include <poll.h>
#include <pthread.h>
#include <sched.h>
#include <signal.h>
#include <stdarg.h>
#include <stdatomic.h>
#include <stdint.h>
#include <stdio.h>
#include <stdlib.h>
#include <string.h>
#include <sys/resource.h>
#include <sys/wait.h>
#include <time.h>
#include <unistd.h>

static _Atomic uint64_t g_seed = 1;
static _Atomic int g_in_fork_window = 0;
static _Atomic int g_max_concurrent_forks = 0;
static _Atomic uint64_t g_calls = 0;
static _Atomic int g_yield_level = 1;  // 0 none, 1 some, 2 many

static __thread uint64_t t_state;

void vsmt_configure(uint64_t seed, int yield_level)
{
  g_seed = seed ? seed : 1;
  g_yield_level = yield_level;
  g_max_concurrent_forks = 0;
  g_calls = 0;
}
int vsmt_max_concurrent_forks(void) { return g_max_concurrent_forks; }
uint64_t vsmt_calls(void) { return g_calls; }
// the harness brackets reproc_start with these to measure overlap
void vsmt_enter_start(void)
{
  int n = ++g_in_fork_window;
  int m = atomic_load(&g_max_concurrent_forks);
  while (n > m && !atomic_compare_exchange_weak(&g_max_concurrent_forks, &m, n)) {
  }
}
void vsmt_leave_start(void) { --g_in_fork_window; }

static void jitter(void)
{
  g_calls++;
  int level = g_yield_level;
  if (level == 0) {
    return;
  }
  if (t_state == 0) {
    t_state = g_seed * 0x9E3779B97F4A7C15ull + (uint64_t) (uintptr_t) &t_state;
  }
  t_state ^= t_state << 13;
  t_state ^= t_state >> 7;
  t_state ^= t_state << 17;
  unsigned r = (unsigned) (t_state >> 24) & 0xff;
  unsigned thr = level == 1 ? 24 : 96;
  if (r < thr / 3) {
    struct timespec ts = { 0, (long) (1000 + (t_state >> 40) % 150000) };
    nanosleep(&ts, NULL);
  } else if (r < thr) {
    sched_yield();
  }
}

void vs__exit(int status) { _exit(status); }
void *vs_malloc(size_t n) { jitter(); return malloc(n); }
void *vs_calloc(size_t a, size_t b) { jitter(); return calloc(a, b); }
void *vs_realloc(void *p, size_t n) { jitter(); return realloc(p, n); }
char *vs_strdup(const char *s) { jitter(); return strdup(s); }
void vs_free(void *p) { free(p); }
int vs_chdir(const char *p) { return chdir(p); }
// Results that libc writes through a pointer go through a local first: the
// copy is instrumented code, so ThreadSanitizer sees the write into the
// library's object (a static shared between threads, say) even where it has no
// interceptor that models the libc call's own write.
int vs_clock_gettime(clockid_t id, struct timespec *ts)
{
  struct timespec tmp;
  int r = clock_gettime(id, &tmp);
  if (r == 0 && ts) *ts = tmp;
  return r;
}
int vs_close(int fd) { jitter(); return close(fd); }
int vs_dup2(int a, int b) { return dup2(a, b); }
int vs_execvp(const char *f, char *const argv[]) { return execvp(f, argv); }
int vs_fcntl(int fd, int cmd, ...)
{
  va_list ap;
  va_start(ap, cmd);
  long arg = va_arg(ap, long);
  va_end(ap);
  jitter();  // e.g. between pipe() and setting close-on-exec on its ends
  return fcntl(fd, cmd, arg);
}
int vs_fileno(FILE *f) { return fileno(f); }
pid_t vs_fork(void)
{
  jitter();
  return fork();
}
char *vs_getcwd(char *b, size_t n) { return getcwd(b, n); }
int vs_getrlimit(int r, struct rlimit *rl)
{
  struct rlimit tmp;
  int ret = getrlimit((__rlimit_resource_t) r, &tmp);
  if (ret == 0 && rl) *rl = tmp;
  return ret;
}
int vs_kill(pid_t p, int s) { jitter(); return kill(p, s); }
int vs_open(const char *p, int fl, ...)
{
  va_list ap;
  va_start(ap, fl);
  int mode = va_arg(ap, int);
  va_end(ap);
  jitter();
  return open(p, fl, mode);
}
int vs_pipe(int fds[2]) { jitter(); return pipe(fds); }
int vs_poll(struct pollfd *f, nfds_t n, int t) { jitter(); return poll(f, n, t); }
int vs_pthread_sigmask(int how, const sigset_t *s, sigset_t *o)
{
  sigset_t in, out;
  if (s) in = *s;  // (an instrumented read of the library's object)
  jitter();
  int r = pthread_sigmask(how, s ? &in : NULL, o ? &out : NULL);
  if (r == 0 && o) *o = out;
  return r;
}
ssize_t vs_read(int fd, void *b, size_t n) { jitter(); return read(fd, b, n); }
ssize_t vs_write(int fd, const void *b, size_t n) { jitter(); return write(fd, b, n); }
int vs_sigaction(int s, const struct sigaction *a, struct sigaction *o)
{
  struct sigaction out;
  int r = sigaction(s, a, o ? &out : NULL);
  if (r == 0 && o) *o = out;
  return r;
}
int vs_sigemptyset(sigset_t *s)
{
  sigset_t tmp;
  int r = sigemptyset(&tmp);
  if (r == 0) *s = tmp;
  return r;
}
int vs_sigfillset(sigset_t *s)
{
  sigset_t tmp;
  int r = sigfillset(&tmp);
  if (r == 0) *s = tmp;
  return r;
}
pid_t vs_waitpid(pid_t p, int *st, int o)
{
  int tmp = 0;
  jitter();
  pid_t r = waitpid(p, &tmp, o);
  if (r > 0 && st) *st = tmp;
  return r;
}

// alternates (see vsys.c): plain pass-through
#include <sys/socket.h>
#include <sys/time.h>
int vs_pipe2(int fds[2], int flags) { jitter(); return pipe2(fds, flags); }
int vs_dup(int fd) { jitter(); return dup(fd); }
int vs_dup3(int a, int b, int f) { return dup3(a, b, f); }
int vs_sigprocmask(int how, const sigset_t *s, sigset_t *o) { return vs_pthread_sigmask(how, s, o); }
int vs_ppoll(struct pollfd *f, nfds_t n, const struct timespec *ts, const sigset_t *m) { jitter(); return ppoll(f, n, ts, m); }
pid_t vs_wait4(pid_t p, int *st, int o, void *ru) { jitter(); return wait4(p, st, o, (struct rusage *) ru); }
int vs_waitid(int t, id_t id, siginfo_t *i, int o) { jitter(); return waitid((idtype_t) t, id, i, o); }
int vs_openat(int d, const char *p, int fl, ...)
{
  va_list ap;
  va_start(ap, fl);
  int mode = va_arg(ap, int);
  va_end(ap);
  jitter();
  return openat(d, p, fl, mode);
}
int vs_close_range(unsigned lo, unsigned hi, int flags)
{
  for (unsigned fd = lo; fd <= hi && fd < 65536; fd++) close((int) fd);
  (void) flags;
  return 0;
}
void vs__Exit(int s) { _exit(s); }
int vs_execv(const char *p, char *const a[]) { return execv(p, a); }
int vs_execve(const char *p, char *const a[], char *const e[]) { return execve(p, a, e); }
int vs_execvpe(const char *p, char *const a[], char *const e[]) { return execvpe(p, a, e); }
pid_t vs_vfork(void) { jitter(); return fork(); }
int vs_socketpair(int d, int t, int p, int sv[2]) { jitter(); return socketpair(d, t, p, sv); }
int vs_gettimeofday(struct timeval *tv, void *tz) { return gettimeofday(tv, (struct timezone *) tz); }
