// vsys: the shim between the (unmodified, object-renamed) reproc library and
// libc. Every libc boundary function `f` the library references has been
// renamed to `vs_f` in the library's objects (objcopy --redefine-syms), so the
// definitions in vsys.c are what the library actually calls.
#pragma once

#include <poll.h>
#include <stddef.h>
#include <stdint.h>
#include <sys/types.h>

#ifdef __cplusplus
extern "C" {
#endif

enum vs_fn {
  VS_EXIT,
  VS_CALLOC,
  VS_CHDIR,
  VS_CLOCK,
  VS_CLOSE,
  VS_DUP2,
  VS_EXECVP,
  VS_FCNTL,
  VS_FILENO,
  VS_FORK,
  VS_FREE,
  VS_GETCWD,
  VS_GETRLIMIT,
  VS_KILL,
  VS_MALLOC,
  VS_OPEN,
  VS_PIPE,
  VS_POLL,
  VS_SIGMASK,
  VS_READ,
  VS_REALLOC,
  VS_SIGACTION,
  VS_SIGEMPTYSET,
  VS_SIGFILLSET,
  VS_STRDUP,
  VS_WAITPID,
  VS_WRITE,
  VS_NFN
};

extern const char *const vs_fn_name[VS_NFN];

enum { VS_PARENT = 0, VS_CHILD = 1 };

// One record per boundary call (both sides of fork log into the same shared
// array).
struct vs_rec {
  uint32_t seq;
  uint8_t side;
  uint8_t fn;
  uint8_t faulted;  // 1 = result was injected
  uint8_t probing;  // 1 = child-side close-loop probing fcntl / not a fault point
  int32_t fidx;     // index among the fault points of that side, or -1
  int32_t err;      // errno after the call when it failed
  int64_t a0, a1, a2;
  int64_t ret;
};

enum vs_fault_kind {
  VS_FK_ERRNO = 0,   // fail with errno `err`
  VS_FK_VALUE = 1,   // succeed but report `value` (getrlimit: rlim_cur)
  VS_FK_SHORT = 2,   // write/read: transfer only 1 byte
};

struct vs_fault {
  int32_t side;
  int32_t index;  // fault-point index on that side
  int32_t fn;     // expected function at that index (-1 = any)
  int32_t kind;
  int32_t err;
  int64_t value;
  int32_t fired;     // set by the shim when applied
  int32_t mismatch;  // set when the call at `index` was not `fn`
};

enum { VS_MAXREC = 16384, VS_MAXFAULT = 4, VS_MAXVIOL = 32, VS_VIOLLEN = 200 };

// Lives in MAP_SHARED memory so that the forked, pre-exec child side of
// reproc_start logs into the same trace and obeys the same fault plan.
struct vs_shared {
  uint32_t nrec;
  uint32_t dropped;
  uint32_t fidx[2];
  uint32_t fncount[2][64];    // calls per side and function (for faults addressed by ordinal of their function)
  int32_t nfaults;
  struct vs_fault faults[VS_MAXFAULT];
  int32_t child_loop;         // child-side close-loop state machine
  int32_t child_last_probe;   // last successfully probed fd, -1 if none
  struct vs_rec rec[VS_MAXREC];
};

extern struct vs_shared *vs_sh;

// --- configuration -----------------------------------------------------------

// Allocate the shared page (once per process; call again after the worker
// forks a case process to get a fresh one is not needed: vs_reset clears it).
void vs_init(void);
// Clear trace, fault plan, ledger (fds, heap, children) and violations.
void vs_reset(void);
void vs_reset_light(void);
// Trace on/off (ledger bookkeeping is always on).
void vs_trace(int on);
// DRY mode: a tiny fake kernel, nothing reaches the real one except memory
// allocation and fileno.
void vs_dry(int on);
// While > 0 the calling code is "inside the library": the ledger only records
// calls made in that window. The harness brackets every API call.
void vs_enter(void);
void vs_leave(void);
int vs_inside(void);

// Fail the n-th (0-based) parent-side call of function `fn` from now on:
// realloc with ENOMEM; poll, waitpid, read and write with EINTR. (-1, -1) disarms.
void vs_fail_nth(int fn, int n);
// ... with a chosen errno (waitpid + ECHILD: the child is collected by the shim first, as by a foreign reaper).
void vs_fail_nth_err(int fn, int n, int err);
unsigned vs_nth_fired(void);
// Shrink every pipe the library creates from now on to `bytes` (0: leave the default).
void vs_pipe_capacity(int bytes);  // how many such failures have been delivered so far
void vs_add_fault(struct vs_fault f);
void vs_clear_faults(void);

// --- ledger queries (parent side, process local) ----------------------------

int vs_nviol(void);
const char *vs_viol(int i);
void vs_add_viol(const char *fmt, ...);

// Number of descriptors created by the library that are still open.
int vs_own_open_fds(int *out, int max);
// Every descriptor the library ever created (pipe/open) in this case.
int vs_own_ever(int fd);
void vs_heap_adopt(void *p, size_t n);
size_t vs_heap_live_blocks(void);
size_t vs_heap_live_bytes(void);
// pids returned by fork to the parent and not yet successfully reaped.
int vs_live_children(pid_t *out, int max);
int vs_all_children(pid_t *out, int max);  // every pid fork ever returned
int vs_reaps(pid_t pid);                   // successful waitpid count for pid
int vs_is_live(pid_t pid);

struct vs_sig {
  pid_t pid;
  int sig;
  int forwarded;
  int ret;
  int err;
  int64_t vtime;  // filled by the scheduler hook
};
int vs_nsig(void);
struct vs_sig vs_sig_at(int i);

// --- hooks (VTIME engine; NULL = forward to the kernel) -----------------------

struct vs_hooks {
  int (*clock)(int64_t *ms);  // return 1 if handled
  // return 1 if handled and *ret/*err filled
  int (*poll)(struct pollfd *fds, nfds_t n, int timeout, int *ret, int *err);
  // called before a read/write on fd that is in blocking mode; the hook waits
  // (in virtual time) until the fd is ready. Return value ignored.
  void (*before_blocking_read)(int fd);
  // for blocking writes the hook performs the whole write. Return 1 if handled.
  int (*blocking_write)(int fd, const void *buf, size_t n, ssize_t *ret,
                        int *err);
  void (*after_kill)(pid_t pid, int sig, int ret);
  void (*before_waitpid)(pid_t pid, int options);
  int64_t (*now)(void);
};
extern struct vs_hooks vs_hooks;

// Counters a property may read.
struct vs_counts {
  uint32_t calls[VS_NFN];
};
extern struct vs_counts vs_counts;  // parent side, inside-library calls only

#ifdef __cplusplus
}
#endif
