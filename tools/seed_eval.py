#!/usr/bin/env python3
"""Confirm a sub-agent's seeded change and run our checks against it.
usage: seed_eval.py <seed-dir e.g. /tmp/seed-C07> <name e.g. C07-a> <property ids to run, comma separated> [--extra-cmake '-DREPROC++=ON']
 1. in the agent's worktree: apply mutant/patch.diff, build, run the pinned tests (must pass), run mutant/run_demo.sh (must fail);
    revert, rebuild, run_demo.sh (must pass)
 2. run ./check <id> (quick) against a scratch worktree with the patch (tools/trymutant.py)
 3. copy patch, demonstration and notes to /verif/seeded/<name>/ with meta.json
"""
import json, os, shutil, subprocess, sys, time
VERIF = os.path.dirname(os.path.dirname(os.path.abspath(__file__)))
seed, name, ids = sys.argv[1], sys.argv[2], sys.argv[3]
extra = sys.argv[sys.argv.index("--extra-cmake") + 1] if "--extra-cmake" in sys.argv else ""
mut = os.path.join(seed, "mutant")
patch = os.path.join(mut, "patch.diff")

def sh(cmd, cwd=seed, timeout=900):
    p = subprocess.run(cmd, shell=True, cwd=cwd, stdout=subprocess.PIPE, stderr=subprocess.STDOUT, text=True, errors="replace", timeout=timeout)
    return p.returncode, p.stdout

def build():
    rc, out = sh("cmake -G Ninja -S . -B _build -DCMAKE_BUILD_TYPE=RelWithDebInfo -DREPROC_TEST=ON %s -DCMAKE_C_FLAGS=-Wno-error >/dev/null && cmake --build _build 2>&1 | tail -3" % extra)
    return rc == 0, out

meta = {"name": name, "property": ids.split(",")[0], "checks_run": ids.split(","), "base_commit": subprocess.run(["git", "-C", seed, "rev-parse", "HEAD"], stdout=subprocess.PIPE, text=True).stdout.strip()}
sh("git checkout -- . ")
rc, out = sh("git apply --check mutant/patch.diff")
meta["patch_applies"] = rc == 0
if rc != 0:
    print("PATCH DOES NOT APPLY", out)
    sys.exit(2)
sh("git apply mutant/patch.diff")
ok, out = build()
meta["compiles_with_change"] = ok
rc, out = sh("ctest --test-dir _build -j8 2>&1 | tail -4")
meta["pinned_tests_pass_with_change"] = "100% tests passed" in out
rc1, out1 = sh("bash -c 'set -o pipefail; sh mutant/run_demo.sh 2>&1 | tail -15'", timeout=600)
meta["demo_fails_with_change"] = rc1 != 0
meta["demo_output_with_change"] = out1[-1200:]
sh("git checkout -- .")
ok2, _ = build()
rc2, out2 = sh("bash -c 'set -o pipefail; sh mutant/run_demo.sh 2>&1 | tail -5'", timeout=600)
meta["demo_passes_without_change"] = rc2 == 0
print(json.dumps({k: meta[k] for k in ("patch_applies", "compiles_with_change", "pinned_tests_pass_with_change", "demo_fails_with_change", "demo_passes_without_change")}))
confirmed = meta["compiles_with_change"] and meta["pinned_tests_pass_with_change"] and meta["demo_fails_with_change"] and meta["demo_passes_without_change"]
meta["confirmed"] = confirmed
# our checks
t0 = time.time()
p = subprocess.run([os.path.join(VERIF, "tools", "trymutant.py"), patch, ids], stdout=subprocess.PIPE, stderr=subprocess.STDOUT, text=True)
print(p.stdout)
meta["checks"] = {}
for line in p.stdout.splitlines():
    parts = line.split()
    if len(parts) >= 4 and parts[1].startswith("seed="):
        meta["checks"][parts[0]] = parts[3]
meta["check_output"] = p.stdout[-2500:]
meta["check_wall_s"] = round(time.time() - t0)
notes = open(os.path.join(mut, "NOTES.md")).read() if os.path.exists(os.path.join(mut, "NOTES.md")) else ""
meta["needs_to_manifest"] = ""
dst = os.path.join(VERIF, "seeded", name)
if confirmed:
    os.makedirs(dst, exist_ok=True)
    for fn in os.listdir(mut):
        src = os.path.join(mut, fn)
        if os.path.isfile(src) and os.path.getsize(src) < 200000 and not fn.endswith((".o", ".a")) and os.access(src, os.R_OK):
            # skip compiled demonstration binaries
            with open(src, "rb") as f:
                head = f.read(4)
            if head == b"\x7fELF":
                continue
            shutil.copy(src, dst)
    json.dump(meta, open(os.path.join(dst, "meta.json"), "w"), indent=1)
    print("kept as", dst)
else:
    print("NOT CONFIRMED - not kept")
