#!/usr/bin/env python3
"""Confirm a sub-agent's Windows-side seed and run the engine-W2 binaries against it.
usage: wseed_eval.py <seed dir e.g. /tmp/seedw-C11> <name e.g. C11-w>
 1. in the agent's worktree: apply mutant/patch.diff, run mutant/run_demo.sh (must fail); revert, run it again (must pass)
 2. tools/winmut.sh on the patch (every engine-W2 binary, quick sweep + 5000 random cases) and ./check C18 for process.windows.c changes
 3. copy patch, demonstration and notes to /verif/seeded/<name>/ with meta.json"""
import json, os, shutil, subprocess, sys
VERIF = os.path.dirname(os.path.dirname(os.path.abspath(__file__)))
seed, name = sys.argv[1], sys.argv[2]
mut = os.path.join(seed, "mutant")
patch = os.path.join(mut, "patch.diff")
def sh(cmd, timeout=900):
    p = subprocess.run(cmd, shell=True, cwd=seed, stdout=subprocess.PIPE, stderr=subprocess.STDOUT, text=True, errors="replace", timeout=timeout)
    return p.returncode, p.stdout
meta = {"name": name, "property": name[:3], "windows_side": True, "base_commit": subprocess.run(["git", "-C", seed, "rev-parse", "HEAD"], stdout=subprocess.PIPE, text=True).stdout.strip()}
sh("git checkout -- .")
rc, out = sh("git apply --check mutant/patch.diff")
meta["patch_applies"] = rc == 0
if rc != 0:
    print("PATCH DOES NOT APPLY", out); sys.exit(2)
sh("git apply mutant/patch.diff")
rc1, out1 = sh("bash -c 'set -o pipefail; sh mutant/run_demo.sh 2>&1 | tail -12'", timeout=900)
meta["demo_fails_with_change"] = rc1 != 0
meta["demo_output_with_change"] = out1[-1000:]
sh("git checkout -- .")
rc2, out2 = sh("bash -c 'set -o pipefail; sh mutant/run_demo.sh 2>&1 | tail -5'", timeout=900)
meta["demo_passes_without_change"] = rc2 == 0
print(json.dumps({k: meta[k] for k in ("patch_applies", "demo_fails_with_change", "demo_passes_without_change")}))
confirmed = meta["demo_fails_with_change"] and meta["demo_passes_without_change"]
meta["confirmed"] = confirmed
p = subprocess.run([os.path.join(VERIF, "tools", "winmut.sh"), patch], stdout=subprocess.PIPE, stderr=subprocess.STDOUT, text=True, errors="replace")
print(p.stdout.strip()[-1200:])
meta["w2_result"] = p.stdout.strip()[-1500:]
meta["checks"] = {}
for tok in p.stdout.split():
    if "=" in tok and tok.split("=")[0].startswith("C"):
        k, v = tok.split("=", 1)
        meta["checks"][k] = v
if "process.windows.c" in open(patch).read() or "utf.windows.c" in open(patch).read():
    q = subprocess.run([os.path.join(VERIF, "tools", "trymutant.py"), patch, "C18"], stdout=subprocess.PIPE, stderr=subprocess.STDOUT, text=True, errors="replace")
    for line in q.stdout.splitlines():
        parts = line.split()
        if len(parts) >= 4 and parts[1].startswith("seed="):
            meta["checks"]["C18(stub W)"] = parts[3]
            print("C18 (stub W):", parts[3])
dst = os.path.join(VERIF, "seeded", name)
if confirmed:
    os.makedirs(dst, exist_ok=True)
    for root, dirs, files in os.walk(mut):
        for fn in files:
            src = os.path.join(root, fn)
            rel = os.path.relpath(src, mut)
            if os.path.getsize(src) < 200000 and not fn.endswith((".o", ".a")):
                with open(src, "rb") as f:
                    if f.read(4) == b"\x7fELF":
                        continue
                os.makedirs(os.path.dirname(os.path.join(dst, rel)), exist_ok=True)
                shutil.copy(src, os.path.join(dst, rel))
    json.dump(meta, open(os.path.join(dst, "meta.json"), "w"), indent=1)
    print("kept as", dst)
else:
    print("NOT CONFIRMED - not kept")
