#!/usr/bin/env python3
"""Apply a patch to a scratch worktree of /repo and run checks against it.
usage: trymutant.py <patch.diff> <ID>[,<ID>...] [--tests] [--tier T] [--seeds 1,2,3] [--base <commit>]
Prints for every (ID, seed) whether the check went red. Removes the worktree and its build output afterwards."""
import os, shutil, subprocess, sys, tempfile, hashlib

VERIF = os.path.dirname(os.path.dirname(os.path.abspath(__file__)))
patch = os.path.abspath(sys.argv[1])
ids = sys.argv[2].split(",")
tests = "--tests" in sys.argv
tier = sys.argv[sys.argv.index("--tier") + 1] if "--tier" in sys.argv else "quick"
seeds = sys.argv[sys.argv.index("--seeds") + 1].split(",") if "--seeds" in sys.argv else ["1"]
base = sys.argv[sys.argv.index("--base") + 1] if "--base" in sys.argv else "HEAD"
wt = tempfile.mkdtemp(prefix="verif-mut-", dir="/var/tmp")
os.rmdir(wt)
rc_all = 0
try:
    subprocess.run(["git", "-C", "/repo", "worktree", "add", "--detach", "-q", wt, base], check=True)
    p = subprocess.run(["git", "-C", wt, "apply", patch])
    if p.returncode != 0:
        print("PATCH DOES NOT APPLY")
        sys.exit(2)
    if tests:
        b = os.path.join(wt, "_build")
        q = subprocess.run("cmake -G Ninja -S %s -B %s -DCMAKE_BUILD_TYPE=RelWithDebInfo -DREPROC_TEST=ON -DCMAKE_C_FLAGS=-Wno-error >/dev/null && cmake --build %s >/dev/null && ctest --test-dir %s -j8 --timeout 900 2>&1 | tail -3" % (wt, b, b, b), shell=True, stdout=subprocess.PIPE, text=True)
        print("pinned tests on mutant:", q.stdout.strip().replace("\n", " | "))
    env = dict(os.environ)
    env["VERIF_REPO"] = wt
    for i in ids:
        for s in seeds:
            env["VERIF_SEED"] = s
            q = subprocess.run([os.path.join(VERIF, "check"), i, "--tier", tier], env=env, stdout=subprocess.PIPE, stderr=subprocess.STDOUT, text=True)
            viol = [l for l in q.stdout.splitlines() if l.startswith("VIOLATION") or l.startswith("--- violation")]
            print("%s seed=%s exit=%d %s" % (i, s, q.returncode, "RED" if q.returncode == 1 else "green" if q.returncode == 0 else "BROKEN"))
            for l in viol[:4]:
                print("   ", l)
            if q.returncode == 2:
                print(q.stdout[-1500:])
            # replays written against a mutant do not belong in /verif/replays
            for l in q.stdout.splitlines():
                if l.startswith("VIOLATION") and "replay=" in l:
                    rp = l.split("replay=")[1].strip()
                    if os.path.dirname(rp) == os.path.join(VERIF, "replays") and "--keep" not in sys.argv:
                        tracked = subprocess.run(["git", "-C", VERIF, "ls-files", "--error-unmatch", rp], stdout=subprocess.DEVNULL, stderr=subprocess.DEVNULL).returncode == 0
                        if not tracked:
                            os.unlink(rp)
finally:
    h = hashlib.sha1(os.path.realpath(wt).encode()).hexdigest()[:10]
    shutil.rmtree(os.path.join("/var/tmp", "verif-build-" + h), ignore_errors=True)
    subprocess.run(["git", "-C", "/repo", "worktree", "remove", "--force", wt], stdout=subprocess.DEVNULL, stderr=subprocess.DEVNULL)
    shutil.rmtree(wt, ignore_errors=True)
    subprocess.run(["git", "-C", "/repo", "worktree", "prune"])
