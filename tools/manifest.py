#!/usr/bin/env python3
"""Regenerates /verif/MANIFEST.json from checkconf.py (single source of truth)."""
import json, os, sys
VERIF = os.path.dirname(os.path.dirname(os.path.abspath(__file__)))
sys.path.insert(0, VERIF)
from checkconf import PROPS, NOT_APPLICABLE, ENGINES  # noqa

checks = []
for pid in sorted(PROPS):
    c = PROPS[pid]
    checks.append({
        "property_id": pid,
        "quick_cmd": "./check %s --tier quick" % pid,
        "thorough_cmd": "./check %s --tier thorough" % pid,
        "evidence_file": "/verif/evidence/%s.json" % pid,
        "replay_cmd_template": "./check %s --replay {path}" % pid,
        "engine": c.get("engine", ""),
        "level_claimed": {"category": c["level"], "text": c["level_text"], "design_ref": "DESIGN.md section 4, " + pid},
        "level_note": c["level_note"],
        "technique": c["technique"],
    })
na = list(NOT_APPLICABLE)
listed = {e["property_id"] for e in na}
for line in open(os.path.join(VERIF, "properties.jsonl")):
    line = line.strip()
    if not line:
        continue
    pid = json.loads(line)["id"]
    if pid not in PROPS and pid not in listed:
        na.append({"property_id": pid, "reason": "not claimed at this commit: its check is still under construction (see DESIGN.md section 11 for the order of work); no other technique is substituted"})
NOT_APPLICABLE = na
m = {
    "version": 1,
    "setup_cmd": "make -C /verif -j16 all",
    "hooks": {
        "guard": "REPROC_VERIF",
        "enable": "no source hooks: the checks compile /repo's sources unmodified and interpose at the object level (objcopy --redefine-syms on the libc boundary symbols of the compiled library; a recording mock of the C API for reproc++; stub windows.h for the Windows sources)",
        "baseline_off_cmd": "cmake -G Ninja -S /repo -B /repo/_build -DCMAKE_BUILD_TYPE=RelWithDebInfo -DREPROC_TEST=ON && cmake --build /repo/_build && ctest --test-dir /repo/_build -j8 --timeout 900",
        "source_commits": [],
        "add_only": True,
    },
    "engines": ENGINES,
    "checks": checks,
    "not_applicable": NOT_APPLICABLE,
    "notes": "Driver: ./check <ID> [--tier quick|thorough] [--replay FILE]; honours VERIF_SEED, VERIF_TIER, VERIF_REPO. Known findings / fixed defects: known_findings.json. Seeded property-breaking changes used to validate sensitivity: seeded/<id>/.",
}
json.dump(m, open(os.path.join(VERIF, "MANIFEST.json"), "w"), indent=1)
print("MANIFEST.json: %d checks, %d not applicable" % (len(checks), len(NOT_APPLICABLE)))
