#!/bin/sh
# usage: tools/winmut.sh <patch.diff>...   - which engine-W2 binaries (quick sweep + 5000 random cases) go RED on each patch
cd "$(dirname "$0")/.."
for patch in "$@"; do
  wt=$(mktemp -d /var/tmp/verif-wmut-XXXXXX); rmdir $wt
  git -C /repo worktree add --detach -q $wt HEAD || exit 2
  if ! git -C $wt apply "$(realpath $patch)"; then echo "$patch: DOES NOT APPLY"; git -C /repo worktree remove --force $wt; continue; fi
  b=/var/tmp/verif-wbuild-$$
  if ! make -s -j16 VERIF_REPO=$wt BUILD=$b FWBUILD=/verif/build $b/props/C01win $b/props/C02win $b/props/C03win $b/props/C09win $b/props/C17win $b/props/C04w2 $b/props/C05win $b/props/C06win $b/props/C10win $b/props/C11win >/dev/null 2>$b.err; then echo "$patch: BUILD FAILED"; tail -3 $b.err; fi
  line="$(basename $patch .diff):"
  for p in C01win C02win C03win C04w2 C05win C06win C09win C10win C11win C17win; do
    sig=""
    for mode in "--sweep 0/1" "--random 5000"; do
      $b/props/$p $mode --seed 1 --tier quick --out $b/$p.json >/dev/null 2>&1
      s=$(python3 -c "
import json,sys
try:
  d=json.load(open('$b/$p.json')); f=d.get('failure'); print(f['sig'] if f else '')
except Exception as e: print('CRASH')")
      [ -n "$s" ] && sig="$s" && break
    done
    [ -n "$sig" ] && line="$line $p=RED($sig)" || line="$line $p=green"
  done
  echo "$line"
  rm -rf $b $b.err
  git -C /repo worktree remove --force $wt; git -C /repo worktree prune
done
