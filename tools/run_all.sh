#!/bin/sh
# usage: tools/run_all.sh quick|thorough [ids...]  -- runs the checks one after another, prints one line each
tier=$1; shift
ids="$@"
[ -z "$ids" ] && ids="C01 C02 C03 C04 C05 C06 C07 C08 C09 C10 C11 C12 C13 C14 C15 C16 C17 C18 C19 C20"
cd "$(dirname "$0")/.."
for i in $ids; do
  start=$(date +%s)
  out=$(./check $i --tier $tier 2>&1)
  rc=$?
  echo "$i rc=$rc $(( $(date +%s) - start ))s :: $(echo "$out" | tail -1)"
  [ $rc -ne 0 ] && echo "$out" | tail -20
done
