#!/usr/bin/env python3
"""Runs one libFuzzer campaign as a worker of ./check and writes a result file
in the worker format. usage: fuzz_job.py <property> <fuzz-binary> <out.json> <seconds> <seed> <scratch> [seed-corpus-dir]"""
import json, os, re, shutil, subprocess, sys, time, hashlib

pid, binp, out, seconds, seed, scratch = sys.argv[1:7]
seed_corpus = sys.argv[7] if len(sys.argv) > 7 else None
work = os.path.join(scratch, "fuzz-%s-%s" % (pid, seed))
corpus = os.path.join(work, "corpus")
art = os.path.join(work, "artifacts") + "/"
os.makedirs(corpus, exist_ok=True)
os.makedirs(art, exist_ok=True)
if seed_corpus and os.path.isdir(seed_corpus):
    for fn in os.listdir(seed_corpus):
        shutil.copy(os.path.join(seed_corpus, fn), corpus)
t0 = time.time()
cmd = [binp, corpus, "-max_total_time=%s" % seconds, "-seed=%s" % seed, "-artifact_prefix=" + art,
       "-print_final_stats=1", "-max_len=512", "-timeout=20", "-rss_limit_mb=2048"]
p = subprocess.run(cmd, stdout=subprocess.PIPE, stderr=subprocess.STDOUT, text=True, errors="replace")
execs = 0
m = re.search(r"stat::number_of_executed_units:\s*(\d+)", p.stdout)
if m:
    execs = int(m.group(1))
else:
    ms = re.findall(r"^#(\d+)\s", p.stdout, re.M)
    if ms:
        execs = int(ms[-1])
units = len(os.listdir(corpus))
failure = None
crashes = [f for f in sorted(os.listdir(art)) if f.startswith("crash-") or f.startswith("leak-")]
if crashes:
    data = open(os.path.join(art, crashes[0]), "rb").read()
    # confirm three times
    confirmed = 0
    for _ in range(3):
        q = subprocess.run([binp, os.path.join(art, crashes[0])], stdout=subprocess.PIPE, stderr=subprocess.STDOUT)
        if q.returncode != 0:
            confirmed += 1
    sig = "fuzz-crash"
    m = re.search(r"ORACLE FAILURE sig=(\S+)", p.stdout)
    if m:
        sig = m.group(1)
    else:
        m = re.search(r"ERROR: AddressSanitizer: (\S+)", p.stdout)
        if m:
            sig = "crash:" + m.group(1)
    failure = {"tape": [], "sweep": -1, "fuzz_input_hex": data.hex(), "fuzz_bin": os.path.basename(binp),
               "msg": p.stdout[-3000:], "sig": sig, "describe": {"fuzz_input_len": len(data)}, "confirmed": confirmed}
res = {"property": pid, "evaluations": execs, "shrink_evaluations": 0, "inconclusive": 0, "inconclusive_samples": [],
       "nontrivial_hashes": [], "classes": {"fuzz-execs": execs, "fuzz-corpus-units": units, "fuzz-campaigns": 1},
       "known_hits": {}, "samples": [], "failure": failure, "wall_s": int(time.time() - t0)}
# corpus units are the coverage-distinct inputs the fuzzer kept: count them as distinct non-trivial cases
for fn in os.listdir(corpus):
    res["nontrivial_hashes"].append(int(hashlib.sha1(fn.encode()).hexdigest()[:15], 16))
sample = [f for f in sorted(os.listdir(corpus), key=lambda f: -os.path.getsize(os.path.join(corpus, f)))[:2]]
for fn in sample:
    res["samples"].append({"fuzz_corpus_unit_hex": open(os.path.join(corpus, fn), "rb").read()[:64].hex()})
json.dump(res, open(out, "w"))
shutil.rmtree(work, ignore_errors=True)
sys.exit(1 if failure else 0)
