#!/bin/sh
# usage: tools/seed_round.sh <worktree prefix e.g. /tmp/seed4-> <suffix e.g. d> [ids...]
# Confirms and evaluates a round of sub-agent seeds (tools/seed_eval.py) with the property's own check and its neighbours.
pre=$1; suf=$2; shift 2
ids="$@"; [ -z "$ids" ] && ids="C01 C02 C03 C04 C05 C06 C07 C08 C09 C10 C11 C12 C13 C14 C15 C16 C17 C18 C19 C20"
cd "$(dirname "$0")/.."
for p in $ids; do
  case $p in
    C01) n=C01,C14;; C02) n=C02,C17;; C03) n=C03;; C04) n=C04,C05;; C05) n=C05,C04;; C06) n=C06,C05;; C07) n=C07,C15;; C08) n=C08,C07;; C09) n=C09,C02;;
    C10) n=C10,C05;; C11) n=C11,C10;; C12) n=C12;; C13) n=C13;; C14) n=C14,C04;; C15) n=C15,C05;; C16) n=C16;; C17) n=C17,C02;; C18) n=C18,C03;; C19) n=C19;; C20) n=C20,C11;;
  esac
  ex=""; [ $p = C19 ] && ex="--extra-cmake -DREPROC++=ON"
  [ -f $pre$p/mutant/patch.diff ] || { echo "=== $p: no patch yet"; continue; }
  echo "=== $p"
  timeout 3400 python3 tools/seed_eval.py $pre$p $p-$suf $n $ex 2>&1 | grep -E "patch_applies|seed=|kept|NOT CONF" | cut -c1-250
done
