#!/bin/sh
# usage: tools/refac_eval.sh <worktree with the refactoring applied> <name> [ids...]
# Runs the quick tier of the checks against the refactored tree; every check is expected to stay green.
wt=$1; name=$2; shift 2
ids="$@"
[ -z "$ids" ] && ids="C01 C02 C03 C04 C05 C06 C07 C08 C09 C10 C11 C12 C13 C14 C15 C16 C17 C18 C19 C20"
cd "$(dirname "$0")/.."
dst=seeded/refactorings/$name
mkdir -p $dst
cp $wt/refactor/patch.diff $wt/refactor/NOTES.md $dst/ 2>/dev/null
: > $dst/result.txt
for i in $ids; do
  out=$(VERIF_REPO=$wt ./check $i --tier quick 2>&1)
  rc=$?
  echo "$i rc=$rc :: $(echo "$out" | tail -1)" | tee -a $dst/result.txt
  if [ $rc -ne 0 ]; then echo "$out" | grep -E "^--- violation|^check broken|WARNING" -A3 | head -30 | tee -a $dst/result.txt; fi
  # replays written against a refactored tree do not belong in /verif/replays
  for f in $(echo "$out" | grep '^VIOLATION' | sed 's/.*replay=//'); do git ls-files --error-unmatch "$f" >/dev/null 2>&1 || rm -f "$f"; done
done
h=$(python3 -c "import hashlib,os,sys; print(hashlib.sha1(os.path.realpath(sys.argv[1]).encode()).hexdigest()[:10])" $wt)
rm -rf /var/tmp/verif-build-$h
