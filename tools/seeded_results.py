#!/usr/bin/env python3
"""Regenerates seeded/RESULTS.md from seeded/*/meta.json."""
import json, os, glob
VERIF = os.path.dirname(os.path.dirname(os.path.abspath(__file__)))
rows = []
for m in sorted(glob.glob(os.path.join(VERIF, "seeded", "*", "meta.json"))):
    d = json.load(open(m))
    notes = os.path.join(os.path.dirname(m), "NOTES.md")
    first = ""
    if os.path.exists(notes):
        for line in open(notes):
            line = line.strip()
            if line and not line.startswith("#"):
                first = line[:260]
                break
    checks = ", ".join("%s: %s" % (k, v) for k, v in sorted(d.get("checks", {}).items()))
    rows.append((d["name"], d["property"], d.get("summary", first), checks, d.get("history", "")))
with open(os.path.join(VERIF, "seeded", "RESULTS.md"), "w") as f:
    f.write("# Seeded property-breaking changes (written by independent sub-agents that saw only the property text)\n\n")
    f.write("Each directory holds `patch.diff` (applies to /repo at the commit in meta.json), the demonstration (`demo.*`, `run_demo.sh`), the author's `NOTES.md` and `meta.json` "
            "(what was confirmed: compiles, pinned tests pass, demonstration fails with the change and passes without; which of our quick checks went RED). "
            "To re-run: `tools/trymutant.py seeded/<name>/patch.diff <ID>[,<ID>...]` (scratch worktree, removed afterwards).\n\n")
    f.write("| name | property | change (author's words, abridged) | our checks (quick tier, seed 1) | remarks |\n|---|---|---|---|---|\n")
    for r in rows:
        f.write("| %s | %s | %s | %s | %s |\n" % tuple(str(x).replace("|", "\\|").replace("\n", " ") for x in r))
print(len(rows), "seeded changes")
