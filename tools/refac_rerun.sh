#!/bin/sh
# usage: tools/refac_rerun.sh [names...]  - re-applies the saved behaviour-preserving refactorings (seeded/refactorings/<name>/patch.diff)
# to a scratch worktree of /repo's HEAD and runs every quick check against it; writes seeded/refactorings/<name>/result.txt
cd "$(dirname "$0")/.."
names="$@"; [ -z "$names" ] && names=$(ls seeded/refactorings | grep '^R[0-9]')
for n in $names; do
  wt=/var/tmp/verif-refac-$n
  git -C /repo worktree add --detach -q $wt HEAD || continue
  if git -C $wt apply "$(pwd)/seeded/refactorings/$n/patch.diff"; then
    mkdir -p $wt/refactor; cp seeded/refactorings/$n/patch.diff seeded/refactorings/$n/NOTES.md $wt/refactor/ 2>/dev/null
    tools/refac_eval.sh $wt $n >/dev/null 2>&1
    echo "$n $(grep -c 'rc=0' seeded/refactorings/$n/result.txt)/$(grep -c 'rc=' seeded/refactorings/$n/result.txt)"
    grep -v "rc=0" seeded/refactorings/$n/result.txt | head -6 | cut -c1-400
  else
    echo "$n: patch does not apply to HEAD"
  fi
  git -C /repo worktree remove --force $wt; git -C /repo worktree prune
done
