#!/usr/bin/env python3
"""kf.py fixed|known <property> <commit-or-signature> <signature> <text> [replay]  -- append an entry to known_findings.json"""
import json, sys, os
VERIF = os.path.dirname(os.path.dirname(os.path.abspath(__file__)))
p = os.path.join(VERIF, "known_findings.json")
d = json.load(open(p))
kind, prop, commit, sig, text = sys.argv[1:6]
replay = sys.argv[6] if len(sys.argv) > 6 else None
if kind == "fixed":
    d["findings"].append({"property": prop, "status": "fixed", "commit": commit, "signature": sig,
                          "line": "fixed: property=%s %s %s" % (prop, commit, text), "replay": replay})
else:
    d["findings"].append({"property": prop, "status": "known", "signature": sig, "note": text, "replay": replay})
json.dump(d, open(p, "w"), indent=1)
