#!/bin/sh
# usage: tools/refac_partial.sh "<ids>" [names...] - like refac_rerun.sh for a subset of checks; appends to
# seeded/refactorings/<name>/result-partial.txt instead of replacing result.txt
cd "$(dirname "$0")/.."
ids="$1"; shift
names="$@"; [ -z "$names" ] && names=$(ls seeded/refactorings | grep '^R[0-9]')
for n in $names; do
  wt=/var/tmp/verif-refac-$n
  git -C /repo worktree add --detach -q $wt HEAD || continue
  if git -C $wt apply "$(pwd)/seeded/refactorings/$n/patch.diff"; then
    : > seeded/refactorings/$n/result-partial.txt
    for i in $ids; do
      out=$(VERIF_REPO=$wt ./check $i --tier quick 2>&1); rc=$?
      echo "$i rc=$rc :: $(echo "$out" | tail -1)" >> seeded/refactorings/$n/result-partial.txt
      [ $rc -ne 0 ] && echo "$out" | grep -E "^--- violation|^check broken|WARNING" -A3 | head -30 >> seeded/refactorings/$n/result-partial.txt
      for f in $(echo "$out" | grep '^VIOLATION' | sed 's/.*replay=//'); do git ls-files --error-unmatch "$f" >/dev/null 2>&1 || rm -f "$f"; done
    done
    echo "$n $(grep -c 'rc=0' seeded/refactorings/$n/result-partial.txt)/$(grep -c 'rc=' seeded/refactorings/$n/result-partial.txt)"
    grep -v "rc=0" seeded/refactorings/$n/result-partial.txt | head -6 | cut -c1-400
    h=$(python3 -c "import hashlib,os,sys; print(hashlib.sha1(os.path.realpath(sys.argv[1]).encode()).hexdigest()[:10])" $wt)
    rm -rf /var/tmp/verif-build-$h
  else
    echo "$n: patch does not apply to HEAD"
  fi
  git -C /repo worktree remove --force $wt; git -C /repo worktree prune
done
