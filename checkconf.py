"""Per-property configuration of the checks: which binaries, how many cases per
tier, the non-triviality rule, essential classes, assumptions."""

PROPS = {}


def prop(pid, **kw):
    PROPS[pid] = kw


prop(
    "C19",
    title="reproc++ is a faithful mapping of the C API",
    level="exploration",
    campaigns=[dict(bin="C19", random=dict(quick=200000, thorough=4000000))],
    rule=("rapidcheck-generated scenarios: random reproc::options (every field independent, distinct sentinels), "
          "arguments/env from 5 container kinds each, start or fork, optionally through options::clone, then 0-6 "
          "wrapper-method calls with generated arguments and generated C return values (0, 1, positive, each named "
          "REPROC_E*, -1..-200, INT_MAX), all against a recording mock of the C API. Non-trivial: at least two "
          "boolean/enum option fields differ from their defaults, or a negative C return value was used. Distinct: "
          "hash of (container kinds, enum/boolean field values, op kinds, sign classes of return values)."),
    essential=dict(quick=["negative-return", "two-nondefault-fields"]),
    assumptions=[
        "reproc++/src/reproc.cpp and headers compiled unmodified with clang++ -std=gnu++11/17, ASan+UBSan",
        "the C API is replaced by a recording mock; C constants REPROC_E* come from the real error.posix.c",
        "input's string-literal constructor (size includes the NUL) is outside the property's wording",
        "options.timeout has no C counterpart and is not compared",
    ],
)
