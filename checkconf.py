"""Per-property configuration of the checks: which binaries, how many cases per
tier, the non-triviality rule, essential classes, assumptions."""

PROPS = {}

# Properties not (yet) claimed, each with a reason. Kept current by hand.
NOT_APPLICABLE = []

ENGINES = [
    dict(name="cxxmock", path="src/props/C19.cpp", serves_properties=["C19"],
         kind_free_text="rapidcheck-generated scenarios against reproc++ linked to a recording mock of the C API"),
    dict(name="winstub", path="src/winstub + src/props/C18.cpp + src/fuzz/C18_fuzz.cpp", serves_properties=["C18"],
         kind_free_text="Windows sources compiled on stub headers; exhaustive small-scope sweep + rapidcheck + libFuzzer with a round-trip oracle"),
    dict(name="vtime", path="src/common/vtime.hpp + src/vsys (hooks) + src/puppet.c + src/model/*.hpp", serves_properties=["C01", "C07", "C08", "C09", "C15", "C17"],
         kind_free_text="discrete-event scheduler with a virtual millisecond clock behind clock_gettime/poll/blocking read/write/waitpid; real kernel pipes and signals; scripted children; reference models as oracles"),
    dict(name="tsan", path="src/vsys/vsys_mt.c + src/props/C20.cpp", serves_properties=["C20", "C11"],
         kind_free_text="ThreadSanitizer build of the unmodified library behind a thread-safe pass-through shim with seeded yields; generated multi-thread plans against scripted children"),
    dict(name="dry", path="src/vsys/vsys.c (DRY mode) + src/model/options_model.hpp + src/props/C13.cpp", serves_properties=["C13"],
         kind_free_text="real reproc_start against a fake kernel in the shim; exhaustive enumeration of the option rule cube against an executable model of reproc.h"),
    dict(name="real", path="src/vsys + src/puppet.c + src/common/harness.cpp", serves_properties=["C03", "C04", "C05", "C06", "C10", "C11", "C12"],
         kind_free_text="real clock, real kernel: unmodified library objects with libc boundary renamed to the vsys shim (ledger, fault injection), scripted child (puppet) that reports its entry state"),
]


def prop(pid, **kw):
    PROPS[pid] = kw


prop(
    "C19",
    title="reproc++ is a faithful mapping of the C API",
    level="exploration",
    engine="cxxmock",
    level_text=("Random generated options/containers/method calls/return values (2e5 quick, 4e6 thorough) with field-by-field "
                "comparison at a recording mock; every field has a distinct sentinel so positional mix-ups cannot cancel. Sampling, not proof."),
    level_note="Trusts the mock's recording of arguments and libstdc++'s error_code equivalence; reproc++ sources compiled unmodified.",
    technique="property-based testing (rapidcheck-generated scenarios) against a recording mock; field-wise differential oracle",
    campaigns=[dict(bin="C19", random=dict(quick=200000, thorough=4000000))],
    rule=("rapidcheck-generated scenarios: random reproc::options (every field independent, distinct sentinels), "
          "arguments/env from 5 container kinds each, start or fork, optionally through options::clone, then 0-6 "
          "wrapper-method calls with generated arguments and generated C return values (0, 1, positive, each named "
          "REPROC_E*, -1..-200, INT_MAX), all against a recording mock of the C API. Non-trivial: at least two "
          "boolean/enum option fields differ from their defaults, or a negative C return value was used. Distinct: "
          "hash of (container kinds, enum/boolean field values, op kinds, sign classes of return values)."),
    essential=dict(quick=["negative-return", "two-nondefault-fields"]),
    assumptions=[
        "reproc++/src/reproc.cpp and headers compiled unmodified with clang++ -std=gnu++11/17, ASan+UBSan",
        "the C API is replaced by a recording mock; C constants REPROC_E* come from the real error.posix.c",
        "input's string-literal constructor (size includes the NUL) is outside the property's wording",
        "options.timeout has no C counterpart and is not compared",
    ],
)

prop(
    "C18",
    title="Windows command line and environment block encode argv/env losslessly, in bounds",
    level="exploration",
    engine="winstub",
    level_text=("Exhaustive enumeration of all single arguments up to length 6/8 and pairs up to length 3/4 over the special "
                "alphabet, plus random long vectors and coverage-guided libFuzzer campaigns, all through the real process_start "
                "of the Windows sources compiled on stub headers; round-trip oracle with two independent splitters, exact "
                "buffer-size comparison, ASan redzones. Exhaustive only for the stated small scope."),
    level_note="Trusts the stub Win32 layer (MultiByteToWideChar, CreateProcessW capture) and the independently written splitters; no real Windows.",
    technique="exhaustive small-scope enumeration + property-based testing (rapidcheck) + coverage-guided fuzzing (libFuzzer), round-trip oracle",
    campaigns=[dict(bin="C18", sweep=True, random=dict(quick=40000, thorough=600000),
                    extra=dict(
                        quick=[["{verif}/tools/fuzz_job.py", "C18", "{bd}/fuzz/C18_fuzz", "{out}", "15", str(s), "{scratch}"] for s in (11, 12, 13, 14)],
                        thorough=[["{verif}/tools/fuzz_job.py", "C18", "{bd}/fuzz/C18_fuzz", "{out}", "300", str(s), "{scratch}"] for s in range(21, 37)]))],
    extra_targets=["fuzz/C18_fuzz"],
    rule=("Sweep (exhaustive): every single argument of length <= 6 (thorough: 8) over {space, tab, newline, VT, quote, "
          "backslash, 'a'} and every pair of arguments of length <= 3 (thorough: 4); random: rapidcheck vectors of 0-40 "
          "arguments (lengths to 5000, the same alphabet plus multi-byte and invalid UTF-8), extra-env lists of 0-50 "
          "entries, parent blocks of 0-50 entries (incl. '=C:=...' entries), extend/empty, extra NULL, an allocation "
          "failure at a generated allocation index. Each case runs the real process_start of process.windows.c on stub "
          "headers; oracle = round-trip through two independent splitters (post-2008 CRT and CommandLineToArgvW quote "
          "rules), decoded environment block == parent ++ extra, requested buffer sizes == units used, ASan. "
          "Non-trivial: some argument is empty, contains a quote, or has a backslash directly before a quote or at the "
          "end of an argument that needs quoting. Distinct: hash of the argument vector (+ env for random cases)."),
    essential=dict(quick=["sweep-single", "sweep-pair", "random", "empty-argument", "env-extend-with-extras", "alloc-fault", "cleanly-rejected", "fuzz-execs"]),
    exhaustive=dict(quick=True, thorough=True),
    exhaustive_scope="all single arguments of length <= 6 (quick) / 8 (thorough) and all argument pairs of length <= 3 / 4 over the 7-letter alphabet; the random part is not exhaustive",
    assumptions=[
        "Windows sources compiled unmodified with -D_WIN32 against a stub windows.h on Linux; wchar_t is 32-bit but holds UTF-16 code units (the stub MultiByteToWideChar emits surrogate pairs)",
        "CreateProcessW, GetEnvironmentStringsW are stubs that record / supply data; real Windows process creation is out of reach",
        "the program token (argv[0]) is drawn from names without quotes that do not end in a backslash (the Windows rule for the program token differs)",
        "the splitters are written from Microsoft's documented rules, not from the code under test",
    ],
)

prop(
    "C03",
    title="Launch fidelity: argv, environment, working directory and program resolution",
    level="exploration",
    engine="real",
    campaigns=[dict(bin="C03", random=dict(quick=6000, thorough=120000)),
               # Windows half on engine W2 (src/winsim): the _WIN32 build of the whole library on the in-memory Win32 simulator
               dict(bin="C03win", sweep=True, random=dict(quick=20000, thorough=400000), workers=4, optional=True)],
    level_text=("Each generated case starts the scripted child through the real reproc_start and compares the child's own "
                "entry snapshot (argv, envp as a sequence, cwd identity, executed image) with what was requested; parent "
                "environ, cwd depth (to beyond PATH_MAX), program naming (absolute, ./x, a/b/x, ../x, PATH) and a decoy "
                "program below the child's working directory are generated. Sampling, not proof."),
    level_note="Trusts the puppet's snapshot code and /proc; kernel exec semantics are the real kernel's. Linux only.",
    technique="property-based testing (rapidcheck tape) against real child processes; oracle = the child's own report (round-trip)",
    rule=("argv[1..n] with n in {0, 1-6, 7-40, 100-300}, strings of arbitrary non-NUL bytes (lengths 0, 1-10, 11-300, 1000-100000); "
          "env.extra NULL / empty / 1-8 / 50-300 NAME=VALUE entries incl. duplicates, empty values, several '='; extend/empty; "
          "parent environ replaced by 0-200 generated entries; working directory none / absolute / relative / deep; program "
          "named absolutely, ./x, sub/dir/x, ../d/x or bare through PATH; parent cwd shallow / ~1000 / ~3900 / beyond 4096 bytes. "
          "Non-trivial: an argument that is empty or has whitespace/quote/backslash/'='/non-ASCII bytes, or extend-mode with extras, or a "
          "relative program with a working directory, or cwd beyond PATH_MAX. Distinct: hash of all strings and the kind selectors."),
    essential=dict(quick=["odd-argument", "extend-with-extras", "env-empty", "relative-program+working-directory", "decoy-planted", "cwd-beyond-PATH_MAX", "PATH-search", "many-arguments", "two-launches-in-one-process"]),
    assumptions=[
        "PATH-searched programs: PATH is among the inherited parent entries and not overridden by extras (which PATH counts is undocumented)",
        "beyond PATH_MAX only a clean outcome (success, or a negative return, no memory error, ledger clean) is required",
        "total argv+env kept below ~600 KB (ARG_MAX), single strings below 128 KiB (MAX_ARG_STRLEN)",
    ],
)

prop(
    "C13",
    title="Conflicting or unsatisfiable options are rejected up front, with no side effect",
    level="exploration",
    engine="dry",
    campaigns=[dict(bin="C13", sweep=True, random=dict(quick=100000, thorough=2000000))],
    level_text=("The real reproc_start is run against a fake kernel inside the shim for every cell of the rule cube "
                "{11 type values x handle/file/path set/unset}^3 x 16 shorthand combinations (thorough: all 10.9 M cells; quick: a rotating "
                "1/8 stride plus all one-stream planes), for every start-up-input and fork/argv form on a stride of the cube, and - in both tiers - "
                "for every combination of locally consistent stream settings x shorthands x input/fork forms (where all valid cells live); each result "
                "is compared with an independent transcription of the rules in reproc.h. Exhaustive over the cube in the thorough tier."),
    level_note=("Trusts the transcription of reproc.h in src/model/options_model.hpp (cells the header leaves open are 'unspecified' and accept both outcomes) "
                "and the DRY fake kernel; real descriptor identities for valid combinations are checked by C10."),
    technique="exhaustive enumeration of the option rule table + rapidcheck sampling, differential against an executable model of the documented rules, side effects observed at the libc boundary",
    rule=("Cells: per stream type in {0..7, 8, -1, 1000} x {handle, file, path} set/unset; x parent, discard, file-shorthand, path-shorthand; x input in "
          "{none, data+size, data+0, NULL+size}; x (fork, argv) in {(0,valid),(0,NULL),(0,{NULL}),(1,NULL),(1,valid)}. Invalid by the model => REPROC_EINVAL and no pipe/open/fork/"
          "fileno/allocation between entry and return; valid => not EINVAL, at most one fork, and the parent holds a pipe end exactly for the streams whose effective redirect is a pipe (what the child's "
          "streams really are is C10's identity oracle). Non-trivial: at least two independent rules involved (type set, field set, shorthand, input form, fork form). "
          "Distinct: cell index (sweep cells are unique by construction; random cases are not counted)."),
    essential=dict(quick=["sweep-valid-streams", "sweep-cube", "sweep-plane", "sweep-forms", "random", "model-valid", "model-invalid", "model-unspecified"],
                   thorough=["sweep-valid-streams", "sweep-cube", "sweep-forms", "random", "model-valid", "model-invalid", "model-unspecified"]),
    exhaustive=dict(quick=False, thorough=True),
    exhaustive_scope="thorough: every cell of the redirect cube x shorthands (10 903 552 cells) with input/fork defaults; input and fork forms on a 1/16 stride",
    assumptions=[
        "cells the header leaves open are accepted either way: out-of-range type values; parent+discard when every stream is set explicitly; start-up input with an explicitly set stdin pipe",
        "DRY engine: no real descriptors or processes; the child side of fork is not executed",
    ],
)

prop(
    "C10",
    title="Each standard stream of the child is connected exactly where the options say",
    level="exploration",
    engine="real",
    campaigns=[dict(bin="C10", sweep=True, random=dict(quick=4000, thorough=150000)),
               # Windows half on engine W2 (src/winsim): the _WIN32 build of the whole library on the in-memory Win32 simulator
               dict(bin="C10win", sweep=True, random=dict(quick=20000, thorough=400000), workers=4, optional=True)],
    level_text=("All 6 x 6 x 7 effective redirect combinations x all 8 open/closed subsets of the parent's descriptors 0-2 x 6 ways of expressing "
                "the combination (explicit types; field only / defaults; parent, discard, file and path shorthands) are enumerated (12 096 cases), "
                "plus random cases varying where user objects live (high numbers, 0-2), close() vs fclose(), nonblocking, start-up input. The oracle "
                "compares the identity (st_dev, st_ino, st_rdev, access mode) of the child's own descriptors 0-2, as reported by the child, with the "
                "requested object, checks that bytes really travel over every pipe and that user objects stay untouched. Exhaustive for the type x fd-subset table."),
    level_note="Trusts the puppet's fstat-based snapshot and /proc/self/fd; Linux only; Windows handle plumbing unreachable.",
    technique="exhaustive enumeration of the redirect table + rapidcheck sampling, identity oracle from the child's own report, functional pipe round-trip",
    rule=("sweep index -> (effective type per stream, mask of closed parent descriptors, expression variant); tape -> placement of user objects, "
          "forced low handle numbers, close/fclose, nonblocking, input. Non-trivial: some descriptor among 0-2 closed in the parent, or a user object on 0-2, "
          "or stderr->stdout, or at least two different non-pipe types. Distinct: hash of all of these selectors."),
    essential=dict(quick=["parent-fd-closed", "parent-0-1-2-all-closed", "user-object-on-0-2", "stderr-to-stdout", "via-shorthand", "field-only/defaults", "explicit-types", "closed-with-fclose"]),
    exhaustive=dict(quick=True, thorough=True),
    exhaustive_scope="the 252 effective type combinations x 8 subsets of closed parent descriptors x 6 expression variants; placement/fclose/nonblocking dimensions are sampled",
    assumptions=[
        "user handles are open descriptors > 0 in blocking mode (0 means unset in this API); FILE objects are opened in the right mode",
        "'parent has none' means the descriptor is closed (close or fclose) at the time of the call",
    ],
)

prop(
    "C11",
    title="The child inherits no descriptor besides its three streams and the exit handle",
    level="exploration",
    engine="real",
    campaigns=[dict(bin="C11", random=dict(quick=4000, thorough=80000)),
               # concurrent starts from 2-8 (thorough 24) threads on the thread engine, descriptor oracle only
               dict(bin="C20", random=dict(quick=160, thorough=3000), env={"VERIF_C20_FDS_ONLY": "1"}),
               # Windows half on engine W2 (src/winsim): the _WIN32 build of the whole library on the in-memory Win32 simulator
               dict(bin="C11win", sweep=True, random=dict(quick=20000, thorough=400000), workers=4, optional=True)],
    level_text=("Generated sets of extra parent descriptors (single, dense ranges, hundreds; always trying limit-1 and limit-2; files, pipes, sockets, "
                "eventfds, directories; with and without close-on-exec) under generated RLIMIT_NOFILE soft limits (16 ... 4096, thorough 20000) and generated redirect "
                "configurations; the oracle is the child's own /proc/self/fd listing at entry = {0, 1, 2, one write end of a pipe the parent holds}. Sampling."),
    level_note="Trusts the puppet's /proc/self/fd snapshot taken before it opens anything. A second campaign starts children concurrently from 2-8 (thorough 24) threads on the thread engine (src/props/C20.cpp with only the descriptor/cross-talk oracle enabled): no child may hold a sibling's descriptor.",
    technique="property-based testing (rapidcheck tape) with real child processes; oracle = the child's own descriptor listing",
    rule=("limit from {16,20,24,32,64,100,256,1024,4096(,8192,20000)}; extras: none / 1-6 random / dense range of 1-40 / many (to 1000), plus limit-1 (p=2/3) and limit-2 (p=1/2); "
          "kind and close-on-exec per descriptor; redirect plan random incl. shorthands and start-up input; 1-3 such starts in a row in the same process, each with its own limit (so the limit rises and falls between starts). Non-trivial: an inheritable (no close-on-exec) descriptor >= 3 existed, or the highest "
          "permitted number was open and inheritable. Distinct: hash of limit, descriptor numbers and the redirect plan."),
    essential=dict(quick=["inheritable-extra-descriptor", "highest-permitted-descriptor-open", "hundreds-of-descriptors", "thousands-of-descriptors-open", "tiny-limit", "large-limit", "concurrent-starts", "several-starts-in-one-process", "fork-mode", "parent-0-2-partly-closed"]),
    assumptions=[
        "descriptors at or above the soft limit (possible only if the limit was lowered after opening them) are outside the property's 'up to the descriptor limit'",
        "the refusal branch for limits above 1 048 576 is reached by a getrlimit value fault in C04, not here",
    ],
)

FAULT_SCENARIOS = ("18 start scenarios that change the call sequence (default; all pipes nonblocking; all discard; paths + stderr->stdout; handle/FILE/handle; parent shorthand; "
                   "start-up input; working directory + relative program; env empty + extras; env extend + extras; fork mode; file shorthand; parent stream absent; and four "
                   "naturally failing ones: missing program, bad working directory, bad redirect path, non-executable file, cwd beyond PATH_MAX with a relative program)")

prop(
    "C04",
    title="Start is all-or-nothing and reports the real cause of failure",
    level="fault_enumeration",
    engine="real",
    campaigns=[dict(bin="C04.rel", sweep=True, random=dict(quick=4000, thorough=40000)),
               # Windows half on engine W: every allocation and every Win32 call of process_start fails in turn
               dict(bin="C04win", sweep=True, random=dict(quick=2000, thorough=40000), workers=4, optional=True),
               # reproc_start of the whole _WIN32 build on the Win32 simulator (engine W2), every allocation / Win32 / Winsock call failing in turn
               dict(bin="C04w2", sweep=True, random=dict(quick=20000, thorough=400000), workers=4, optional=True)],
    level_text=("Every system/library call that reproc_start makes - in the parent and in the forked child before exec - is a fault point discovered from a fault-free run of each scenario; "
                "quick enumerates every (scenario, fault point, first two applicable errnos) singly, thorough every applicable errno and pairs (second fault at each of the next 48 "
                "fault points of the path actually taken under the first). Outcome-based oracle: failure => the errno of a real cause, no child left, handle restartable; success => "
                "positive pid of the forked child and the program's own hello. Exhaustive over single fault points of the listed scenarios."),
    level_note=("Fault injection is at the libc boundary of the compiled library (objcopy-renamed symbols), NDEBUG flavour as shipped; errnos per call from the man pages (DESIGN 3.3); "
                "natural-failure errnos come from the harness performing the same operation itself."),
    technique="exhaustive single-fault and paired-fault injection at the libc boundary (both sides of fork) + rapidcheck-sampled fault plans, outcome oracle with the child's own report",
    rule=(FAULT_SCENARIOS + " x every fault point x errnos. Non-trivial: a naturally failing scenario, a child-side fault, or a parent-side fault after the first call (something to undo). "
          "Distinct: (scenario, side, call index, call, errno/kind) of every fault."),
    essential=dict(quick=["fault-free", "single-fault", "start-failed", "start-succeeded-under-fault", "scenario:fork-mode", "scenario:missing-program", "win-alloc-fault", "win-api-fault"],
                   thorough=["fault-free", "single-fault", "fault-pair", "start-failed", "start-succeeded-under-fault"]),
    exhaustive=dict(quick=True, thorough=True),
    exhaustive_scope="all single fault points (first two errnos each in quick, all in thorough) of the 18 scenarios on both sides of fork; pairs are bounded (next 48 points, one errno each)",
    assumptions=[
        "RLIMIT_NOFILE is lowered to 64 during start so that the child's descriptor-closing loop stays short; its probing fcntl(F_GETFD) calls are not fault points",
        "faults inside libc (e.g. execvp's PATH walk) are injected at the execvp boundary only; clock_gettime is not injected",
        "an injected close failure still releases the descriptor (Linux semantics)",
        "Windows half: process_start of process.windows.c on stub headers with an injected failure at each allocation (10) and each Win32 call (5 functions x 6 ordinals x 4 error codes) for four argv/env shapes; also the exit-code mapping of process_wait",
    ],
)

prop(
    "C12",
    title="Start leaves the caller untouched and gives the child a clean signal state",
    level="fault_enumeration",
    engine="real",
    campaigns=[dict(bin="C12.rel", sweep=True, random=dict(quick=4000, thorough=40000))],
    level_text=("Snapshot equality of the calling thread's signal mask, all 62 observable dispositions (handler, mask, flags), working directory identity and environ (pointer and "
                "content) around reproc_start on every return path: every single fault point of every scenario (quick) and pairs (thorough), each with a generated parent signal "
                "state (random blocked set, ignored and handled signals). For started programs, SigBlk/SigIgn/SigCgt from the child's own /proc/self/status at entry."),
    level_note="Faults as in C04. Signals the harness itself depends on (KILL, STOP, SEGV, BUS, FPE, ILL, ABRT, TRAP, CHLD, 32-39) are not manipulated; real-time signals are not asserted in the child.",
    technique="exhaustive single-fault and paired-fault injection at the libc boundary x generated parent signal states, snapshot-equality invariant + the child's own report",
    rule=(FAULT_SCENARIOS + " x every fault point x errnos x a tape-generated parent signal state (untouched / some / many signals blocked, ignored, handled with SA_RESTART or not). "
          "Non-trivial: the parent blocked something and ignored or handled something, or a fault fired at or after the parent's mask change. Distinct: fault identities + parent state."),
    essential=dict(quick=["single-fault", "fault-free", "parent-blocks-and-handles", "fault-at-or-after-mask-change", "failed-start", "successful-start"]),
    exhaustive=dict(quick=True, thorough=True),
    exhaustive_scope="all single fault points of the 18 scenarios on both sides of fork (parent signal state sampled per case)",
    assumptions=[
        "a fault injected into the restoring pthread_sigmask call itself is excluded by the property's wording",
        "called from the main thread; the thread-local nature of the mask is covered by C20's engine",
    ],
)

prop(
    "C05",
    title="No descriptor, memory or process leak, no foreign or double close, on any path",
    level="fault_enumeration",
    engine="real",
    campaigns=[dict(bin="C05.rel", sweep=True, random=dict(quick=3000, thorough=80000)),
               # Windows half on engine W2 (src/winsim): the _WIN32 build of the whole library on the in-memory Win32 simulator
               dict(bin="C05win", sweep=True, random=dict(quick=20000, thorough=400000), workers=4, optional=True)],
    level_text=("Ledger invariants kept by the shim at the libc boundary: every close is of a descriptor the library created and still had open; every free matches one live allocation; after "
                "destroy the descriptor table (numbers and identities) equals the one before reproc_new, no allocation is outstanding, no child start failed on or that was waited for is "
                "unreaped; user handles, FILEs and the parent's 0-2 keep their identity. Checked on every single fault point of start (quick) and pairs (thorough), incl. close and "
                "allocation failures, and on generated call histories (wait/stop/terminate/kill/read/write/close/poll/pid, child exits and writes) with faults injected into the later calls."),
    level_note="Leaks inside libc are invisible to the ledger. The ASan/UBSan build additionally traps double free and use after free.",
    technique="exhaustive single/paired fault injection + rapidcheck-generated call histories with late faults; resource-ledger invariant at the libc boundary",
    rule=(FAULT_SCENARIOS + " x fault points x errnos; random: scenario x 0-2 start faults x 1-14 generated operations x 0-2 faults in later calls. "
          "Non-trivial: a failed start, an injected fault that fired, a late fault, or a scenario with user-owned objects (handle/FILE/parent streams). Distinct: fault identities + operation list."),
    essential=dict(quick=["single-fault", "fault-free", "failed-start", "late-fault", "generated-history", "fault:close", "fault:malloc"]),
    exhaustive=dict(quick=True, thorough=True),
    exhaustive_scope="all single fault points of the 17 start scenarios; histories and late faults are sampled",
    assumptions=["an injected close failure still releases the descriptor (Linux)", "reads are only issued when they cannot block (nonblocking mode, data pending, or child gone)"],
)

prop(
    "C06",
    title="Only the library's own, still-unreaped child is ever signalled or waited for",
    level="fault_enumeration",
    engine="real",
    campaigns=[dict(bin="C06.rel", sweep=True, random=dict(quick=4000, thorough=80000)),
               # Windows half on engine W2 (src/winsim): the _WIN32 build of the whole library on the in-memory Win32 simulator
               dict(bin="C06win", sweep=True, random=dict(quick=20000, thorough=400000), workers=4, optional=True)],
    level_text=("The shim's kill and waitpid refuse (and record) any target that is not the positive pid of a live child forked for the handle - nothing else ever reaches the kernel. "
                "Checked over every single fault point of start followed by wait/terminate/kill on handles that start reported as running (quick), pairs (thorough), and generated histories "
                "of terminate/kill/wait/stop around the child's exit and after reap: after a successful wait, terminate and kill return 0 and send nothing."),
    level_note="Pid recycling by the OS cannot be forced; the check shows its precondition (signalling or waiting after reap, or with a pid that is not the child's) never occurs.",
    technique="exhaustive single/paired fault injection + rapidcheck-generated histories; target invariant enforced inside the interposed kill/waitpid",
    rule=(FAULT_SCENARIOS + " x fault points; random: histories of 2-12 operations from {wait(0|15|3000), terminate, kill, stop(3 random actions), child exits with a random code}. "
          "Non-trivial: a terminate/kill/wait/stop issued after a status was returned, or a start that reported success under a fault. Distinct: fault identities + operation names."),
    essential=dict(quick=["single-fault", "call-after-reap", "start-succeeded-under-fault", "generated-history"]),
    exhaustive=dict(quick=True, thorough=True),
    exhaustive_scope="all single fault points of the 17 start scenarios; histories are sampled",
    assumptions=["one operation of a kind per child at a time (README, Multithreading)"],
)

prop(
    "C07",
    title="Stop sequences escalate in order, report truthfully and respect their timeouts",
    level="exploration",
    engine="vtime",
    campaigns=[dict(bin="C07", sweep=True, random=dict(quick=8000, thorough=80000))],
    level_text=("All 5^3 shapes of three actions from {noop, wait, terminate, kill, out-of-range} x 8 child behaviours are enumerated (x4 draws quick, x40 thorough) with generated timeouts "
                "{0, finite up to 1e7, INFINITE, DEADLINE}, deadlines, call times and handle states, on a virtual millisecond clock: an independent interpreter of the documented contract "
                "predicts the ordered signal log with time stamps, the exact virtual duration and the result; 'would wait for ever' is a detected state. Exhaustive over action shapes only."),
    level_note="Virtual time replaces only *when* things happen; pipes, signals, poll readiness and reaping are the real kernel's. Exact ties between the child's death and the end of a wait window accept both resolutions.",
    technique="model-based property testing on a virtual clock (rapidcheck tape + exhaustive action shapes), reference interpreter of the documented stop contract as oracle",
    rule=("sweep index -> (action shape, child behaviour in {dies on TERM, ignores TERM, dies after short/long delay, exits by itself before/during/after the sequence, exits by itself and ignores TERM}); "
          "tape -> timeouts (incl. constructed around the child's delay/exit time), deadline none/future/expired, call time, prior wait (reaped / polled), epoch (incl. > 2^31 and > 2^41 ms). "
          "Non-trivial: at least two non-noop actions, or a timed-out step followed by anything, or an out-of-range action, or the child ending during the sequence. "
          "Distinct: hash of shape, timeout classes, behaviour, delays and times."),
    essential=dict(quick=["expect-status", "expect-timeout", "expect-einval", "expect-unbounded-wait", "all-noop", "step-timed-out", "child-ended-during-stop", "already-reaped", "exited-not-reaped", "with-deadline"]),
    exhaustive=dict(quick=False, thorough=False),
    exhaustive_scope="the 125 action shapes x 8 child behaviours are each visited; timeouts and times are sampled",
    assumptions=["out-of-range action values are 4, 7 and -1", "a signal sent to a child that has exited but is not yet reaped is permitted (the pid is still the child's)"],
)

prop(
    "C08",
    title="Deadlines and timeouts bound every wait and poll, whatever the order of sources",
    level="exploration",
    engine="vtime",
    campaigns=[dict(bin="C08", random=dict(quick=10000, thorough=80000))],
    level_text=("1-6 poll sources in generated order (NULL sources interleaved), each process started with no deadline, a future one (1..1e5 ms, INT_MAX) or one that has expired by the time of "
                "the poll; timeouts {0, finite, INFINITE} constructed around the remaining deadlines and child event times (smaller / equal / larger); scripted child writes, closes and exits "
                "before, between and after those bounds; up to three polls in a row (repeat after expiry); then reproc_wait with 0 / finite / DEADLINE / INFINITE. On a virtual clock the oracle "
                "compares the return time exactly with min(first requested event, timeout, earliest deadline), the return value and the placement of the deadline event; re-polling the same instant "
                "with the sources rotated and a NULL source inserted must give the same answer (metamorphic)."),
    level_note="Virtual time: real poll(2) rounding is below the model's resolution. Nothing is read between polls, so an event stays observable once it has occurred. Ties between bounds accept either shape.",
    technique="model-based property testing on a virtual clock (rapidcheck tape), min(E,T,D) oracle computed from the script + metamorphic permutation relation",
    rule=("tape -> number of sources, per source NULL / deadline kind / interest mask / start gap / one scripted child event and its time, time of the first poll, 1-3 poll timeouts, wait form, epoch "
          "(incl. > 2^31 and > 2^41 ms). Non-trivial: processes with different deadline kinds, or a NULL source interleaved, or timeout within 1 ms of the earliest deadline, or a poll repeated after expiry. "
          "Distinct: hash of the source descriptions, timeouts and times."),
    essential=dict(quick=["two-or-more-processes", "mixed-deadline-kinds", "null-source-interleaved", "timeout-within-1ms-of-deadline", "poll-repeated-after-expiry", "deadline-came-first", "timeout-came-first", "event-came-first", "permuted-rerun", "wait-checked", "epoch-beyond-2^31-ms"]),
    assumptions=["all three streams are pipes; an idle stdin pipe is always writable, so IN interest makes a poll return at once", "deadline option values are positive ints (0 = none)"],
)

prop(
    "C09",
    title="Poll reports exactly the events that are true and nothing else",
    level="exploration",
    engine="vtime",
    campaigns=[dict(bin="C09", random=dict(quick=8000, thorough=100000)),
               # Windows half on engine W2 (src/winsim): the _WIN32 build of the whole library on the in-memory Win32 simulator
               dict(bin="C09win", sweep=True, random=dict(quick=20000, thorough=400000), workers=4, optional=True)],
    level_text=("1-5 sources (NULL included) with every interest mask; each stream's state is constructed and acknowledged before the poll (not a pipe / open idle / data pending from 1 byte to a "
                "full pipe / closed by the child / closed by the parent; stdin empty / full / reader gone / closed by the parent; child running / exited / reaped), so with timeout 0 nothing depends on "
                "timing; some cases poll with a finite or infinite timeout and a scripted later event. Oracle: events subset of interests, NULL sources silent, return value = number of sources with events, "
                "REPROC_EPIPE exactly when the parent-side pipe model has nothing pollable among the requested streams, completeness for settled true states, and a truthfulness probe per reported bit "
                "(read / 1-byte write / wait(0)) that must complete without a blocking episode in the virtual-time scheduler."),
    level_note="Readiness is the real kernel's poll(2); only settled states are demanded. Windows socket readiness is unreachable.",
    technique="model-based property testing (rapidcheck tape) on the virtual-time engine; pipe-state model + truthfulness probes as oracle",
    rule=("tape -> number of sources, per source NULL / interests (0-31) / state of stdout, stderr, stdin / child state / nonblocking / a later scripted event; poll timeout; optional second round after the probes. "
          "Non-trivial: at least two sources, or a stream in a closed / not-a-pipe state, or a reaped child among the sources, or an empty pollable set. Distinct: hash of all of these."),
    essential=dict(quick=["two-or-more-sources", "closed-or-not-a-pipe-stream", "reaped-child-among-sources", "empty-pollable-set", "waiting-poll", "probe-performed", "null-source"]),
    assumptions=["a full stdin pipe is produced by writing exactly the 64 KiB capacity in page-sized writes", "processes have no deadline here (C08 covers deadline events)"],
)

prop(
    "C01",
    title="Exit status is reported exactly, stays stable, and the child is reaped once",
    level="exploration",
    engine="vtime",
    campaigns=[dict(bin="C01", sweep=True, random=dict(quick=10000, thorough=80000)),
               # Windows half on engine W2 (src/winsim): the _WIN32 build of the whole library on the in-memory Win32 simulator
               dict(bin="C01win", sweep=True, random=dict(quick=20000, thorough=400000), workers=4, optional=True)],
    level_text=("Deterministic sweep of all 256 exit codes and all 23 terminating signals (1..31 minus CHLD, CONT, STOP, TSTP, TTIN, TTOU, URG, WINCH; core dumps disabled in the child) with "
                "wait-only histories, plus random histories of 1-12 (thorough 30) operations from {wait(0|finite|INFINITE|DEADLINE), stop(3 actions), terminate, kill} placed before and after the "
                "ending on a virtual clock, children that die on or ignore SIGTERM, optional deadline. The ending is commanded by the harness, so the expected value is independent of the library. "
                "Oracle: exact status; no status while the child runs (and no blocking waitpid on a running child); every later wait/stop returns the same value with zero waitpid/poll/kill calls and "
                "zero virtual time; terminate/kill after the status send nothing; exactly one successful waitpid over the whole history; no zombie; the shim rejects any second reap."),
    level_note="Statuses are what the harness commanded or what the library's own signal must cause (143/137); Windows exit-code mapping is not reachable.",
    technique="exhaustive sweep of codes and signals + model-based property testing of call histories on the virtual-time engine (rapidcheck tape)",
    rule=("sweep index -> exit code 0..255 / terminating signal; tape -> time of the ending, SIGTERM behaviour, deadline, operations with gaps and timeouts. Non-trivial: a wait/stop/terminate/kill issued after a "
          "status was already returned, or an ending other than exit(0). Distinct: hash of ending and per-operation (kind, state) sequence."),
    essential=dict(quick=["sweep-exit-code", "sweep-signal", "call-after-status", "nonzero-status", "ended-by-own-signal", "ended-by-library-signal", "interrupted-call"]),
    exhaustive=dict(quick=True, thorough=True),
    exhaustive_scope="all 256 exit codes and all 23 terminating signals (endings); histories are sampled",
    assumptions=["an unbounded wait for a child that never ends is replaced by a bounded one (C07/C15 cover unbounded waits)", "stop actions are in range here (out-of-range is C07/C14)"],
)

prop(
    "C15",
    title="Destroy applies the stop policy; the default never abandons a running child",
    level="exploration",
    engine="vtime",
    campaigns=[dict(bin="C15", sweep=True, random=dict(quick=8000, thorough=60000))],
    level_text=("The stop policy stored at start is generated like C07's (all 125 action shapes x 8 child behaviours enumerated, timeouts/deadline/times from the tape); destroy is then called in every "
                "handle state: running, exited but unreaped, reaped, never started, failed start, child side of a fork, NULL - through reproc_destroy and through reproc::process's destructor. On the "
                "virtual clock the C07 interpreter applied to the stored policy predicts the signals with time stamps, the duration and whether the child is reaped; for the default policy: no SIGKILL, "
                "SIGTERM at most once and never before the deadline, and destroy still waiting when nothing can happen any more (detected, not timed). NULL return and a clean ledger in every state; "
                "no kill/waitpid for not-started, failed, reaped and child-side handles."),
    level_note="A non-default policy may legitimately leave a live child behind; then only faithful execution of the policy is demanded. Virtual time as in C07.",
    technique="model-based property testing on the virtual-time engine (rapidcheck tape + exhaustive action shapes), stop-contract interpreter as oracle, C and C++ entry points",
    rule=("sweep index -> (action shape of the stored policy, child behaviour); tape -> timeouts, deadline, time of destroy, prior wait, handle state, C or C++. Non-trivial: destroy was called on a "
          "running or unreaped child, or in the failed-start / child-side state. Distinct: hash of policy, behaviour, state and times."),
    essential=dict(quick=["destroy-on-running-child", "destroy-on-exited-unreaped", "destroy-on-reaped", "default-policy", "via-cxx-destructor", "policy-waits-unbounded", "policy-times-out", "destroy-after-failed-wait", "restarted-after-failed-start", "state:failed-start", "state:fork-child-side", "state:not-started", "state:NULL", "with-deadline"]),
    assumptions=["in the forked-child state only destroy is legal (reproc.h); nothing more is demanded of it than NULL, no signal, no wait"],
)

prop(
    "C17",
    title="Nonblocking mode never blocks; blocking calls wait only for the child",
    level="exploration",
    engine="vtime",
    campaigns=[dict(bin="C17", random=dict(quick=10000, thorough=100000)),
               # Windows half on engine W2 (src/winsim): the _WIN32 build of the whole library on the in-memory Win32 simulator
               dict(bin="C17win", sweep=True, random=dict(quick=20000, thorough=400000), workers=4, optional=True)],
    level_text=("Reads (stdout/stderr) and writes (stdin) with the pipe state constructed beforehand (empty, partly filled, full = exactly 64 KiB in page-sized writes, far side closed by the child or by its "
                "exit), sizes 1 B - 1 MiB, nonblocking on and off, a child that is idle for ever, acts at scripted virtual times (writes, reads in page multiples, closes, exits) or is already gone; start-up "
                "input of 0, 1, 4096, 65535, 65536, 65537 and 2^20 bytes with a child that reads at once, late or never. The virtual-time scheduler's blocking-episode log is the oracle: no episode and "
                "O_NONBLOCK on the descriptor for nonblocking calls, results matching the real pipe state; no episode inside reproc_start; blocking calls end exactly at the child's action that provides "
                "data / end-of-file / room for all bytes and never by themselves ('would block for ever' is a detected state)."),
    level_note="Pipe capacity is the Linux default (64 KiB); room accounting is exact because all fills and child reads are page multiples.",
    technique="property-based testing on the virtual-time engine (rapidcheck tape); blocking-episode invariant + pipe-state oracle",
    rule=("tape -> scenario (read / write / start-up input), nonblocking, stream, pending bytes, far-side state, later child event and its time, sizes, prefill, the child's read schedule, input size and reader. "
          "Non-trivial: the pipe was empty-and-open (read) or lacked room (write) at the call, i.e. the call would have blocked in the other mode, or start-up input at or above the capacity. Distinct: hash of these."),
    essential=dict(quick=["read:blocking", "read:nonblocking", "write:blocking", "write:nonblocking", "startup-input:blocking", "startup-input:nonblocking", "pipe-empty-and-open", "pipe-full-and-open", "far-side-closed", "waited-for-child", "blocks-forever-expected", "input-at-or-above-capacity", "input-delivered", "input-start-failed"]),
    assumptions=["SIGPIPE is ignored in the parent (README, Gotchas)", "read size 0 is C02's subject"],
)

prop(
    "C14",
    title="Any call sequence follows the documented life cycle; misuse errors, never UB",
    level="exploration",
    engine="vtime",
    campaigns=[dict(bin="C14", random=dict(quick=8000, thorough=80000))],
    level_text=("Model-based sequences of 1-40 (thorough 120) calls over up to three handles: new; start (valid with generated redirects/nonblocking/deadline, four classes of invalid options, missing "
                "program, fork mode - whose child side then calls every function and must get EINVAL from all but destroy); pid; write (data, NULL/0, NULL/n); read (stdout, stderr, stdin, out-of-range); "
                "close (incl. out-of-range, twice); poll (1-4 sources incl. NULL, repeated and not-started handles, NULL array, zero count); wait; terminate; kill; stop (incl. out-of-range actions); destroy; "
                "NULL handles everywhere; interleaved with scripted child writes, closes, exits and passing virtual time. After every call the return value must be in the set the reference model allows for "
                "the handle's state; the case process runs the ASan+UBSan build with asserts on, so a memory error, UB report, assert or crash is a violation with the sequence as replay."),
    level_note="Only valid pointers are passed (a destroyed handle is never reused). Where the documentation leaves latitude the model accepts every documented value (e.g. read/write/close before start: EPIPE/0 or EINVAL).",
    technique="stateful model-based property testing (rapidcheck tape decoded into an operation sequence) on the virtual-time engine, sanitizer build as crash oracle",
    rule=("tape -> per step: handle index (3 slots), NULL handle (1/25), operation kind and parameters, child actions. Non-trivial: the sequence contains a call that is misuse in the state it is made (before "
          "start, after exit, after close, twice, on NULL, invalid parameter) and at least one successful start. Distinct: hash of the (operation, state) sequence."),
    essential=dict(quick=["misuse-call", "successful-start", "several-children", "fork-child-side", "interrupted-call"]),
    assumptions=["reads are only issued when they cannot block for ever; stdin writes stay below the pipe capacity", "invalid pointers are out of scope by the property's wording"],
)

prop(
    "C02",
    title="Stream fidelity: bytes arrive once, in order; end-of-stream exactly at the end",
    level="exploration",
    engine="vtime",
    campaigns=[dict(bin="C02", random=dict(quick=3000, thorough=50000)),
               # Windows half on engine W2 (src/winsim): the _WIN32 build of the whole library on the in-memory Win32 simulator
               dict(bin="C02win", sweep=True, random=dict(quick=20000, thorough=400000), workers=4, optional=True)],
    level_text=("Nine cases in ten run on the virtual-time engine: 2-30 interleaved steps of child writes (sizes 0, 1, 2, 7, 4095-4097, 65535-65537, 128 KiB, 1 MiB+3, 3 MiB, 8 MiB and random), child closes, "
                "child exit, child reads of stdin, parent reads with buffer sizes {0, 1, 7, 4096, 65536, 1 MiB}, parent writes, parent closes and polls; blocking and nonblocking; stderr as its own "
                "pipe, redirected to stdout (exact merged order checked), or not piped; stdin fed by reproc_write, by start-up input, or closed at once; then everything is drained to the end. One case in "
                "ten is a real-clock full-duplex bulk transfer (up to 8 MiB per direction, thorough 64 MiB) against a free-running child through poll/read/write or reproc_drain. Content is a fixed function of "
                "(stream, offset): the oracle checks prefix-equality at every read, that the closed-stream error comes only when the child has closed the stream (or exited) and every written byte was "
                "delivered, that it is sticky afterwards, and that the child's own report of stdin (count, first mismatch, end-of-file) equals what writes accepted."),
    level_note="A single transfer is capped far below the 2 GiB int limit. In virtual-time cases reads that would wait for ever are not issued (C17 covers waiting); real-clock cases report a stall only after 20 s without any event.",
    technique="property-based testing (rapidcheck tape) with a pattern round-trip oracle on the virtual-time engine and on the real clock",
    rule=("tape -> mode flags and the step list (V) or stream sizes / child chunk size / drain-or-loop / echo (R). Non-trivial: a stream carried more than 65 536 bytes, or a zero-size buffer was used, or stdout "
          "and stderr were both piped and both written, or start-up input was non-empty. Distinct: hash of the executed step log (V) or of the sizes (R)."),
    essential=dict(quick=["engine-V", "engine-R", "stream-above-64KiB", "zero-size-buffer", "stdout-and-stderr-interleaved", "startup-input", "stderr-to-stdout", "blocking", "nonblocking", "via-drain", "interrupted-read-or-write"]),
    assumptions=["SIGPIPE ignored in the parent", "with stderr redirected to stdout child writes are kept <= 4096 bytes (atomic) so that script order is pipe order"],
)

prop(
    "C16",
    title="Drain and run deliver each stream to its sink with the documented protocol",
    level="exploration",
    engine="vtime",
    campaigns=[dict(bin="C16", random=dict(quick=4000, thorough=60000))],
    level_text=("reproc_drain and reproc::drain on the virtual-time engine: child scripts of up to 10 timed writes (0 B - 1 MiB), closes and an exit over both streams; stdout piped or not; stderr piped, "
                "redirected to stdout, parent (default) or discarded; two recording sinks, one sink for both streams, string sinks (initial content NULL / empty / non-empty, one string for both "
                "streams or two, realloc failing at a generated growth step), REPROC_SINK_NULL, a sink without a function; a sink that returns a generated non-zero value at a generated call; deadlines "
                "before, during and after the output. The oracle works on the recorded sink calls (which sink, tag, size, virtual time, content continuity): the two initial IN/0 calls, tag-to-sink "
                "routing, chunk size <= 4096, content continuity per stream, exactly one closing call per piped stream and none for others, 0 only when all piped streams closed, the sink's value "
                "returned at once with no later call, the timeout error exactly at the deadline with no chunk after it, string == initial ++ bytes (also after ENOMEM). One case in six runs "
                "reproc_run_ex / reproc_run / reproc::run on the real clock against an autonomous child: exit status, first error (missing program, failing sink, deadline, fork option), child reaped, ledger clean."),
    level_note="With stderr merged into stdout only totals are checked for the merged stream. run() cases use the real clock with generous margins (child lingers 4 s against a 150 ms deadline).",
    technique="property-based testing (rapidcheck tape) with recording sinks on the virtual-time engine; protocol oracle over the call log; C/C++ differential through the same recorder",
    rule=("tape -> redirect choices, child script, sink kind, failure plan, string initial content, realloc fault index, deadline, C or C++ (drain); sizes, exit code, API, failure kind (run). Non-trivial: both "
          "streams piped and both non-empty, or a sink failure / allocation failure / deadline actually hit, or a run error path. Distinct: hash of configuration and script."),
    essential=dict(quick=["drain", "run", "both-streams-piped-and-nonempty", "sink-failure-hit", "allocation-failure-hit", "deadline-hit", "via-cxx", "string-sink", "null-sink-function", "stderr-to-stdout", "unpiped-stream", "run-error-path", "run:reproc_run_ex", "run:reproc_run", "run:reproc::run"]),
    assumptions=["child output contains no NUL bytes (documented limitation of the string sink)", "reproc_run is exercised with the discard shorthand so that the child's output does not land in the worker's log"],
)

prop(
    "C20",
    title="Documented thread-safety: distinct operations and distinct children race-free",
    level="exploration",
    engine="tsan",
    campaigns=[dict(bin="C20", random=dict(quick=600, thorough=12000))],
    level_text=("Generated plans of 2-8 (thorough 24) threads released together: worker threads run 1-3 complete cycles (start a child, write its input in chunks, close stdin, read the echo to the "
                "end, wait, destroy) on their own children with distinct exit codes; one cycle in three splits into a writer thread and a reader thread on the same handle with payloads of 64 KiB+1 ... "
                "1 MiB, above the pipe capacity in both directions; one thread in six hammers reproc_strerror and compares with strerror_r; one in five runs whole reproc_run_ex cycles with verifying sinks against an autonomous child; the echo is read with a reproc_read loop, with reproc_drain (a sink that inspects its chunk twice around a yield) or with reproc_poll + reproc_read; cycles end with reproc_wait or reproc_stop. The unmodified library is built with ThreadSanitizer; a "
                "per-plan generator inserts yields and micro-sleeps at every libc boundary call. Oracles: any ThreadSanitizer report; every child's descriptor table at entry is {0,1,2,exit handle}; "
                "every child echoes exactly its own bytes, sees end-of-file when its own parent closes stdin (its own report), and every wait returns its own code; strerror strings are per thread."),
    level_note=("This family cannot enumerate interleavings: the claim is 'no race reported and no cross-talk on N generated plans'. ThreadSanitizer's happens-before analysis flags an unsynchronised "
                "conflicting pair whenever both accesses execute, without needing the unlucky schedule; a purely logical race with no shared memory access is found only if the seeded yields produce it."),
    technique="property-based generation of thread plans + ThreadSanitizer race detection + cross-talk invariants from the children's own reports",
    rule=("tape -> thread count, per thread worker/strerror, cycles (payload size, chunk size, reader/writer split), yield level, yield seed. Non-trivial: at least two threads were inside reproc_start "
          "concurrently (measured with an atomic), or a reader/writer pair overlapped. Distinct: hash of the plan."),
    essential=dict(quick=["concurrent-starts", "four-or-more-concurrent-starts", "reader-writer-overlap", "strerror-threads", "run-threads", "writer-fails-while-reader-reads"]),
    assumptions=["one operation of a kind per child at a time (README, Multithreading)", "REPROC_MULTITHREADED build (pthread_sigmask), as in the pinned baseline"],
)

# ---- Windows half on engine W2 (added to the properties whose anchors include *.windows.c) ----
W2_TEXT = (" Windows half (engine W2): the library's _WIN32 build - reproc.c, redirect.c, options.c and every *.windows.c, compiled unmodified - runs on an in-memory Win32 "
           "simulator (src/winsim: handles with ownership and inherit flags, stream sockets with finite byte queues and shutdown states, one process whose program is played by the "
           "harness, a virtual tick counter, failure of any allocation / Win32 / Winsock call on demand). Sweep: 7 x 7 x 8 redirect types x (no fault, 24 allocation indices, "
           "19 calls x 8 ordinals x 2 errors); random: shorthands, absent / broken / shared parent std handles, start-up input, child output up to 200 000 bytes per stream across "
           "the child's exit, endings by exit / terminate / kill / destroy. %s")
W2_NOTE = " The simulator implements documented Win32 / Winsock behaviour only; it is not Windows (e.g. it does not reproduce the socket flush problem the Windows-only keep-alive code works around)."
W2_WHAT = {
    "C01": "Oracle: wait returns the exit code given to the simulated process (137 after TerminateProcess, 143 for the console-break code), the same value again afterwards.",
    "C02": "Oracle: pattern bytes written by the simulated child are read exactly once and in order, the closed-stream error only after all of them and only once the child is gone, sticky; start-up input and writes reach the child followed by end-of-file.",
    "C04": "Oracle: a start that fails returns the injected error (-8 for an allocation), leaves no process, and a second start on the same handle succeeds; success means CreateProcessW succeeded.",
    "C05": "Oracle: the simulator's handle and allocation ledger after destroy - every handle the library created is closed exactly once, none of the caller's (std handles, user handles, the handle behind a FILE) is ever closed, no use after close, no block left.",
    "C06": "Oracle: terminate sends exactly one CTRL_BREAK_EVENT to the child's own process group (and the child was created with its own group), kill calls TerminateProcess once on the child's handle with 137, nothing is sent once a status was returned; destroy does not return while the child runs.",
    "C03": "Oracle: the command line handed to CreateProcessW, split by the documented rules (both CommandLineToArgvW and the 2008+ C runtime variant), gives back exactly the generated arguments (alphabet of spaces, tabs, quotes, backslashes, non-ASCII, empty); the environment block is the parent's entries then the extras; the working directory is the one requested.",
    "C09": "Oracle: every poll result - events within the interests, count equal to the sources with events, no deadline event without a deadline, a reported stream does not make the read report would-block, the closed-pipe error once both output streams have reported end-of-stream, nothing for a source without a process, exit reported for an exited child.",
    "C17": "Oracle: before the child says anything a non-blocking read returns the would-block error without passing time; a blocking read returns exactly what the child writes when the wait begins; a 70 000-byte flood of stdin is accepted up to the pipe's 65 536 bytes and then refused (non-blocking) or delivered completely while the child reads whenever the writer waits (blocking); start-up input of 65 535 / 65 536 / 65 537 / 70 000 / 200 000 bytes is delivered completely or start fails with the would-block error, never blocks.",
    "C10": "Oracle: hStdInput / hStdOutput / hStdError given to CreateProcessW against the redirect settings - the right end of a library pipe, the parent's own std handle (NUL if it has none), NUL or the path opened with the access of the stream's direction, the user's handle, the handle behind the FILE, stdout's handle for stderr.",
    "C11": "Oracle: the PROC_THREAD_ATTRIBUTE_HANDLE_LIST holds exactly the three stream handles and the exit handle, each once and inheritable at creation; bInheritHandles with an explicit list; the parent's pipe ends and everything else the library created are not inheritable.",
}
for _pid, _what in W2_WHAT.items():
    PROPS[_pid]["level_text"] = PROPS[_pid]["level_text"] + W2_TEXT % _what
    PROPS[_pid]["level_note"] = PROPS[_pid].get("level_note", "") + W2_NOTE
    PROPS[_pid]["technique"] = PROPS[_pid]["technique"] + "; Windows sources: exhaustive single-fault sweep + rapidcheck-sampled cases on an in-memory Win32 simulator"
    PROPS[_pid].setdefault("assumptions", []).append("engine W2 models one child per case and documented Win32 semantics (duplicate handles in a handle list and non-inheritable listed handles make CreateProcessW fail)")
W2_ESSENTIAL = {
    "C01": ["child-exits", "terminated", "killed", "child-closed-its-exit-handle", "child-stopped-by-sigstop", "child-collected-by-someone-else"],
    "C02": ["output-exceeds-socket-buffer", "child-gone-before-first-read", "startup-input", "engine:fork-mode", "via-drain:blocking-handle"],
    "C04": ["alloc-fault", "api-fault", "fault-fired", "restarted-after-failure", "fault-pair:second-in-the-clean-up"],
    "C05": ["alloc-fault", "api-fault", "fault-fired", "destroy-while-running", "run-api:fault-fired", "run-api:fork option"],
    "C06": ["terminated", "killed", "destroy-while-running", "calls-on-failed-handle"],
    "C03": ["start-succeeded", "fork-mode"],
    "C08": ["polled-weeks-after-start", "interrupted-by-signal", "ticking-clock:entered-within-four-readings-of-deadline"],
    "C18": ["random-long"],
    "C16": ["run-null-sinks-output-exceeds-pipe"],
    "C15": ["via-cxx-move", "explicit-stop-with-another-policy-first", "ticking-clock:entered-within-four-readings-of-deadline"],
    "C12": ["sigchld-ignored+fork-fails", "fork-child-with-parent-nocldwait"],
    "C09": ["poll-after-eof", "output-piped", "deadline-passed-before-poll", "deadline-passed-during-poll"],
    "C17": ["blocking-probe", "stdin-flood", "startup-input-beyond-capacity", "descendant-holds-stream:blocking", "small-pipes"],
    "C10": ["output-piped", "start-succeeded"],
    "C11": ["start-succeeded", "restarted-after-failure", "child-cannot-read-limit:start-refused", "thousands-of-descriptors-open"],
}
for _pid, _cls in W2_ESSENTIAL.items():
    PROPS[_pid]["essential_optional"] = list(_cls) + ["win-alloc-fault", "win-api-fault"]
    for _tier in ("quick", "thorough"):
        if _tier in PROPS[_pid].get("essential", {}):
            PROPS[_pid]["essential"][_tier] = PROPS[_pid]["essential"][_tier] + [c for c in _cls if c not in PROPS[_pid]["essential"][_tier]]
